//! Controlled scheduler + stateless schedule explorer (DESIGN.md §3).
//!
//! `run(n, body)` is what every parallel terminal calls.
//!  * No execution context on the calling thread -> items run in index order, inline.
//!  * Called from inside a worker (nested parallel call) -> inline, in order (points inside still
//!    yield to the scheduler).
//!  * Otherwise `W = min(cfg.workers, n)` scoped OS threads are spawned for this call.  Exactly one
//!    of them runs at any time (baton = `Inner::baton`).  A worker gives up the baton at
//!      - *take*  : it is idle and needs an item (optionally: which item),
//!      - *point* : the library called `point(label, ready)` (placed before lock acquisitions),
//!      - *end*   : its task finished.
//!    Whoever gives up the baton computes the set of enabled workers (a parked worker whose
//!    `ready()` is false is disabled = blocked on a held lock), consults the choice sequence
//!    (replay prefix, then choice 0) and passes the baton on.
//!
//! All decisions are recorded in a `Trace`; `explore` enumerates choice sequences depth-first
//! with a preemption bound, exactly as in the CHESS "iterative context bounding" idiom.

use std::any::Any;
use std::cell::RefCell;
use std::panic::{catch_unwind, resume_unwind, AssertUnwindSafe};
use std::sync::{Arc, Condvar, Mutex, MutexGuard};
use std::time::Duration;

#[derive(Clone, Debug)]
pub struct Config {
    /// max worker threads per parallel call
    pub workers: usize,
    /// branch over *which* remaining item an idle worker takes (work stealing order)
    pub choose_items: bool,
    /// horizon: an execution with more decisions than this is reported as `Abort::Horizon`
    pub max_decisions: usize,
    /// parallel calls with fewer items than this run inline
    pub min_items: usize,
    /// count a switch to another worker at a task boundary (while the current worker could take
    /// the next item) as a deviation too, like a preemption.  Keeps the search space polynomial
    /// for calls with many small tasks; the bound then is a bound on deviations from "one worker
    /// does everything, in index order" (with `choose_items` a non-default item choice counts as well).
    pub count_task_switches: bool,
}

impl Default for Config {
    fn default() -> Self {
        Config { workers: 2, choose_items: false, max_decisions: 20_000, min_items: 2, count_task_switches: false }
    }
}

#[derive(Clone, Copy, Debug, PartialEq, Eq)]
pub enum Kind {
    Worker,
    Item,
}

#[derive(Clone, Debug)]
pub struct Decision {
    pub alts: u32,
    pub chosen: u32,
    /// true: choosing a non-default alternative here is NOT a preemption
    pub free: bool,
    pub kind: Kind,
}

#[derive(Clone, Debug, PartialEq, Eq)]
pub enum Abort {
    /// a task body panicked (message)
    Panic(String),
    /// work remains, nobody is enabled (blocked workers with their labels)
    Deadlock(String),
    /// more than `max_decisions` decisions: the execution does not terminate (livelock)
    Horizon,
    /// the replay prefix asked for an alternative that does not exist: machinery error
    Diverged(String),
}

#[derive(Clone, Debug, Default)]
pub struct Trace {
    pub decisions: Vec<Decision>,
    pub abort: Option<Abort>,
    /// number of parallel calls that were actually scheduled (>= min_items, not nested)
    pub par_calls: usize,
    /// largest number of tasks of one scheduled parallel call
    pub max_items: usize,
    /// number of `point` calls reached by workers
    pub points: usize,
    /// set when the replay prefix asked for an alternative that did not exist (the program under
    /// test is not a deterministic function of the schedule, e.g. hash-seeded iteration orders);
    /// the execution then continued with the default choice and is still a genuine execution
    pub diverged: Option<String>,
    /// points in the order they were passed: (worker, label, source line of the acquisition)
    pub labels: Vec<(u8, &'static str, u32)>,
}

impl Trace {
    pub fn choices(&self) -> Vec<u32> {
        self.decisions.iter().map(|d| d.chosen).collect()
    }
    pub fn preemptions(&self) -> u32 {
        self.decisions.iter().filter(|d| !d.free && d.chosen > 0).count() as u32
    }
}

struct AbortToken;

#[derive(Clone, Copy, PartialEq, Eq, Debug)]
enum WStatus {
    Fresh,
    Idle,
    Parked { label: &'static str, has_ready: bool },
    Running,
    Done,
}

#[derive(Clone, Copy, PartialEq, Eq, Debug)]
enum Baton {
    None,
    Run(usize),
    Main,
}

struct Inner {
    prefix: Vec<u32>,
    trace: Trace,
    payload: Option<Box<dyn Any + Send>>,
    // per parallel call
    remaining: Vec<usize>,
    w: Vec<WStatus>,
    /// workers found not ready since the last progress (lazy readiness, see `point`)
    blocked: Vec<bool>,
    baton: Baton,
}

struct Exec {
    cfg: Config,
    m: Mutex<Inner>,
    cv: Condvar,
}

#[derive(Clone)]
struct Ctx {
    exec: Arc<Exec>,
    worker: Option<usize>,
}

thread_local! {
    static CUR: RefCell<Option<Ctx>> = const { RefCell::new(None) };
}

fn cur() -> Option<Ctx> {
    CUR.with(|c| c.borrow().clone())
}

pub(crate) fn reported_num_threads() -> usize {
    1
}

impl Exec {
    fn lock(&self) -> MutexGuard<'_, Inner> {
        self.m.lock().unwrap_or_else(|e| e.into_inner())
    }

    fn wait<'a>(&self, g: MutexGuard<'a, Inner>) -> MutexGuard<'a, Inner> {
        // generous timeout only to re-check conditions; correctness never depends on it
        let (g, _) = self
            .cv
            .wait_timeout(g, Duration::from_millis(200))
            .unwrap_or_else(|e| e.into_inner());
        g
    }

    fn choose(&self, g: &mut Inner, n: usize, free: bool, kind: Kind) -> usize {
        let pos = g.trace.decisions.len();
        let mut c = 0u32;
        if pos < g.prefix.len() {
            c = g.prefix[pos];
            if c as usize >= n {
                if g.trace.diverged.is_none() {
                    g.trace.diverged = Some(format!("decision {pos}: prefix wants alternative {c} of {n}"));
                }
                // forget the rest of the prefix: from here on the default schedule
                g.prefix.truncate(pos);
                c = 0;
            }
        }
        g.trace.decisions.push(Decision { alts: n as u32, chosen: c, free, kind });
        c as usize
    }

    /// Called (with the lock held) by whoever gives up control.  Sets `baton`.
    ///
    /// Readiness is evaluated lazily: a parked worker is offered as a candidate without asking
    /// it; when it receives the baton it evaluates its own `ready()` (the closure lives on its
    /// stack) and, if the lock it is about to take is held by a parked worker, marks itself
    /// blocked and passes the baton on by the deterministic fallback rule below (`pass_on`),
    /// without recording a decision.  Blocked marks are cleared whenever anybody makes progress.
    /// In code that never parks while holding a lock no worker is ever blocked, so this costs
    /// nothing; in code that does, some alternatives of a decision lead to the same execution
    /// (explored twice, never missed), and replay stays deterministic because readiness is a
    /// function of the schedule so far.
    fn schedule_next<'a>(&'a self, mut g: MutexGuard<'a, Inner>, me: Option<usize>) -> MutexGuard<'a, Inner> {
        loop {
            if g.trace.abort.is_some() {
                g.baton = Baton::None;
                self.cv.notify_all();
                return g;
            }
            if g.trace.decisions.len() >= self.cfg.max_decisions {
                g.trace.abort = Some(Abort::Horizon);
                continue;
            }
            let cands = self.candidates(&mut g, me);
            if cands.is_empty() {
                if let Some(d) = self.deadlock_report(&g) {
                    g.trace.abort = Some(Abort::Deadlock(d));
                    continue;
                }
                g.baton = Baton::Main;
                self.cv.notify_all();
                return g;
            }
            let me_enabled = match me {
                Some(m) => cands[0] == m && (self.cfg.count_task_switches || matches!(g.w[m], WStatus::Parked { .. })),
                None => false,
            };
            let k = self.choose(&mut g, cands.len(), !me_enabled, Kind::Worker);
            if g.trace.abort.is_some() {
                continue;
            }
            g.baton = Baton::Run(cands[k]);
            self.cv.notify_all();
            return g;
        }
    }

    /// enabled workers in canonical order: `me` first if still enabled, then ascending ids
    fn candidates(&self, g: &mut Inner, me: Option<usize>) -> Vec<usize> {
        let nw = g.w.len();
        if g.remaining.is_empty() {
            for x in 0..nw {
                if matches!(g.w[x], WStatus::Idle | WStatus::Fresh) {
                    g.w[x] = WStatus::Done;
                }
            }
        }
        let mut cands: Vec<usize> = Vec::with_capacity(nw);
        let mut fresh_seen = false;
        for x in 0..nw {
            match g.w[x] {
                WStatus::Parked { .. } => {
                    if !g.blocked[x] {
                        cands.push(x)
                    }
                }
                WStatus::Idle => {
                    if !g.remaining.is_empty() {
                        cands.push(x)
                    }
                }
                WStatus::Fresh => {
                    // fresh workers are interchangeable: only the lowest id is enabled
                    if !g.remaining.is_empty() && !fresh_seen {
                        fresh_seen = true;
                        cands.push(x)
                    }
                }
                WStatus::Running | WStatus::Done => {}
            }
        }
        if let Some(m) = me {
            if let Some(pos) = cands.iter().position(|&x| x == m) {
                cands.remove(pos);
                cands.insert(0, m);
            }
        }
        cands
    }

    fn deadlock_report(&self, g: &Inner) -> Option<String> {
        let blocked: Vec<(usize, &'static str)> = g
            .w
            .iter()
            .enumerate()
            .filter_map(|(x, s)| match s {
                WStatus::Parked { label, .. } => Some((x, *label)),
                _ => None,
            })
            .collect();
        if blocked.is_empty() {
            None
        } else {
            Some(format!("blocked: {blocked:?}"))
        }
    }

    /// `id` received the baton but the lock it wants is held: mark it blocked and pass the baton
    /// to the next non-blocked candidate after it (cyclically by id); no decision is recorded.
    fn pass_on<'a>(&'a self, mut g: MutexGuard<'a, Inner>, id: usize) -> MutexGuard<'a, Inner> {
        g.blocked[id] = true;
        let cands = self.candidates(&mut g, None);
        if cands.is_empty() {
            let d = self.deadlock_report(&g).unwrap_or_default();
            g.trace.abort = Some(Abort::Deadlock(d));
            g.baton = Baton::None;
        } else {
            let next = cands.iter().copied().find(|&x| x > id).unwrap_or(cands[0]);
            g.baton = Baton::Run(next);
        }
        self.cv.notify_all();
        g
    }

    fn progress(&self, g: &mut Inner) {
        for b in g.blocked.iter_mut() {
            *b = false;
        }
    }

    /// Waits until this worker holds the baton (and, at a point, until the lock it wants is
    /// free).  Returns `None` when the worker has to stop (retired, or the execution aborted).
    fn wait_for_turn<'a>(
        &'a self,
        mut g: MutexGuard<'a, Inner>,
        id: usize,
        ready: Option<&dyn Fn() -> bool>,
    ) -> Option<MutexGuard<'a, Inner>> {
        loop {
            if g.trace.abort.is_some() || g.w[id] == WStatus::Done {
                return None;
            }
            if g.baton == Baton::Run(id) {
                if ready.map(|r| r()).unwrap_or(true) {
                    return Some(g);
                }
                g = self.pass_on(g, id);
                continue;
            }
            g = self.wait(g);
        }
    }
}

/// Scheduling point.  Called by the library hooks (through `yui::verif::point`) immediately
/// before a lock acquisition; `ready` says whether that acquisition would succeed right now.
pub fn point(label: &'static str, ready: Option<&dyn Fn() -> bool>) {
    point_at(label, 0, ready)
}

/// Same, with the source line of the acquisition (for readable traces).
pub fn point_at(label: &'static str, line: u32, ready: Option<&dyn Fn() -> bool>) {
    let Some(ctx) = cur() else { return };
    let Some(id) = ctx.worker else { return };
    let exec = &*ctx.exec;
    let mut g = exec.lock();
    if g.trace.abort.is_some() {
        drop(g);
        resume_unwind(Box::new(AbortToken));
    }
    g.trace.points += 1;
    g.w[id] = WStatus::Parked { label, has_ready: ready.is_some() };
    let g = exec.schedule_next(g, Some(id));
    match exec.wait_for_turn(g, id, ready) {
        Some(mut g) => {
            g.w[id] = WStatus::Running;
            exec.progress(&mut g);
            if g.trace.labels.len() < 4096 {
                g.trace.labels.push((id as u8, label, line));
            }
        }
        None => resume_unwind(Box::new(AbortToken)),
    };
}

fn panic_message(p: &(dyn Any + Send)) -> String {
    if let Some(s) = p.downcast_ref::<&str>() {
        s.to_string()
    } else if let Some(s) = p.downcast_ref::<String>() {
        s.clone()
    } else {
        "<non-string panic payload>".to_string()
    }
}

fn worker_main(exec: &Exec, id: usize, body: &(dyn Fn(usize) + Sync)) {
    let r = catch_unwind(AssertUnwindSafe(|| loop {
        let g = exec.lock();
        let Some(mut g) = exec.wait_for_turn(g, id, None) else { return };
        // take an item
        let k = if exec.cfg.choose_items && g.remaining.len() > 1 {
            let n = g.remaining.len();
            // with deviation counting, taking another item than the next one is a deviation too
            exec.choose(&mut g, n, !exec.cfg.count_task_switches, Kind::Item)
        } else {
            0
        };
        if g.trace.abort.is_some() {
            return;
        }
        let item = g.remaining.remove(k);
        g.w[id] = WStatus::Running;
        drop(g);

        body(item);

        let mut g = exec.lock();
        g.w[id] = WStatus::Idle;
        exec.progress(&mut g);
        drop(exec.schedule_next(g, Some(id)));
    }));
    let mut g = exec.lock();
    if let Err(p) = r {
        if !p.is::<AbortToken>() && g.payload.is_none() {
            if g.trace.abort.is_none() {
                g.trace.abort = Some(Abort::Panic(panic_message(&*p)));
            }
            g.payload = Some(p);
        }
    }
    g.w[id] = WStatus::Done;
    exec.progress(&mut g);
    if g.trace.abort.is_some() {
        g.baton = Baton::None;
    }
    exec.cv.notify_all();
}

// ---- persistent worker pool ----------------------------------------------------------------
// One pool per calling (shard) thread, created on first use and kept until that thread exits.
// Persistent workers (a) make an execution cost a few context switches instead of W thread
// creations (thread creation/teardown serialises on the process-wide mmap lock and triggers TLB
// shoot-downs, which made 16 concurrent explorers slower than one), and (b) behave like rayon's
// pool: the same OS threads serve consecutive parallel calls, so thread-local state left behind
// by one call is visible to the next.

struct Job {
    exec: Arc<Exec>,
    id: usize,
    body: &'static (dyn Fn(usize) + Sync),
}

struct Pool {
    workers: Vec<std::sync::mpsc::Sender<Job>>,
    done_tx: std::sync::mpsc::Sender<()>,
    done_rx: std::sync::mpsc::Receiver<()>,
}

thread_local! {
    static POOL: RefCell<Option<Pool>> = const { RefCell::new(None) };
}

fn pool_run(exec: &Arc<Exec>, nw: usize, body: &(dyn Fn(usize) + Sync)) {
    // SAFETY: the reference is only used by the pool workers while they execute this call's
    // jobs; `pool_run` does not return before every one of the `nw` jobs has reported
    // completion through `done_rx` (workers send only after `worker_main` has returned and
    // dropped the job), so the erased lifetime never outlives the real borrow.
    #[allow(unsafe_code)]
    let body_static: &'static (dyn Fn(usize) + Sync) = unsafe { std::mem::transmute(body) };
    POOL.with(|p| {
        let mut p = p.borrow_mut();
        let pool = p.get_or_insert_with(|| {
            let (done_tx, done_rx) = std::sync::mpsc::channel();
            Pool { workers: vec![], done_tx, done_rx }
        });
        while pool.workers.len() < nw {
            let id = pool.workers.len();
            let (tx, rx) = std::sync::mpsc::channel::<Job>();
            let done = pool.done_tx.clone();
            std::thread::Builder::new()
                .name(format!("vworker-{id}"))
                .spawn(move || {
                    while let Ok(job) = rx.recv() {
                        let Job { exec, id, body } = job;
                        CUR.with(|c| *c.borrow_mut() = Some(Ctx { exec: exec.clone(), worker: Some(id) }));
                        worker_main(&exec, id, body);
                        CUR.with(|c| *c.borrow_mut() = None);
                        drop(exec);
                        if done.send(()).is_err() {
                            break;
                        }
                    }
                })
                .expect("spawn pool worker");
            pool.workers.push(tx);
        }
        for id in 0..nw {
            pool.workers[id].send(Job { exec: exec.clone(), id, body: body_static }).expect("pool worker gone");
        }
        {
            let g = exec.lock();
            drop(exec.schedule_next(g, None));
        }
        for _ in 0..nw {
            pool.done_rx.recv().expect("pool worker gone");
        }
    });
}

/// Entry point of every parallel terminal.
pub fn run(n: usize, body: &(dyn Fn(usize) + Sync)) {
    if n == 0 {
        return;
    }
    let ctx = cur();
    let exec = match &ctx {
        Some(c) if c.worker.is_none() && n >= c.exec.cfg.min_items => c.exec.clone(),
        _ => {
            for i in 0..n {
                body(i);
            }
            return;
        }
    };
    let nw = exec.cfg.workers.min(n).max(1);
    {
        let mut g = exec.lock();
        if g.trace.abort.is_some() {
            drop(g);
            resume_unwind(Box::new(AbortToken));
        }
        g.trace.par_calls += 1;
        g.trace.max_items = g.trace.max_items.max(n);
        g.remaining = (0..n).collect();
        g.w = vec![WStatus::Fresh; nw];
        g.blocked = vec![false; nw];
        g.baton = Baton::None;
    }
    pool_run(&exec, nw, body);
    let mut g = exec.lock();
    g.w.clear();
    g.remaining.clear();
    if let Some(p) = g.payload.take() {
        drop(g);
        resume_unwind(p);
    }
    if g.trace.abort.is_some() {
        drop(g);
        resume_unwind(Box::new(AbortToken));
    }
}

/// Runs `f` once on the current thread under the scheduler, following `prefix` and then the
/// default choice.  Returns `f`'s result (Err = it unwound) and the recorded trace.
pub fn run_scheduled<T>(cfg: &Config, prefix: &[u32], f: impl FnOnce() -> T) -> (std::thread::Result<T>, Trace) {
    let exec = Arc::new(Exec {
        cfg: cfg.clone(),
        m: Mutex::new(Inner {
            prefix: prefix.to_vec(),
            trace: Trace::default(),
            payload: None,
            remaining: vec![],
            w: vec![],
            blocked: vec![],
            baton: Baton::None,
        }),
        cv: Condvar::new(),
    });
    let prev = CUR.with(|c| c.borrow_mut().replace(Ctx { exec: exec.clone(), worker: None }));
    let r = catch_unwind(AssertUnwindSafe(f));
    CUR.with(|c| *c.borrow_mut() = prev);
    let mut g = exec.lock();
    let trace = std::mem::take(&mut g.trace);
    drop(g);
    let r = match r {
        Err(p) if p.is::<AbortToken>() => Err(Box::new("aborted by scheduler") as Box<dyn Any + Send>),
        other => other,
    };
    (r, trace)
}

#[derive(Clone, Debug, Default)]
pub struct ExploreStats {
    pub executions: u64,
    pub max_decisions: usize,
    pub max_preemptions: u32,
    /// true iff no branch was cut by `max_executions` (the preemption bound is reported separately)
    pub complete: bool,
    /// true iff some alternative was skipped because of the preemption bound
    pub bound_cut: bool,
    pub par_calls: u64,
    pub points: u64,
}

/// Depth-first enumeration of all choice sequences with at most `bound` preemptions
/// (`None` = unbounded).  `on_exec(result, trace)` is called for every complete execution and
/// returns `false` to stop the search.
pub fn explore<T>(
    cfg: &Config,
    bound: Option<u32>,
    max_executions: u64,
    f: impl FnMut() -> T,
    on_exec: impl FnMut(std::thread::Result<T>, &Trace) -> bool,
) -> ExploreStats {
    explore_from(cfg, bound, max_executions, 0, f, on_exec)
}

/// Like `explore`, but only decisions with index >= `branch_from` may deviate from the default
/// choice (the first `branch_from` decisions of every execution are the default ones).  For
/// executions with tens of thousands of decisions of which only a tail window is of interest; the
/// enumeration is complete *within the window* below the bound, and says nothing about deviations
/// before it.
pub fn explore_from<T>(
    cfg: &Config,
    bound: Option<u32>,
    max_executions: u64,
    branch_from: usize,
    mut f: impl FnMut() -> T,
    mut on_exec: impl FnMut(std::thread::Result<T>, &Trace) -> bool,
) -> ExploreStats {
    let mut st = ExploreStats { complete: true, ..Default::default() };
    let mut stack: Vec<Vec<u32>> = vec![vec![]];
    while let Some(prefix) = stack.pop() {
        if st.executions >= max_executions {
            st.complete = false;
            break;
        }
        let (r, tr) = run_scheduled(cfg, &prefix, &mut f);
        st.executions += 1;
        st.max_decisions = st.max_decisions.max(tr.decisions.len());
        st.max_preemptions = st.max_preemptions.max(tr.preemptions());
        st.par_calls += tr.par_calls as u64;
        st.points += tr.points as u64;
        // children
        let mut cost = 0u32;
        let mut children: Vec<Vec<u32>> = vec![];
        for (i, d) in tr.decisions.iter().enumerate() {
            if i >= prefix.len() && i >= branch_from {
                for alt in 1..d.alts {
                    let c = cost + if d.free { 0 } else { 1 };
                    if let Some(b) = bound {
                        if c > b {
                            st.bound_cut = true;
                            continue;
                        }
                    }
                    let mut p: Vec<u32> = tr.decisions[..i].iter().map(|d| d.chosen).collect();
                    p.push(alt);
                    children.push(p);
                }
            }
            if !d.free && d.chosen > 0 {
                cost += 1;
            }
        }
        // DFS order: explore lowest position first
        children.reverse();
        stack.extend(children);
        if !on_exec(r, &tr) {
            st.complete = false;
            break;
        }
    }
    st
}

#[cfg(test)]
mod tests {
    use super::*;
    use crate::prelude::*;
    use std::sync::RwLock;

    // classic lost update: read under a read lock, write back under a write lock
    fn lost_update(n: usize) -> usize {
        let x = RwLock::new(0usize);
        (0..n).into_par_iter().for_each(|_| {
            point("read", Some(&|| x.try_read().is_ok()));
            let v = *x.read().unwrap();
            point("write", Some(&|| x.try_write().is_ok()));
            *x.write().unwrap() = v + 1;
        });
        x.into_inner().unwrap()
    }

    #[test]
    fn sequential_default() {
        assert_eq!(lost_update(3), 3);
        let v: Vec<usize> = (0..5).into_par_iter().map(|i| i * i).collect();
        assert_eq!(v, vec![0, 1, 4, 9, 16]);
        let w: Vec<usize> = (0..3).into_par_iter().flat_map(|i| vec![i; i]).collect();
        assert_eq!(w, vec![1, 2, 2]);
    }

    #[test]
    fn finds_lost_update_with_one_preemption() {
        let cfg = Config::default();
        let mut outcomes = std::collections::BTreeSet::new();
        let st0 = explore(&cfg, Some(0), 1 << 20, || lost_update(2), |r, _| {
            outcomes.insert(r.unwrap());
            true
        });
        assert!(st0.complete);
        assert_eq!(outcomes.iter().copied().collect::<Vec<_>>(), vec![2]);
        let st1 = explore(&cfg, Some(1), 1 << 20, || lost_update(2), |r, _| {
            outcomes.insert(r.unwrap());
            true
        });
        assert!(st1.complete && st1.executions > st0.executions);
        assert_eq!(outcomes.iter().copied().collect::<Vec<_>>(), vec![1, 2]);
    }

    #[test]
    fn replay_is_deterministic() {
        let cfg = Config { workers: 3, choose_items: true, ..Default::default() };
        let mut traces = vec![];
        explore(&cfg, Some(2), 200, || lost_update(3), |r, t| {
            traces.push((r.unwrap(), t.choices()));
            true
        });
        for (out, ch) in traces {
            let (r, t) = run_scheduled(&cfg, &ch, || lost_update(3));
            assert_eq!(r.unwrap(), out);
            assert_eq!(t.choices(), ch);
            assert!(t.abort.is_none());
        }
    }

    #[test]
    fn panic_in_body_is_reported_and_does_not_hang() {
        let cfg = Config::default();
        let mut panics = 0;
        let st = explore(
            &cfg,
            None,
            1 << 20,
            || {
                let x = RwLock::new(0usize);
                (0..2usize).into_par_iter().for_each(|i| {
                    point("a", None);
                    let mut g = x.write().unwrap();
                    *g += 1;
                    if *g == 2 && i == 0 {
                        panic!("boom");
                    }
                });
            },
            |r, t| {
                if r.is_err() {
                    panics += 1;
                    assert!(matches!(t.abort, Some(Abort::Panic(_))));
                }
                true
            },
        );
        assert!(st.complete && panics > 0 && (panics as u64) < st.executions);
    }

    #[test]
    fn deadlock_is_detected() {
        // worker parks while holding a lock that the other one needs at its point, and vice versa
        let cfg = Config::default();
        let mut deadlocks = 0;
        explore(
            &cfg,
            None,
            1 << 20,
            || {
                let a = Mutex::new(());
                let b = Mutex::new(());
                (0..2usize).into_par_iter().for_each(|i| {
                    let (p, q) = if i == 0 { (&a, &b) } else { (&b, &a) };
                    point("first", Some(&|| p.try_lock().is_ok()));
                    let _g1 = p.lock().unwrap();
                    point("second", Some(&|| q.try_lock().is_ok()));
                    let _g2 = q.lock().unwrap();
                });
            },
            |r, t| {
                if let Some(Abort::Deadlock(_)) = t.abort {
                    assert!(r.is_err());
                    deadlocks += 1;
                }
                true
            },
        );
        assert!(deadlocks > 0);
    }

    #[test]
    fn livelock_hits_horizon() {
        let cfg = Config { max_decisions: 200, ..Default::default() };
        let (r, t) = run_scheduled(&cfg, &[], || {
            (0..2usize).into_par_iter().for_each(|_| loop {
                point("spin", None);
            });
        });
        assert!(r.is_err());
        assert_eq!(t.abort, Some(Abort::Horizon));
    }
}

#[cfg(test)]
mod api_tests {
    use crate::iter::min_len_leaves;
    use crate::prelude::*;

    #[test]
    fn min_len_splitting() {
        assert_eq!(min_len_leaves(16, 8), vec![0..8, 8..16]);
        assert_eq!(min_len_leaves(15, 8), vec![0..15]);
        assert_eq!(min_len_leaves(32, 8).len(), 4);
        assert_eq!(min_len_leaves(5, 1).len(), 5);
        let v: Vec<usize> = (0..20usize).into_par_iter().with_min_len(8).map(|i| i * 2).collect();
        assert_eq!(v, (0..20).map(|i| i * 2).collect::<Vec<_>>());
        let w: Vec<(usize, usize)> = vec![5usize, 6, 7].into_par_iter().enumerate().filter(|(i, _)| i % 2 == 0).collect();
        assert_eq!(w, vec![(0, 5), (2, 7)]);
        assert_eq!((0..10usize).into_par_iter().filter_map(|i| if i % 3 == 0 { Some(i) } else { None }).sum::<usize>(), 18);
        assert!((0..10usize).into_par_iter().any(|i| i == 7) && !(0..10usize).into_par_iter().all(|i| i < 9));
        assert_eq!([1, 2, 3].par_iter().cloned().reduce(|| 0, |a, b| a + b), 6);
    }
}
