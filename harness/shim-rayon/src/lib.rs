//! Model-checkable stand-in for `rayon` (verification harness only, DESIGN.md §3.1).
//!
//! It implements exactly the surface used by the `yui` workspace and by `sprs`:
//! `into_par_iter` on `Range<usize>` / `Vec<T>`, `par_iter` / `par_iter_mut` on slices and `Vec`,
//! the adaptors `map`, `flat_map`, `zip`, and the terminals `for_each` and `collect`.
//!
//! Adaptors are stored unevaluated, so the closure that runs per item is the *unmodified* closure
//! written in the library.  Every terminal hands its items to [`verif::run`], which
//!  * runs them in index order on the calling thread when no explorer is installed
//!    (a legal one-thread rayon schedule; deterministic), and
//!  * runs them on `W` real OS threads under a cooperative, fully controlled scheduler when an
//!    explorer is installed on the calling thread (see [`verif`]).
#![deny(unsafe_code)] // one audited exception: lifetime erasure for the persistent worker pool (verif.rs)

pub mod iter;
pub mod verif;

pub mod prelude {
    pub use crate::iter::{
        FromParallelIterator, IndexedParallelIterator, IntoParallelIterator,
        IntoParallelRefIterator, IntoParallelRefMutIterator, ParallelIterator,
    };
}

/// rayon API used by some callers to size chunks (sprs).  The stand-in reports one thread.
pub fn current_num_threads() -> usize {
    verif::reported_num_threads()
}
