//! Parallel-iterator surface.  Everything bottoms out in `verif::run(n, &|idx| ..)`.

use std::ops::Range;
use std::sync::Mutex;

use crate::verif;

/// Random-access source of the items of an indexed parallel iterator.
pub trait Producer: Sync {
    type Item: Send;
    fn len(&self) -> usize;
    /// Called exactly once per index (possibly from different threads).
    fn take(&self, idx: usize) -> Self::Item;
}

pub trait ParallelIterator: Sized + Send {
    type Item: Send;

    /// Number of *tasks* (scheduling units) this iterator is split into.
    fn ntasks(&self) -> usize;

    /// Runs every task under the scheduler; `sink(task, item)` is called on the thread that
    /// runs the task, once per produced item, in production order within the task.
    fn drive<C>(self, sink: C)
    where
        C: Fn(usize, Self::Item) + Sync;

    fn for_each<F>(self, f: F)
    where
        F: Fn(Self::Item) + Sync + Send,
    {
        self.drive(|_, x| f(x));
    }

    fn map<F, R>(self, f: F) -> Map<Self, F>
    where
        F: Fn(Self::Item) -> R + Sync + Send,
        R: Send,
    {
        Map { base: self, f }
    }

    fn flat_map<F, PI>(self, f: F) -> FlatMap<Self, F>
    where
        F: Fn(Self::Item) -> PI + Sync + Send,
        PI: IntoParallelIterator,
    {
        FlatMap { base: self, f }
    }

    fn collect<C>(self) -> C
    where
        C: FromParallelIterator<Self::Item>,
    {
        C::from_par_iter(self)
    }

    fn filter<F>(self, f: F) -> Filter<Self, F>
    where
        F: Fn(&Self::Item) -> bool + Sync + Send,
    {
        Filter { base: self, f }
    }

    fn filter_map<F, R>(self, f: F) -> FilterMap<Self, F>
    where
        F: Fn(Self::Item) -> Option<R> + Sync + Send,
        R: Send,
    {
        FilterMap { base: self, f }
    }

    fn cloned<'a, T>(self) -> Map<Self, fn(&'a T) -> T>
    where
        T: 'a + Clone + Send + Sync,
        Self: ParallelIterator<Item = &'a T>,
    {
        self.map(|x: &T| x.clone())
    }

    fn copied<'a, T>(self) -> Map<Self, fn(&'a T) -> T>
    where
        T: 'a + Copy + Send + Sync,
        Self: ParallelIterator<Item = &'a T>,
    {
        self.map(|x: &T| *x)
    }

    fn count(self) -> usize {
        self.collect_vec_ordered().len()
    }

    fn sum<S>(self) -> S
    where
        S: Send + std::iter::Sum<Self::Item>,
    {
        self.collect_vec_ordered().into_iter().sum()
    }

    fn reduce<OP, ID>(self, identity: ID, op: OP) -> Self::Item
    where
        OP: Fn(Self::Item, Self::Item) -> Self::Item + Sync + Send,
        ID: Fn() -> Self::Item + Sync + Send,
    {
        self.collect_vec_ordered().into_iter().fold(identity(), |a, b| op(a, b))
    }

    fn any<P>(self, p: P) -> bool
    where
        P: Fn(Self::Item) -> bool + Sync + Send,
    {
        self.map(p).collect_vec_ordered().into_iter().any(|b| b)
    }

    fn all<P>(self, p: P) -> bool
    where
        P: Fn(Self::Item) -> bool + Sync + Send,
    {
        self.map(p).collect_vec_ordered().into_iter().all(|b| b)
    }

    fn find_any<P>(self, p: P) -> Option<Self::Item>
    where
        P: Fn(&Self::Item) -> bool + Sync + Send,
    {
        self.filter(p).collect_vec_ordered().into_iter().next()
    }

    fn max(self) -> Option<Self::Item>
    where
        Self::Item: Ord,
    {
        self.collect_vec_ordered().into_iter().max()
    }

    fn min(self) -> Option<Self::Item>
    where
        Self::Item: Ord,
    {
        self.collect_vec_ordered().into_iter().min()
    }

    /// Items in task order (order preserving, like rayon's indexed collect).
    fn collect_vec_ordered(self) -> Vec<Self::Item> {
        let n = self.ntasks();
        let buckets: Vec<Mutex<Vec<Self::Item>>> = (0..n).map(|_| Mutex::new(Vec::new())).collect();
        self.drive(|t, x| buckets[t].lock().unwrap_or_else(|e| e.into_inner()).push(x));
        buckets
            .into_iter()
            .flat_map(|b| b.into_inner().unwrap_or_else(|e| e.into_inner()))
            .collect()
    }
}

pub trait IndexedParallelIterator: ParallelIterator {
    type Prod: Producer<Item = Self::Item>;
    fn into_producer(self) -> Self::Prod;

    fn zip<Z>(self, other: Z) -> Zip<Self, Z::Iter>
    where
        Z: IntoParallelIterator,
        Z::Iter: IndexedParallelIterator,
    {
        Zip { a: self, b: other.into_par_iter() }
    }

    fn enumerate(self) -> Enumerate<Self> {
        Enumerate { base: self }
    }

    /// rayon: never split below `min` items per sequential job.  Modelled as rayon does it: the
    /// index range is halved while both halves keep at least `min` items; every leaf is ONE task
    /// whose items run in order on one worker.
    fn with_min_len(self, min: usize) -> WithMinLen<Self> {
        WithMinLen { base: self, min: min.max(1) }
    }

    /// rayon: upper bound on the job length; the stand-in already uses the finest splitting.
    fn with_max_len(self, _max: usize) -> Self {
        self
    }
}

pub trait FromParallelIterator<T: Send> {
    fn from_par_iter<P: ParallelIterator<Item = T>>(p: P) -> Self;
}

impl<T: Send, C: FromIterator<T>> FromParallelIterator<T> for C {
    fn from_par_iter<P: ParallelIterator<Item = T>>(p: P) -> Self {
        p.collect_vec_ordered().into_iter().collect()
    }
}

pub trait IntoParallelIterator {
    type Iter: ParallelIterator<Item = Self::Item>;
    type Item: Send;
    fn into_par_iter(self) -> Self::Iter;
}

impl<P: ParallelIterator> IntoParallelIterator for P {
    type Iter = P;
    type Item = P::Item;
    fn into_par_iter(self) -> P {
        self
    }
}

pub trait IntoParallelRefIterator<'a> {
    type Iter: ParallelIterator<Item = Self::Item>;
    type Item: Send + 'a;
    fn par_iter(&'a self) -> Self::Iter;
}

pub trait IntoParallelRefMutIterator<'a> {
    type Iter: ParallelIterator<Item = Self::Item>;
    type Item: Send + 'a;
    fn par_iter_mut(&'a mut self) -> Self::Iter;
}

fn drive_producer<P, C>(p: P, sink: C)
where
    P: Producer,
    C: Fn(usize, P::Item) + Sync,
{
    let n = p.len();
    verif::run(n, &|idx| sink(idx, p.take(idx)));
}

macro_rules! indexed_base {
    () => {
        fn ntasks(&self) -> usize {
            Producer::len(self)
        }
        fn drive<C>(self, sink: C)
        where
            C: Fn(usize, Self::Item) + Sync,
        {
            drive_producer(self, sink)
        }
    };
}

// ---- Range<usize> ------------------------------------------------------------------------

pub struct RangeIter {
    start: usize,
    len: usize,
}

impl Producer for RangeIter {
    type Item = usize;
    fn len(&self) -> usize {
        self.len
    }
    fn take(&self, idx: usize) -> usize {
        self.start + idx
    }
}

impl ParallelIterator for RangeIter {
    type Item = usize;
    indexed_base!();
}

impl IndexedParallelIterator for RangeIter {
    type Prod = Self;
    fn into_producer(self) -> Self {
        self
    }
}

impl IntoParallelIterator for Range<usize> {
    type Iter = RangeIter;
    type Item = usize;
    fn into_par_iter(self) -> RangeIter {
        RangeIter { start: self.start, len: self.end.saturating_sub(self.start) }
    }
}

// ---- Vec<T> ------------------------------------------------------------------------------

pub struct VecIter<T: Send> {
    items: Vec<Mutex<Option<T>>>,
}

impl<T: Send> Producer for VecIter<T> {
    type Item = T;
    fn len(&self) -> usize {
        self.items.len()
    }
    fn take(&self, idx: usize) -> T {
        self.items[idx]
            .lock()
            .unwrap_or_else(|e| e.into_inner())
            .take()
            .expect("shim-rayon: item taken twice")
    }
}

impl<T: Send> ParallelIterator for VecIter<T> {
    type Item = T;
    indexed_base!();
}

impl<T: Send> IndexedParallelIterator for VecIter<T> {
    type Prod = Self;
    fn into_producer(self) -> Self {
        self
    }
}

impl<T: Send> IntoParallelIterator for Vec<T> {
    type Iter = VecIter<T>;
    type Item = T;
    fn into_par_iter(self) -> VecIter<T> {
        VecIter { items: self.into_iter().map(|x| Mutex::new(Some(x))).collect() }
    }
}

// ---- &[T] / &Vec<T> ----------------------------------------------------------------------

pub struct SliceIter<'a, T: Sync> {
    slice: &'a [T],
}

impl<'a, T: Sync> Producer for SliceIter<'a, T> {
    type Item = &'a T;
    fn len(&self) -> usize {
        self.slice.len()
    }
    fn take(&self, idx: usize) -> &'a T {
        &self.slice[idx]
    }
}

impl<'a, T: Sync> ParallelIterator for SliceIter<'a, T> {
    type Item = &'a T;
    indexed_base!();
}

impl<'a, T: Sync> IndexedParallelIterator for SliceIter<'a, T> {
    type Prod = Self;
    fn into_producer(self) -> Self {
        self
    }
}

impl<'a, T: Sync + 'a> IntoParallelRefIterator<'a> for [T] {
    type Iter = SliceIter<'a, T>;
    type Item = &'a T;
    fn par_iter(&'a self) -> SliceIter<'a, T> {
        SliceIter { slice: self }
    }
}

impl<'a, T: Sync + 'a> IntoParallelRefIterator<'a> for Vec<T> {
    type Iter = SliceIter<'a, T>;
    type Item = &'a T;
    fn par_iter(&'a self) -> SliceIter<'a, T> {
        SliceIter { slice: self.as_slice() }
    }
}

impl<'a, T: Sync + 'a> IntoParallelIterator for &'a [T] {
    type Iter = SliceIter<'a, T>;
    type Item = &'a T;
    fn into_par_iter(self) -> SliceIter<'a, T> {
        SliceIter { slice: self }
    }
}

impl<'a, T: Sync + 'a> IntoParallelIterator for &'a Vec<T> {
    type Iter = SliceIter<'a, T>;
    type Item = &'a T;
    fn into_par_iter(self) -> SliceIter<'a, T> {
        SliceIter { slice: self.as_slice() }
    }
}

// ---- &mut [T] / &mut Vec<T> --------------------------------------------------------------

pub struct SliceIterMut<'a, T: Send> {
    items: Vec<Mutex<Option<&'a mut T>>>,
}

impl<'a, T: Send> Producer for SliceIterMut<'a, T> {
    type Item = &'a mut T;
    fn len(&self) -> usize {
        self.items.len()
    }
    fn take(&self, idx: usize) -> &'a mut T {
        self.items[idx]
            .lock()
            .unwrap_or_else(|e| e.into_inner())
            .take()
            .expect("shim-rayon: item taken twice")
    }
}

impl<'a, T: Send> ParallelIterator for SliceIterMut<'a, T> {
    type Item = &'a mut T;
    indexed_base!();
}

impl<'a, T: Send> IndexedParallelIterator for SliceIterMut<'a, T> {
    type Prod = Self;
    fn into_producer(self) -> Self {
        self
    }
}

impl<'a, T: Send + 'a> IntoParallelRefMutIterator<'a> for [T] {
    type Iter = SliceIterMut<'a, T>;
    type Item = &'a mut T;
    fn par_iter_mut(&'a mut self) -> SliceIterMut<'a, T> {
        SliceIterMut { items: self.iter_mut().map(|x| Mutex::new(Some(x))).collect() }
    }
}

impl<'a, T: Send + 'a> IntoParallelRefMutIterator<'a> for Vec<T> {
    type Iter = SliceIterMut<'a, T>;
    type Item = &'a mut T;
    fn par_iter_mut(&'a mut self) -> SliceIterMut<'a, T> {
        SliceIterMut { items: self.iter_mut().map(|x| Mutex::new(Some(x))).collect() }
    }
}

// ---- adaptors ----------------------------------------------------------------------------

pub struct Map<P, F> {
    base: P,
    f: F,
}

impl<P, F, R> ParallelIterator for Map<P, F>
where
    P: ParallelIterator,
    F: Fn(P::Item) -> R + Sync + Send,
    R: Send,
{
    type Item = R;
    fn ntasks(&self) -> usize {
        self.base.ntasks()
    }
    fn drive<C>(self, sink: C)
    where
        C: Fn(usize, R) + Sync,
    {
        let f = self.f;
        self.base.drive(|t, x| sink(t, f(x)));
    }
}

pub struct MapProducer<P, F> {
    base: P,
    f: F,
}

impl<P, F, R> Producer for MapProducer<P, F>
where
    P: Producer,
    F: Fn(P::Item) -> R + Sync + Send,
    R: Send,
{
    type Item = R;
    fn len(&self) -> usize {
        self.base.len()
    }
    fn take(&self, idx: usize) -> R {
        (self.f)(self.base.take(idx))
    }
}

impl<P, F, R> IndexedParallelIterator for Map<P, F>
where
    P: IndexedParallelIterator,
    F: Fn(P::Item) -> R + Sync + Send,
    R: Send,
{
    type Prod = MapProducer<P::Prod, F>;
    fn into_producer(self) -> Self::Prod {
        MapProducer { base: self.base.into_producer(), f: self.f }
    }
}

pub struct FlatMap<P, F> {
    base: P,
    f: F,
}

impl<P, F, PI> ParallelIterator for FlatMap<P, F>
where
    P: ParallelIterator,
    F: Fn(P::Item) -> PI + Sync + Send,
    PI: IntoParallelIterator,
{
    type Item = PI::Item;
    fn ntasks(&self) -> usize {
        self.base.ntasks()
    }
    fn drive<C>(self, sink: C)
    where
        C: Fn(usize, PI::Item) + Sync,
    {
        let f = self.f;
        // the inner iterator is driven from inside an outer task => verif::run executes it
        // inline (nested), in order; its items are attributed to the outer task.
        self.base.drive(|t, x| {
            let inner = f(x).into_par_iter().collect_vec_ordered();
            for y in inner {
                sink(t, y);
            }
        });
    }
}

pub struct Zip<A, B> {
    a: A,
    b: B,
}

pub struct ZipProducer<A, B> {
    a: A,
    b: B,
}

impl<A: Producer, B: Producer> Producer for ZipProducer<A, B> {
    type Item = (A::Item, B::Item);
    fn len(&self) -> usize {
        self.a.len().min(self.b.len())
    }
    fn take(&self, idx: usize) -> Self::Item {
        (self.a.take(idx), self.b.take(idx))
    }
}

impl<A, B> ParallelIterator for Zip<A, B>
where
    A: IndexedParallelIterator,
    B: IndexedParallelIterator,
{
    type Item = (A::Item, B::Item);
    fn ntasks(&self) -> usize {
        self.a.ntasks().min(self.b.ntasks())
    }
    fn drive<C>(self, sink: C)
    where
        C: Fn(usize, Self::Item) + Sync,
    {
        drive_producer(self.into_producer(), sink)
    }
}

impl<A, B> IndexedParallelIterator for Zip<A, B>
where
    A: IndexedParallelIterator,
    B: IndexedParallelIterator,
{
    type Prod = ZipProducer<A::Prod, B::Prod>;
    fn into_producer(self) -> Self::Prod {
        ZipProducer { a: self.a.into_producer(), b: self.b.into_producer() }
    }
}


pub struct Filter<P, F> {
    base: P,
    f: F,
}

impl<P, F> ParallelIterator for Filter<P, F>
where
    P: ParallelIterator,
    F: Fn(&P::Item) -> bool + Sync + Send,
{
    type Item = P::Item;
    fn ntasks(&self) -> usize {
        self.base.ntasks()
    }
    fn drive<C>(self, sink: C)
    where
        C: Fn(usize, P::Item) + Sync,
    {
        let f = self.f;
        self.base.drive(|t, x| {
            if f(&x) {
                sink(t, x)
            }
        });
    }
}

pub struct FilterMap<P, F> {
    base: P,
    f: F,
}

impl<P, F, R> ParallelIterator for FilterMap<P, F>
where
    P: ParallelIterator,
    F: Fn(P::Item) -> Option<R> + Sync + Send,
    R: Send,
{
    type Item = R;
    fn ntasks(&self) -> usize {
        self.base.ntasks()
    }
    fn drive<C>(self, sink: C)
    where
        C: Fn(usize, R) + Sync,
    {
        let f = self.f;
        self.base.drive(|t, x| {
            if let Some(y) = f(x) {
                sink(t, y)
            }
        });
    }
}

pub struct Enumerate<P> {
    base: P,
}

pub struct EnumerateProducer<P> {
    base: P,
}

impl<P: Producer> Producer for EnumerateProducer<P> {
    type Item = (usize, P::Item);
    fn len(&self) -> usize {
        self.base.len()
    }
    fn take(&self, idx: usize) -> Self::Item {
        (idx, self.base.take(idx))
    }
}

impl<P: IndexedParallelIterator> ParallelIterator for Enumerate<P> {
    type Item = (usize, P::Item);
    fn ntasks(&self) -> usize {
        self.base.ntasks()
    }
    fn drive<C>(self, sink: C)
    where
        C: Fn(usize, Self::Item) + Sync,
    {
        drive_producer(self.into_producer(), sink)
    }
}

impl<P: IndexedParallelIterator> IndexedParallelIterator for Enumerate<P> {
    type Prod = EnumerateProducer<P::Prod>;
    fn into_producer(self) -> Self::Prod {
        EnumerateProducer { base: self.base.into_producer() }
    }
}

pub struct WithMinLen<P> {
    base: P,
    min: usize,
}

/// leaves of rayon's halving split of 0..len with a minimum leaf length
pub fn min_len_leaves(len: usize, min: usize) -> Vec<std::ops::Range<usize>> {
    fn rec(lo: usize, hi: usize, min: usize, out: &mut Vec<std::ops::Range<usize>>) {
        let len = hi - lo;
        let mid = len / 2;
        if mid >= min && len - mid >= min {
            rec(lo, lo + mid, min, out);
            rec(lo + mid, hi, min, out);
        } else {
            out.push(lo..hi);
        }
    }
    let mut out = vec![];
    if len > 0 {
        rec(0, len, min, &mut out);
    }
    out
}

impl<P: IndexedParallelIterator> ParallelIterator for WithMinLen<P> {
    type Item = P::Item;
    fn ntasks(&self) -> usize {
        // (= number of buckets for ordered collection: items are reported under their own index)
        self.base.ntasks()
    }
    fn drive<C>(self, sink: C)
    where
        C: Fn(usize, Self::Item) + Sync,
    {
        let min = self.min;
        let p = self.base.into_producer();
        let leaves = min_len_leaves(p.len(), min);
        verif::run(leaves.len(), &|t| {
            for idx in leaves[t].clone() {
                sink(idx, p.take(idx));
            }
        });
    }
}

impl<P: IndexedParallelIterator> IndexedParallelIterator for WithMinLen<P> {
    type Prod = P::Prod;
    fn into_producer(self) -> Self::Prod {
        self.base.into_producer()
    }
}
