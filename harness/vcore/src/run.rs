//! Run bookkeeping shared by all checks: tiers, violations vs. known findings, replay artefacts,
//! evidence files, panic capture, a work-sharing `par_for`, and a per-case watchdog.

use serde_json::{json, Value};
use std::cell::RefCell;
use std::collections::{BTreeMap, BTreeSet};
use std::panic::{catch_unwind, AssertUnwindSafe};
use std::path::PathBuf;
use std::sync::atomic::{AtomicU64, AtomicUsize, Ordering};
use std::sync::Mutex;
use std::time::Instant;

/// Output root (evidence/, replays/, known_findings.json).  `VERIF_ROOT` in the environment
/// redirects it (used only by tools/scratch_check.sh for runs against scratch copies).
pub fn verif_root() -> String {
    std::env::var("VERIF_ROOT").unwrap_or_else(|_| "/verif".to_string())
}

#[derive(Clone, Copy, PartialEq, Eq, Debug)]
pub enum Tier {
    Quick,
    Thorough,
}

#[derive(Clone, Debug)]
struct Known {
    key: String,
    what: String,
    /// exact keys loaded from `keys_file` (one per line), if the entry has one
    exact: Option<std::collections::HashSet<String>>,
}

pub struct Run {
    pub id: String,
    pub tier: Tier,
    pub seed: i64,
    pub replay: Option<String>,
    level: String,
    start: Instant,
    known: Vec<Known>,
    known_hit: Mutex<BTreeMap<String, (u64, String)>>,
    violations: Mutex<Vec<(String, String)>>,
    viol_keys: Mutex<BTreeSet<String>>,
    pub counters: std::sync::RwLock<std::collections::HashMap<String, AtomicU64>>,
    samples: Mutex<Vec<Value>>,
    caps: Mutex<Vec<String>>,
    watch: Mutex<BTreeMap<usize, (String, Instant)>>,
    pub case_cap_s: AtomicU64,
    deadline_s: f64,
    /// `VERIF_SUBPART=<name>`: this process is a sub-run of the property's checker (e.g. the
    /// same enumeration against another build configuration of the library).  Keys are prefixed
    /// with `<name>:`, the evidence goes to `evidence/parts/<id>.<name>.json`, and the parent
    /// process merges the result (`Run::run_subpart`).
    subpart: Option<String>,
    ext_violations: AtomicU64,
}

thread_local! {
    static LAST_PANIC: RefCell<Option<String>> = const { RefCell::new(None) };
    static CATCH_DEPTH: std::cell::Cell<u32> = const { std::cell::Cell::new(0) };
}

/// Runs `f`, converting a panic into `Err(message @ location)`.
pub fn catch<T>(f: impl FnOnce() -> T) -> Result<T, String> {
    LAST_PANIC.with(|p| *p.borrow_mut() = None);
    CATCH_DEPTH.with(|d| d.set(d.get() + 1));
    let r = catch_unwind(AssertUnwindSafe(f));
    CATCH_DEPTH.with(|d| d.set(d.get() - 1));
    match r {
        Ok(v) => Ok(v),
        Err(p) => {
            let from_hook = LAST_PANIC.with(|p| p.borrow_mut().take());
            let msg = if let Some(m) = from_hook {
                m
            } else if let Some(s) = p.downcast_ref::<&str>() {
                s.to_string()
            } else if let Some(s) = p.downcast_ref::<String>() {
                s.clone()
            } else {
                "<panic>".to_string()
            };
            Err(msg)
        }
    }
}

thread_local! {
    /// set by checks around schedule exploration (library panics there are execution outcomes)
    pub static IN_EXPLORER: std::cell::Cell<bool> = const { std::cell::Cell::new(false) };
}

fn install_panic_hook() {
    std::panic::set_hook(Box::new(|info| {
        let msg = if let Some(s) = info.payload().downcast_ref::<&str>() {
            s.to_string()
        } else if let Some(s) = info.payload().downcast_ref::<String>() {
            s.clone()
        } else {
            "<panic>".to_string()
        };
        let loc = info.location().map(|l| format!(" @ {}:{}", l.file(), l.line())).unwrap_or_default();
        let mut m = format!("{msg}{loc}");
        if m.len() > 400 {
            let mut cut = 400;
            while !m.is_char_boundary(cut) {
                cut -= 1;
            }
            m.truncate(cut);
        }
        // a panic outside `catch` (and outside the explorer's worker threads, whose panics are
        // outcomes of the explored execution) is a bug of the harness itself: show it
        let in_catch = CATCH_DEPTH.with(|d| d.get() > 0);
        let worker = std::thread::current().name().map(|n| n.starts_with("vworker")).unwrap_or(false);
        let scheduled = std::env::var("VERIF_SHOW_PANICS").is_ok();
        if (!in_catch && !worker && !IN_EXPLORER.with(|e| e.get())) || scheduled {
            eprintln!("HARNESS PANIC [{}]: {m}", std::thread::current().name().unwrap_or("?"));
        }
        LAST_PANIC.with(|p| *p.borrow_mut() = Some(m));
    }));
}

fn fnv(s: &str) -> u64 {
    let mut h: u64 = 0xcbf29ce484222325;
    for b in s.bytes() {
        h ^= b as u64;
        h = h.wrapping_mul(0x100000001b3);
    }
    h
}

impl Run {
    pub fn new(id: &str, level: &str) -> Run {
        let args: Vec<String> = std::env::args().collect();
        let mut tier = match std::env::var("VERIF_TIER").ok().as_deref() {
            Some("thorough") => Tier::Thorough,
            _ => Tier::Quick,
        };
        let mut replay = None;
        let mut i = 1;
        while i < args.len() {
            match args[i].as_str() {
                "--tier" => {
                    i += 1;
                    tier = match args.get(i).map(|s| s.as_str()) {
                        Some("thorough") => Tier::Thorough,
                        Some("quick") => Tier::Quick,
                        other => {
                            eprintln!("bad --tier {other:?}");
                            std::process::exit(2)
                        }
                    };
                }
                "--replay" => {
                    i += 1;
                    replay = args.get(i).cloned();
                }
                _ => {}
            }
            i += 1;
        }
        let seed = std::env::var("VERIF_SEED").ok().and_then(|s| s.parse::<i64>().ok()).unwrap_or(0);
        let deadline_s = std::env::var("VERIF_BUDGET_S")
            .ok()
            .and_then(|s| s.parse::<f64>().ok())
            .unwrap_or(if tier == Tier::Quick { 40.0 } else { 1500.0 });
        install_panic_hook();
        // known findings
        let mut known = vec![];
        let kf_path = format!("{}/known_findings.json", verif_root());
        if let Ok(txt) = std::fs::read_to_string(&kf_path) {
            match serde_json::from_str::<Value>(&txt) {
                Ok(v) => {
                    for e in v["findings"].as_array().cloned().unwrap_or_default() {
                        if e["property"].as_str() == Some(id) && e["status"].as_str() == Some("known") {
                            let exact = e["keys_file"].as_str().map(|f| {
                                let path = format!("{}/{f}", verif_root());
                                match std::fs::read_to_string(&path) {
                                    Ok(t) => t.lines().map(|l| l.trim().to_string()).filter(|l| !l.is_empty()).collect(),
                                    Err(err) => {
                                        eprintln!("cannot read {path}: {err}");
                                        std::process::exit(2);
                                    }
                                }
                            });
                            known.push(Known {
                                key: e["key"].as_str().unwrap_or("").to_string(),
                                what: e["what"].as_str().unwrap_or("").to_string(),
                                exact,
                            });
                        }
                    }
                }
                Err(e) => {
                    eprintln!("cannot parse {kf_path}: {e}");
                    std::process::exit(2);
                }
            }
        }
        Run {
            id: id.to_string(),
            tier,
            seed,
            replay,
            level: level.to_string(),
            start: Instant::now(),
            known,
            known_hit: Mutex::new(BTreeMap::new()),
            violations: Mutex::new(vec![]),
            viol_keys: Mutex::new(BTreeSet::new()),
            counters: std::sync::RwLock::new(std::collections::HashMap::new()),
            samples: Mutex::new(vec![]),
            caps: Mutex::new(vec![]),
            watch: Mutex::new(BTreeMap::new()),
            case_cap_s: AtomicU64::new(if tier == Tier::Quick { 60 } else { 600 }),
            deadline_s,
            subpart: std::env::var("VERIF_SUBPART").ok().filter(|s| !s.is_empty()),
            ext_violations: AtomicU64::new(0),
        }
    }

    pub fn thorough(&self) -> bool {
        self.tier == Tier::Thorough
    }

    pub fn elapsed(&self) -> f64 {
        self.start.elapsed().as_secs_f64()
    }

    /// True when the internal wall budget of this tier is used up.  A check that stops because
    /// of it must call `cap(..)` so that the run is not labelled exhaustive.
    pub fn over_budget(&self) -> bool {
        self.elapsed() > self.deadline_s
    }

    /// Same for a share of the budget (checks with several parts give each part its own share).
    pub fn over_budget_frac(&self, frac: f64) -> bool {
        self.elapsed() > self.deadline_s * frac
    }

    pub fn budget_s(&self) -> f64 {
        self.deadline_s
    }

    pub fn cap(&self, what: &str) {
        let mut c = self.caps.lock().unwrap();
        if !c.iter().any(|x| x == what) {
            c.push(what.to_string());
        }
    }

    pub fn caps_hit(&self) -> Vec<String> {
        self.caps.lock().unwrap().clone()
    }

    pub fn add(&self, counter: &str, n: u64) {
        // fast path: shared lock + atomic add, no allocation
        if let Some(c) = self.counters.read().unwrap().get(counter) {
            c.fetch_add(n, Ordering::Relaxed);
            return;
        }
        self.counters.write().unwrap().entry(counter.to_string()).or_insert_with(|| AtomicU64::new(0)).fetch_add(n, Ordering::Relaxed);
    }

    pub fn get(&self, counter: &str) -> u64 {
        self.counters.read().unwrap().get(counter).map(|c| c.load(Ordering::Relaxed)).unwrap_or(0)
    }

    pub fn sample(&self, v: Value) {
        let mut s = self.samples.lock().unwrap();
        if s.len() < 12 {
            s.push(v);
        }
    }

    pub fn nviolations(&self) -> usize {
        self.viol_keys.lock().unwrap().len() + self.ext_violations.load(Ordering::Relaxed) as usize
    }

    /// Runs the sibling executable `bin` as a sub-run `name` of this check (same tier, `budget_s`
    /// wall budget, `--replay` forwarded when the recorded key belongs to the sub-run), lets it
    /// print its own VIOLATION / KNOWN-FINDING lines, adds its violations to this run's verdict
    /// and returns its evidence.  Anything but exit 0/1 is a machinery error.
    pub fn run_subpart(&self, bin: &str, name: &str, budget_s: f64) -> Value {
        let exe = std::env::current_exe().ok().and_then(|p| p.parent().map(|d| d.join(bin)));
        let Some(exe) = exe.filter(|e| e.exists()) else {
            eprintln!("MACHINERY ERROR: sub-run executable {bin} not found next to the checker");
            std::process::exit(3);
        };
        let mut cmd = std::process::Command::new(exe);
        cmd.arg("--tier").arg(if self.tier == Tier::Quick { "quick" } else { "thorough" });
        cmd.env("VERIF_SUBPART", name).env("VERIF_BUDGET_S", format!("{budget_s}"));
        if let Some(r) = &self.replay {
            let key = std::fs::read_to_string(r).ok().and_then(|t| serde_json::from_str::<Value>(&t).ok()).and_then(|v| v["key"].as_str().map(|s| s.to_string())).unwrap_or_default();
            if !key.starts_with(&format!("{name}:")) {
                return json!({"skipped": "replay of a key that does not belong to this sub-run"});
            }
            cmd.arg("--replay").arg(r);
        }
        let st = match cmd.status() {
            Ok(s) => s,
            Err(e) => {
                eprintln!("MACHINERY ERROR: cannot start sub-run {bin}: {e}");
                std::process::exit(3);
            }
        };
        match st.code() {
            Some(0) | Some(1) => {}
            other => {
                eprintln!("MACHINERY ERROR: sub-run {bin} ended with {other:?}");
                std::process::exit(3);
            }
        }
        if self.replay.is_some() {
            // the sub-run has printed REPLAY ... reproduced=...; its exit code is the answer
            std::process::exit(st.code().unwrap());
        }
        let path = format!("{}/evidence/parts/{}.{}.json", verif_root(), self.id, name);
        let ev: Value = match std::fs::read_to_string(&path).ok().and_then(|t| serde_json::from_str(&t).ok()) {
            Some(v) => v,
            None => {
                eprintln!("MACHINERY ERROR: sub-run {bin} left no evidence at {path}");
                std::process::exit(3);
            }
        };
        let n = ev["violations"].as_u64().unwrap_or(0);
        if (n > 0) != (st.code() == Some(1)) {
            eprintln!("MACHINERY ERROR: sub-run {bin}: exit code and evidence disagree");
            std::process::exit(3);
        }
        self.ext_violations.fetch_add(n, Ordering::Relaxed);
        ev
    }

    /// Reports a failing case.  `key` is the canonical case id; a known finding matches if its
    /// key equals `key`, or ends in `*` and is a prefix of `key`.
    pub fn fail(&self, key: &str, what: &str, detail: Value) {
        let prefixed;
        let key = match &self.subpart {
            Some(p) => {
                prefixed = format!("{p}:{key}");
                prefixed.as_str()
            }
            None => key,
        };
        if let Ok(path) = std::env::var("VERIF_DUMP_FAILS") {
            // development aid: every failing key (known or not), one per line
            use std::io::Write;
            static LOCK: Mutex<()> = Mutex::new(());
            let _g = LOCK.lock().unwrap();
            if let Ok(mut f) = std::fs::OpenOptions::new().create(true).append(true).open(path) {
                let _ = writeln!(f, "{key}");
            }
        }
        for k in &self.known {
            let hit = if let Some(set) = &k.exact {
                set.contains(key)
            } else if let Some(pre) = k.key.strip_suffix('*') {
                key.starts_with(pre)
            } else {
                k.key == key
            };
            if hit {
                let mut kh = self.known_hit.lock().unwrap();
                let e = kh.entry(k.key.clone()).or_insert((0, k.what.clone()));
                e.0 += 1;
                return;
            }
        }
        {
            let mut vk = self.viol_keys.lock().unwrap();
            if !vk.insert(key.to_string()) {
                return;
            }
            if vk.len() > 200 {
                return; // counted, but no more artefacts
            }
        }
        let dir = PathBuf::from(format!("{}/replays/{}", verif_root(), self.id));
        let _ = std::fs::create_dir_all(&dir);
        let path = dir.join(format!("{:016x}.json", fnv(key)));
        let body = json!({
            "property": self.id,
            "key": key,
            "what": what,
            "detail": detail,
            "tier": if self.tier == Tier::Quick { "quick" } else { "thorough" },
        });
        let _ = std::fs::write(&path, serde_json::to_string_pretty(&body).unwrap());
        println!("VIOLATION property={} replay={}", self.id, path.display());
        println!("  key={key}\n  what={what}");
        self.violations.lock().unwrap().push((key.to_string(), what.to_string()));
    }

    /// Work-sharing loop over `0..n` on up to 16 threads with large stacks.  Every case is
    /// registered with the watchdog under `label(i)`.
    pub fn par_for(&self, n: usize, f: impl Fn(usize) + Sync) {
        self.par_for_threads(n, threads(), f)
    }

    pub fn par_for_threads(&self, n: usize, nthreads: usize, f: impl Fn(usize) + Sync) {
        let next = AtomicUsize::new(0);
        let nt = nthreads.min(n.max(1));
        std::thread::scope(|s| {
            for t in 0..nt {
                let next = &next;
                let f = &f;
                std::thread::Builder::new()
                    .name(format!("vshard-{t}"))
                    .stack_size(256 << 20)
                    .spawn_scoped(s, move || loop {
                        let i = next.fetch_add(1, Ordering::Relaxed);
                        if i >= n {
                            break;
                        }
                        f(i);
                    })
                    .expect("spawn shard thread");
            }
        });
    }

    /// Registers the case the current shard thread is about to run (watchdog + crash journal).
    pub fn enter_case(&self, slot: usize, key: String) {
        self.watch.lock().unwrap().insert(slot, (key, Instant::now()));
    }

    pub fn leave_case(&self, slot: usize) {
        self.watch.lock().unwrap().remove(&slot);
    }

    /// Starts the watchdog thread: a case that runs longer than `case_cap_s` is reported as a
    /// violation of the termination clause and the process exits (a stuck thread cannot be
    /// recovered in-process).
    pub fn start_watchdog(self: &std::sync::Arc<Self>, coverage_on_timeout: Value) {
        let me = self.clone();
        std::thread::Builder::new()
            .name("vwatchdog".into())
            .spawn(move || loop {
                std::thread::sleep(std::time::Duration::from_millis(500));
                let cap = me.case_cap_s.load(Ordering::Relaxed);
                let stuck: Option<(String, f64)> = {
                    let w = me.watch.lock().unwrap();
                    w.values()
                        .map(|(k, t)| (k.clone(), t.elapsed().as_secs_f64()))
                        .find(|(_, e)| *e > cap as f64)
                };
                if let Some((key, el)) = stuck {
                    me.fail(
                        &format!("timeout:{key}"),
                        &format!("case did not terminate within {cap}s (ran {el:.0}s)"),
                        json!({"case": key}),
                    );
                    me.cap("per-case wall cap hit; run aborted");
                    me.finish_ref(coverage_on_timeout.clone(), &["watchdog abort: coverage counts are partial"]);
                }
            })
            .expect("spawn watchdog");
    }

    pub fn finish(self, coverage: Value, assumptions: &[&str]) -> ! {
        self.finish_ref(coverage, assumptions)
    }

    pub fn finish_ref(&self, mut coverage: Value, assumptions: &[&str]) -> ! {
        let wall = self.elapsed();
        let nviol = self.nviolations();
        if let Some(path) = &self.replay {
            // replay mode: the whole (deterministic) enumeration was re-run; report whether the
            // recorded case fails again.  No evidence is written.
            let key = std::fs::read_to_string(path)
                .ok()
                .and_then(|t| serde_json::from_str::<Value>(&t).ok())
                .and_then(|v| v["key"].as_str().map(|s| s.to_string()));
            match key {
                Some(k) => {
                    let hit = self.viol_keys.lock().unwrap().contains(&k);
                    println!("REPLAY property={} key={} reproduced={}", self.id, k, hit);
                    std::process::exit(if hit { 1 } else { 0 });
                }
                None => {
                    eprintln!("cannot read a key from replay artefact {path}");
                    std::process::exit(2);
                }
            }
        }
        let kh = self.known_hit.lock().unwrap().clone();
        for (k, (n, what)) in &kh {
            println!("KNOWN-FINDING: property={} {} [{} case(s), key={}]", self.id, what, n, k);
        }
        if let Some(obj) = coverage.as_object_mut() {
            if !obj.contains_key("samples") {
                let mut s = self.samples.lock().unwrap().clone();
                if s.is_empty() && nviol > 0 {
                    // a run that found violations before any sample was recorded: the violations
                    // are the samples (a machinery exit here would hide a verdict)
                    s = self.violations.lock().unwrap().iter().take(8).map(|(k, w)| json!({"violating_case": k, "what": w})).collect();
                }
                if s.is_empty() {
                    eprintln!("MACHINERY ERROR: check {} recorded no sample case for its evidence", self.id);
                    std::process::exit(3);
                }
                obj.insert("samples".into(), Value::Array(s));
            }
            let caps = self.caps_hit();
            if !caps.is_empty() {
                obj.insert("exhaustive".into(), json!(false));
            }
            obj.insert("caps_hit".into(), json!(caps));
            obj.insert(
                "known_findings_hit".into(),
                json!(kh.iter().map(|(k, (n, _))| json!({"key": k, "cases": n})).collect::<Vec<_>>()),
            );
            let ctr: BTreeMap<String, u64> = self.counters.read().unwrap().iter().map(|(k, v)| (k.clone(), v.load(Ordering::Relaxed))).collect();
            if !ctr.is_empty() {
                obj.insert("counters".into(), json!(ctr));
            }
        }
        let ev = json!({
            "property_id": self.id,
            "tier": if self.tier == Tier::Quick { "quick" } else { "thorough" },
            "seed": self.seed,
            "level": self.level,
            "coverage": coverage,
            "assumptions": assumptions,
            "wall_s": (wall * 1000.0).round() / 1000.0,
            "violations": nviol,
        });
        let dir = match &self.subpart {
            Some(_) => format!("{}/evidence/parts", verif_root()),
            None => format!("{}/evidence", verif_root()),
        };
        let _ = std::fs::create_dir_all(&dir);
        let path = match &self.subpart {
            Some(p) => format!("{dir}/{}.{p}.json", self.id),
            None => format!("{dir}/{}.json", self.id),
        };
        if let Err(e) = std::fs::write(&path, serde_json::to_string_pretty(&ev).unwrap() + "\n") {
            eprintln!("cannot write evidence {path}: {e}");
            std::process::exit(2);
        }
        println!(
            "{}{} tier={} wall={:.1}s violations={} known_findings_hit={} evidence={}",
            self.id,
            self.subpart.as_ref().map(|p| format!("[{p}]")).unwrap_or_default(),
            ev["tier"].as_str().unwrap(),
            wall,
            nviol,
            kh.len(),
            path
        );
        std::process::exit(if nviol == 0 { 0 } else { 1 })
    }
}

pub fn threads() -> usize {
    std::env::var("VERIF_THREADS")
        .ok()
        .and_then(|s| s.parse().ok())
        .unwrap_or_else(|| std::thread::available_parallelism().map(|n| n.get()).unwrap_or(4).min(16))
}

/// Pins the calling thread (and every thread it spawns later: affinity is inherited) to one CPU,
/// chosen round-robin; called by the schedule explorer's entry points only.  Schedule
/// exploration hands a baton between the worker threads of one shard thousands of times per
/// second; keeping them on one core turns each hand-off into a plain context switch instead of a
/// cross-CPU wake-up (an order of magnitude cheaper inside a VM).  Ordinary `par_for` threads are
/// NOT pinned (nested `par_for`s would pile up on the low CPUs).
pub fn pin_current_thread_once() {
    thread_local! { static PINNED: std::cell::Cell<bool> = const { std::cell::Cell::new(false) }; }
    static NEXT: AtomicUsize = AtomicUsize::new(0);
    if PINNED.with(|p| p.replace(true)) {
        return;
    }
    if std::env::var("VERIF_NO_PIN").is_ok() {
        return;
    }
    let ncpu = std::thread::available_parallelism().map(|n| n.get()).unwrap_or(1);
    let slot = NEXT.fetch_add(1, Ordering::Relaxed);
    // SAFETY: plain libc call on a zero-initialised cpu_set_t owned by this frame.
    unsafe {
        let mut set: libc::cpu_set_t = std::mem::zeroed();
        libc::CPU_ZERO(&mut set);
        libc::CPU_SET(slot % ncpu, &mut set);
        libc::sched_setaffinity(0, std::mem::size_of::<libc::cpu_set_t>(), &set);
    }
}
