//! Level-synchronous explicit-state breadth-first search.  The transition function is the check
//! itself: it runs the *real implementation* for every enabled action of a state, compares with
//! the reference model, reports violations through `Run`, and returns the successor states
//! (canonical, hashable).  Every explored transition therefore is an execution of the
//! implementation ("traces validated against the implementation" = transitions).

use crate::run::Run;
use std::collections::HashSet;
use std::hash::Hash;
use std::sync::Mutex;

#[derive(Clone, Debug, Default)]
pub struct BfsStats {
    pub states: u64,
    pub transitions: u64,
    pub max_depth: usize,
    /// false if a depth / state cap stopped the search before the frontier was empty
    pub exhausted: bool,
    pub states_per_depth: Vec<u64>,
}

pub fn bfs<S, F>(run: &Run, init: Vec<S>, max_depth: usize, max_states: u64, succ: F) -> (BfsStats, HashSet<S>)
where
    S: Clone + Hash + Eq + Send + Sync,
    F: Fn(&S, usize) -> Vec<S> + Sync,
{
    let mut seen: HashSet<S> = HashSet::new();
    let mut frontier: Vec<S> = vec![];
    for s in init {
        if seen.insert(s.clone()) {
            frontier.push(s);
        }
    }
    let mut st = BfsStats { exhausted: true, ..Default::default() };
    st.states_per_depth.push(frontier.len() as u64);
    let mut depth = 0;
    while !frontier.is_empty() {
        if depth >= max_depth {
            st.exhausted = false;
            break;
        }
        let out: Mutex<Vec<Vec<S>>> = Mutex::new(vec![]);
        let trans = std::sync::atomic::AtomicU64::new(0);
        let chunk = 64usize;
        let nchunks = frontier.len().div_ceil(chunk);
        run.par_for(nchunks, |c| {
            let mut local = vec![];
            for s in &frontier[c * chunk..((c + 1) * chunk).min(frontier.len())] {
                let next = succ(s, depth);
                trans.fetch_add(next.len() as u64, std::sync::atomic::Ordering::Relaxed);
                local.extend(next);
            }
            out.lock().unwrap().push(local);
        });
        st.transitions += trans.into_inner();
        let mut next_frontier = vec![];
        for v in out.into_inner().unwrap() {
            for s in v {
                if !seen.contains(&s) {
                    seen.insert(s.clone());
                    next_frontier.push(s);
                }
            }
        }
        depth += 1;
        if !next_frontier.is_empty() {
            st.max_depth = depth;
            st.states_per_depth.push(next_frontier.len() as u64);
        }
        frontier = next_frontier;
        if seen.len() as u64 > max_states {
            st.exhausted = false;
            break;
        }
    }
    st.states = seen.len() as u64;
    (st, seen)
}
