//! Reference arithmetic (no dependency on any `yui` crate).  Deliberately naive: everything is
//! `BigInt` based, every algorithm is the textbook one.

use num_bigint::BigInt;
use num_traits::Signed;
use std::fmt::Debug;
use std::hash::Hash;

pub type Z = BigInt;

pub fn z(i: i64) -> Z {
    BigInt::from(i)
}

/// Exactly rounded quotient a/b (b != 0); ties may go either way, this one rounds half away
/// from zero.  Pure integer arithmetic.
pub fn div_round_z(a: &Z, b: &Z) -> Z {
    assert!(!b.is_zero());
    let (mut a, mut b) = (a.clone(), b.clone());
    if b.is_negative() {
        a = -a;
        b = -b;
    }
    // floor((2a + b) / 2b)
    let two = z(2);
    let num = &two * &a + &b;
    let den = &two * &b;
    let q = num_integer::Integer::div_floor(&num, &den);
    // (half away from zero for negatives: floor gives toward +inf at ties; acceptable: any tie)
    q
}

/// |2a - 2qb| <= |b|  <=> q is *an* exactly rounded quotient of a/b
pub fn is_rounded_quotient(a: &Z, b: &Z, q: &Z) -> bool {
    let two = z(2);
    (&two * a - &two * q * b).abs() <= b.abs()
}

pub trait RefRing: Clone + PartialEq + Eq + Hash + Debug + Send + Sync + 'static {
    fn zero() -> Self;
    fn one() -> Self;
    fn add(&self, o: &Self) -> Self;
    fn sub(&self, o: &Self) -> Self;
    fn mul(&self, o: &Self) -> Self;
    fn neg(&self) -> Self;
    fn is_zero(&self) -> bool;
    fn is_one(&self) -> bool {
        *self == Self::one()
    }
    fn from_i64(i: i64) -> Self;
    fn show(&self) -> String {
        format!("{self:?}")
    }
    fn sum<'a>(it: impl IntoIterator<Item = &'a Self>) -> Self {
        it.into_iter().fold(Self::zero(), |a, b| a.add(b))
    }
}

/// Integral domain with a Euclidean function and a division algorithm of its own.
pub trait RefEuclid: RefRing {
    /// Euclidean value; `None` for zero.
    fn eucl(&self) -> Option<Z>;
    /// (q, r) with a = q*b + r and (r = 0 or eucl(r) < eucl(b)).  b != 0.
    fn div_rem(&self, b: &Self) -> (Self, Self);

    fn exact_div(&self, b: &Self) -> Option<Self> {
        if b.is_zero() {
            return None;
        }
        let (q, r) = self.div_rem(b);
        if r.is_zero() {
            Some(q)
        } else {
            None
        }
    }
    fn divides(&self, o: &Self) -> bool {
        if self.is_zero() {
            o.is_zero()
        } else {
            o.exact_div(self).is_some()
        }
    }
    fn is_unit(&self) -> bool {
        !self.is_zero() && Self::one().exact_div(self).is_some()
    }
    fn inverse(&self) -> Option<Self> {
        if self.is_zero() {
            None
        } else {
            Self::one().exact_div(self)
        }
    }
    /// a ~ b (equal up to a unit)
    fn associated(&self, o: &Self) -> bool {
        self.divides(o) && o.divides(self)
    }
    /// some gcd (not normalised)
    fn gcd(&self, o: &Self) -> Self {
        let (mut a, mut b) = (self.clone(), o.clone());
        let mut guard = 0;
        while !b.is_zero() {
            let (_, r) = a.div_rem(&b);
            a = b;
            b = r;
            guard += 1;
            assert!(guard < 100_000, "reference gcd does not terminate");
        }
        a
    }
    /// Unit multiples of `self` by every unit of the ring when that list is finite and known
    /// (used to check "constant on associates"); default: ±.
    fn unit_list() -> Vec<Self> {
        vec![Self::one(), Self::one().neg()]
    }
}

// ---- Z -----------------------------------------------------------------------------------

impl RefRing for Z {
    fn zero() -> Self {
        BigInt::from(0)
    }
    fn one() -> Self {
        BigInt::from(1)
    }
    fn add(&self, o: &Self) -> Self {
        self + o
    }
    fn sub(&self, o: &Self) -> Self {
        self - o
    }
    fn mul(&self, o: &Self) -> Self {
        self * o
    }
    fn neg(&self) -> Self {
        -self
    }
    fn is_zero(&self) -> bool {
        self.sign() == num_bigint::Sign::NoSign
    }
    fn from_i64(i: i64) -> Self {
        z(i)
    }
    fn show(&self) -> String {
        self.to_string()
    }
}

impl RefEuclid for Z {
    fn eucl(&self) -> Option<Z> {
        if self.sign() == num_bigint::Sign::NoSign {
            None
        } else {
            Some(self.abs())
        }
    }
    fn div_rem(&self, b: &Self) -> (Self, Self) {
        // truncated division, |r| < |b|
        let q = self / b;
        let r = self - &q * b;
        (q, r)
    }
}

// ---- Q -----------------------------------------------------------------------------------

#[derive(Clone, PartialEq, Eq, Hash)]
pub struct Q {
    pub n: Z,
    pub d: Z,
}

impl Debug for Q {
    fn fmt(&self, f: &mut std::fmt::Formatter<'_>) -> std::fmt::Result {
        if self.d == BigInt::from(1) {
            write!(f, "{}", self.n)
        } else {
            write!(f, "{}/{}", self.n, self.d)
        }
    }
}

impl Q {
    pub fn new(n: Z, d: Z) -> Q {
        assert!(d.sign() != num_bigint::Sign::NoSign);
        let g = num_integer::Integer::gcd(&n, &d);
        let (mut n, mut d) = if g.sign() == num_bigint::Sign::NoSign { (n, d) } else { (&n / &g, &d / &g) };
        if d.is_negative() {
            n = -n;
            d = -d;
        }
        if n.sign() == num_bigint::Sign::NoSign {
            d = BigInt::from(1);
        }
        Q { n, d }
    }
    pub fn int(i: i64) -> Q {
        Q { n: z(i), d: BigInt::from(1) }
    }
    pub fn from_z(n: Z) -> Q {
        Q { n, d: BigInt::from(1) }
    }
    pub fn inv(&self) -> Option<Q> {
        if self.n.sign() == num_bigint::Sign::NoSign {
            None
        } else {
            Some(Q::new(self.d.clone(), self.n.clone()))
        }
    }
    pub fn cmp_q(&self, o: &Q) -> std::cmp::Ordering {
        (&self.n * &o.d).cmp(&(&o.n * &self.d))
    }
    pub fn abs(&self) -> Q {
        Q { n: self.n.abs(), d: self.d.clone() }
    }
}

impl RefRing for Q {
    fn zero() -> Self {
        Q::int(0)
    }
    fn one() -> Self {
        Q::int(1)
    }
    fn add(&self, o: &Self) -> Self {
        Q::new(&self.n * &o.d + &o.n * &self.d, &self.d * &o.d)
    }
    fn sub(&self, o: &Self) -> Self {
        Q::new(&self.n * &o.d - &o.n * &self.d, &self.d * &o.d)
    }
    fn mul(&self, o: &Self) -> Self {
        Q::new(&self.n * &o.n, &self.d * &o.d)
    }
    fn neg(&self) -> Self {
        Q { n: -&self.n, d: self.d.clone() }
    }
    fn is_zero(&self) -> bool {
        self.n.sign() == num_bigint::Sign::NoSign
    }
    fn from_i64(i: i64) -> Self {
        Q::int(i)
    }
}

impl RefEuclid for Q {
    fn eucl(&self) -> Option<Z> {
        if self.is_zero() {
            None
        } else {
            Some(z(0))
        }
    }
    fn div_rem(&self, b: &Self) -> (Self, Self) {
        (self.mul(&b.inv().expect("division by zero")), Q::int(0))
    }
    fn unit_list() -> Vec<Self> {
        vec![Q::int(1), Q::int(-1), Q::int(2), Q::new(z(1), z(2)), Q::new(z(-2), z(3))]
    }
}

// ---- F_p ---------------------------------------------------------------------------------

#[derive(Clone, Copy, PartialEq, Eq, Hash)]
pub struct Fp<const P: u32>(pub u32);

impl<const P: u32> Debug for Fp<P> {
    fn fmt(&self, f: &mut std::fmt::Formatter<'_>) -> std::fmt::Result {
        write!(f, "{}", self.0)
    }
}

impl<const P: u32> Fp<P> {
    pub fn new(i: i64) -> Self {
        Fp(i.rem_euclid(P as i64) as u32)
    }
    pub fn inv(&self) -> Option<Self> {
        if self.0 == 0 {
            return None;
        }
        // brute force: p is tiny
        (1..P).find(|x| (x * self.0) % P == 1).map(Fp)
    }
    pub fn all() -> Vec<Self> {
        (0..P).map(Fp).collect()
    }
}

impl<const P: u32> RefRing for Fp<P> {
    fn zero() -> Self {
        Fp(0)
    }
    fn one() -> Self {
        Fp(1 % P)
    }
    fn add(&self, o: &Self) -> Self {
        Fp((self.0 + o.0) % P)
    }
    fn sub(&self, o: &Self) -> Self {
        Fp((self.0 + P - o.0) % P)
    }
    fn mul(&self, o: &Self) -> Self {
        Fp((self.0 * o.0) % P)
    }
    fn neg(&self) -> Self {
        Fp((P - self.0) % P)
    }
    fn is_zero(&self) -> bool {
        self.0 == 0
    }
    fn from_i64(i: i64) -> Self {
        Fp::new(i)
    }
}

impl<const P: u32> RefEuclid for Fp<P> {
    fn eucl(&self) -> Option<Z> {
        if self.0 == 0 {
            None
        } else {
            Some(z(0))
        }
    }
    fn div_rem(&self, b: &Self) -> (Self, Self) {
        (self.mul(&b.inv().expect("division by zero")), Fp(0))
    }
    fn unit_list() -> Vec<Self> {
        (1..P).map(Fp).collect()
    }
}

// ---- quadratic integers a + b*omega ---------------------------------------------------------
// omega = sqrt(D)            if D = 2,3 mod 4   (omega^2 = D)
// omega = (1 + sqrt(D)) / 2  if D = 1   mod 4   (omega^2 = omega + (D-1)/4)

#[derive(Clone, PartialEq, Eq, Hash)]
pub struct Quad<const D: i64> {
    pub a: Z,
    pub b: Z,
}

impl<const D: i64> Debug for Quad<D> {
    fn fmt(&self, f: &mut std::fmt::Formatter<'_>) -> std::fmt::Result {
        write!(f, "({},{})", self.a, self.b)
    }
}

impl<const D: i64> Quad<D> {
    pub fn new(a: Z, b: Z) -> Self {
        Quad { a, b }
    }
    pub fn of(a: i64, b: i64) -> Self {
        Quad { a: z(a), b: z(b) }
    }
    pub fn is_type1() -> bool {
        D.rem_euclid(4) == 1
    }
    pub fn conj(&self) -> Self {
        if Self::is_type1() {
            Quad { a: &self.a + &self.b, b: -&self.b }
        } else {
            Quad { a: self.a.clone(), b: -&self.b }
        }
    }
    pub fn norm(&self) -> Z {
        if Self::is_type1() {
            let e = z((1 - D) / 4);
            &self.a * &self.a + &self.a * &self.b + &self.b * &self.b * e
        } else {
            &self.a * &self.a - &self.b * &self.b * z(D)
        }
    }
}

impl<const D: i64> RefRing for Quad<D> {
    fn zero() -> Self {
        Quad::of(0, 0)
    }
    fn one() -> Self {
        Quad::of(1, 0)
    }
    fn add(&self, o: &Self) -> Self {
        Quad { a: &self.a + &o.a, b: &self.b + &o.b }
    }
    fn sub(&self, o: &Self) -> Self {
        Quad { a: &self.a - &o.a, b: &self.b - &o.b }
    }
    fn mul(&self, o: &Self) -> Self {
        let (a, b, c, d) = (&self.a, &self.b, &o.a, &o.b);
        if Self::is_type1() {
            // (a + b w)(c + d w) = ac + (ad + bc) w + bd w^2,  w^2 = w + e
            let e = z((D - 1) / 4);
            Quad { a: a * c + b * d * e, b: a * d + b * c + b * d }
        } else {
            Quad { a: a * c + b * d * z(D), b: a * d + b * c }
        }
    }
    fn neg(&self) -> Self {
        Quad { a: -&self.a, b: -&self.b }
    }
    fn is_zero(&self) -> bool {
        self.a.sign() == num_bigint::Sign::NoSign && self.b.sign() == num_bigint::Sign::NoSign
    }
    fn from_i64(i: i64) -> Self {
        Quad::of(i, 0)
    }
}

impl<const D: i64> RefEuclid for Quad<D> {
    fn eucl(&self) -> Option<Z> {
        if self.is_zero() {
            None
        } else {
            Some(self.norm().abs())
        }
    }
    /// nearest lattice point in the (1, omega) basis; Euclidean for D = -1, -3 (also -2, -7, -11
    /// in this basis, not needed here)
    fn div_rem(&self, b: &Self) -> (Self, Self) {
        assert!(!b.is_zero());
        let n = b.norm();
        let w = self.mul(&b.conj());
        let q = Quad { a: div_round_z(&w.a, &n), b: div_round_z(&w.b, &n) };
        let r = self.sub(&q.mul(b));
        (q, r)
    }
    fn exact_div(&self, b: &Self) -> Option<Self> {
        if b.is_zero() {
            return None;
        }
        let n = b.norm();
        let w = self.mul(&b.conj());
        if (&w.a % &n).is_zero() && (&w.b % &n).is_zero() {
            Some(Quad { a: &w.a / &n, b: &w.b / &n })
        } else {
            None
        }
    }
    fn unit_list() -> Vec<Self> {
        match D {
            -1 => vec![Quad::of(1, 0), Quad::of(0, 1), Quad::of(-1, 0), Quad::of(0, -1)],
            -3 => vec![
                Quad::of(1, 0),
                Quad::of(0, 1),
                Quad::of(-1, 1),
                Quad::of(-1, 0),
                Quad::of(0, -1),
                Quad::of(1, -1),
            ],
            _ => vec![Quad::of(1, 0), Quad::of(-1, 0)],
        }
    }
}

// ---- dense univariate polynomials over a field --------------------------------------------

pub trait RefField: RefEuclid {
    fn finv(&self) -> Self {
        self.inverse().expect("inverse of zero")
    }
}
impl RefField for Q {}
impl<const P: u32> RefField for Fp<P> {}

#[derive(Clone, PartialEq, Eq, Hash)]
pub struct UPoly<K: RefField> {
    /// coefficients, low degree first, no trailing zero
    pub c: Vec<K>,
}

impl<K: RefField> Debug for UPoly<K> {
    fn fmt(&self, f: &mut std::fmt::Formatter<'_>) -> std::fmt::Result {
        write!(f, "{:?}", self.c)
    }
}

impl<K: RefField> UPoly<K> {
    pub fn new(mut c: Vec<K>) -> Self {
        while c.last().map(|x| x.is_zero()).unwrap_or(false) {
            c.pop();
        }
        UPoly { c }
    }
    pub fn deg(&self) -> Option<usize> {
        if self.c.is_empty() {
            None
        } else {
            Some(self.c.len() - 1)
        }
    }
    pub fn lead(&self) -> Option<&K> {
        self.c.last()
    }
    pub fn eval(&self, x: &K) -> K {
        self.c.iter().rev().fold(K::zero(), |acc, c| acc.mul(x).add(c))
    }
}

impl<K: RefField> RefRing for UPoly<K> {
    fn zero() -> Self {
        UPoly { c: vec![] }
    }
    fn one() -> Self {
        UPoly::new(vec![K::one()])
    }
    fn add(&self, o: &Self) -> Self {
        let n = self.c.len().max(o.c.len());
        let z = K::zero();
        UPoly::new((0..n).map(|i| self.c.get(i).unwrap_or(&z).add(o.c.get(i).unwrap_or(&z))).collect())
    }
    fn sub(&self, o: &Self) -> Self {
        self.add(&o.neg())
    }
    fn mul(&self, o: &Self) -> Self {
        if self.c.is_empty() || o.c.is_empty() {
            return Self::zero();
        }
        let mut r = vec![K::zero(); self.c.len() + o.c.len() - 1];
        for (i, a) in self.c.iter().enumerate() {
            for (j, b) in o.c.iter().enumerate() {
                r[i + j] = r[i + j].add(&a.mul(b));
            }
        }
        UPoly::new(r)
    }
    fn neg(&self) -> Self {
        UPoly::new(self.c.iter().map(|x| x.neg()).collect())
    }
    fn is_zero(&self) -> bool {
        self.c.is_empty()
    }
    fn from_i64(i: i64) -> Self {
        UPoly::new(vec![K::from_i64(i)])
    }
}

impl<K: RefField> RefEuclid for UPoly<K> {
    fn eucl(&self) -> Option<Z> {
        self.deg().map(|d| z(d as i64))
    }
    fn div_rem(&self, b: &Self) -> (Self, Self) {
        assert!(!b.c.is_empty());
        let db = b.c.len() - 1;
        let lb_inv = b.c[db].finv();
        let mut r = self.c.clone();
        let mut q = vec![K::zero(); (self.c.len()).saturating_sub(db)];
        while r.len() > db {
            let k = r.len() - 1 - db;
            let coef = r[r.len() - 1].mul(&lb_inv);
            for (j, bj) in b.c.iter().enumerate() {
                r[k + j] = r[k + j].sub(&coef.mul(bj));
            }
            q[k] = coef;
            // leading coefficient is now zero
            r.pop();
            while r.last().map(|x| x.is_zero()).unwrap_or(false) && r.len() > db {
                r.pop();
            }
        }
        (UPoly::new(q), UPoly::new(r))
    }
    fn unit_list() -> Vec<Self> {
        K::unit_list().into_iter().map(|u| UPoly::new(vec![u])).collect()
    }
}

#[cfg(test)]
mod tests {
    use super::*;

    #[test]
    fn rounding() {
        for a in -20i64..=20 {
            for b in (-7i64..=7).filter(|b| *b != 0) {
                let q = div_round_z(&z(a), &z(b));
                assert!(is_rounded_quotient(&z(a), &z(b), &q), "{a}/{b} -> {q}");
            }
        }
        let big = BigInt::from(1u8) << 53;
        assert_eq!(div_round_z(&(&big + 1), &z(1)), &big + 1);
    }

    #[test]
    fn gauss_eisen_euclid() {
        fn chk<const D: i64>() {
            for a in -4..=4 {
                for b in -4..=4 {
                    for c in -3..=3 {
                        for d in -3..=3 {
                            if c == 0 && d == 0 {
                                continue;
                            }
                            let (x, y) = (Quad::<D>::of(a, b), Quad::<D>::of(c, d));
                            let (q, r) = x.div_rem(&y);
                            assert_eq!(q.mul(&y).add(&r), x);
                            assert!(r.is_zero() || r.eucl() < y.eucl());
                            let g = x.gcd(&y);
                            assert!(g.divides(&x) && g.divides(&y));
                        }
                    }
                }
            }
            for u in Quad::<D>::unit_list() {
                assert!(u.is_unit());
            }
        }
        chk::<-1>();
        chk::<-3>();
    }

    #[test]
    fn poly_div() {
        type P = UPoly<Fp<3>>;
        let a = P::new(vec![Fp(1), Fp(2), Fp(0), Fp(1)]);
        let b = P::new(vec![Fp(2), Fp(1)]);
        let (q, r) = a.div_rem(&b);
        assert_eq!(q.mul(&b).add(&r), a);
        assert!(r.deg() < b.deg());
        let x = UPoly::<Q>::new(vec![Q::int(0), Q::int(2)]);
        let y = UPoly::<Q>::new(vec![Q::int(0), Q::int(0), Q::int(4)]);
        assert!(x.gcd(&y).associated(&UPoly::new(vec![Q::int(0), Q::int(1)])));
    }
}

// ---- quadratic number field Q(sqrt D) in the (1, omega) basis (for exact Gram-Schmidt) ---------

#[derive(Clone, PartialEq, Eq, Hash)]
pub struct QF<const D: i64> {
    pub a: Q,
    pub b: Q,
}

impl<const D: i64> Debug for QF<D> {
    fn fmt(&self, f: &mut std::fmt::Formatter<'_>) -> std::fmt::Result {
        write!(f, "({:?},{:?})", self.a, self.b)
    }
}

impl<const D: i64> QF<D> {
    pub fn from_quad(x: &Quad<D>) -> Self {
        QF { a: Q::from_z(x.a.clone()), b: Q::from_z(x.b.clone()) }
    }
    pub fn rational(a: Q) -> Self {
        QF { a, b: Q::int(0) }
    }
    pub fn conj(&self) -> Self {
        if Quad::<D>::is_type1() {
            QF { a: self.a.add(&self.b), b: self.b.neg() }
        } else {
            QF { a: self.a.clone(), b: self.b.neg() }
        }
    }
    /// x * conj(x), a rational number
    pub fn norm(&self) -> Q {
        let n = self.mul(&self.conj());
        assert!(n.b.is_zero());
        n.a
    }
    pub fn inv(&self) -> Option<Self> {
        let n = self.norm();
        let ni = n.inv()?;
        let c = self.conj();
        Some(QF { a: c.a.mul(&ni), b: c.b.mul(&ni) })
    }
}

impl<const D: i64> RefRing for QF<D> {
    fn zero() -> Self {
        QF { a: Q::int(0), b: Q::int(0) }
    }
    fn one() -> Self {
        QF { a: Q::int(1), b: Q::int(0) }
    }
    fn add(&self, o: &Self) -> Self {
        QF { a: self.a.add(&o.a), b: self.b.add(&o.b) }
    }
    fn sub(&self, o: &Self) -> Self {
        QF { a: self.a.sub(&o.a), b: self.b.sub(&o.b) }
    }
    fn mul(&self, o: &Self) -> Self {
        let (a, b, c, d) = (&self.a, &self.b, &o.a, &o.b);
        let bd = b.mul(d);
        if Quad::<D>::is_type1() {
            let e = Q::int((D - 1) / 4);
            QF { a: a.mul(c).add(&bd.mul(&e)), b: a.mul(d).add(&b.mul(c)).add(&bd) }
        } else {
            QF { a: a.mul(c).add(&bd.mul(&Q::int(D))), b: a.mul(d).add(&b.mul(c)) }
        }
    }
    fn neg(&self) -> Self {
        QF { a: self.a.neg(), b: self.b.neg() }
    }
    fn is_zero(&self) -> bool {
        self.a.is_zero() && self.b.is_zero()
    }
    fn from_i64(i: i64) -> Self {
        QF { a: Q::int(i), b: Q::int(0) }
    }
}
