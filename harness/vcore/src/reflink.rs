//! Reference model of oriented planar link diagrams (no dependency on any `yui` crate).
//!
//! A diagram with n crossings is stored as a *directed* structure: crossing c has four slots
//! 0..3 in counter-clockwise order, slot 0 = incoming under strand, slot 2 = outgoing under
//! strand; the over strand runs 3 -> 1 (`dir[c] = true`, a positive crossing) or 1 -> 3
//! (`dir[c] = false`, negative).  Darts are numbered 4c + slot; `partner` pairs every outgoing
//! dart with the incoming dart at the other end of the same edge.  PD codes are *emitted* from
//! this structure; everything else (components, signs, circles, bracket, Khovanov cube) is
//! computed here, independently of the library.

use crate::refmat::RMat;
use crate::refnum::*;
use std::collections::BTreeMap;

pub type Code = Vec<[usize; 4]>;

#[derive(Clone, Debug, PartialEq, Eq, Hash)]
pub struct Diagram {
    pub n: usize,
    pub dir: Vec<bool>,
    pub partner: Vec<usize>,
}

fn uf_find(p: &mut Vec<usize>, x: usize) -> usize {
    let mut r = x;
    while p[r] != r {
        r = p[r];
    }
    let mut y = x;
    while p[y] != r {
        let nx = p[y];
        p[y] = r;
        y = nx;
    }
    r
}
fn uf_union(p: &mut Vec<usize>, a: usize, b: usize) {
    let (ra, rb) = (uf_find(p, a), uf_find(p, b));
    if ra != rb {
        let (lo, hi) = if ra < rb { (ra, rb) } else { (rb, ra) };
        p[hi] = lo;
    }
}

impl Diagram {
    pub fn over_out(&self, c: usize) -> usize {
        if self.dir[c] {
            1
        } else {
            3
        }
    }
    pub fn over_in(&self, c: usize) -> usize {
        if self.dir[c] {
            3
        } else {
            1
        }
    }
    pub fn is_out(&self, dart: usize) -> bool {
        let (c, s) = (dart / 4, dart % 4);
        s == 2 || s == self.over_out(c)
    }
    /// outgoing darts in canonical order (crossing by crossing: under-out, then over-out)
    pub fn out_darts(&self) -> Vec<usize> {
        (0..self.n).flat_map(|c| [4 * c + 2, 4 * c + self.over_out(c)]).collect()
    }
    pub fn in_darts(&self) -> Vec<usize> {
        (0..self.n).flat_map(|c| [4 * c, 4 * c + self.over_in(c)]).collect()
    }

    /// `matching[k]` = index (into `in_darts()`) that the k-th outgoing dart is glued to
    pub fn from_matching(dir: Vec<bool>, matching: &[usize]) -> Diagram {
        let n = dir.len();
        let mut d = Diagram { n, dir, partner: vec![usize::MAX; 4 * n] };
        let (outs, ins) = (d.out_darts(), d.in_darts());
        for (k, &m) in matching.iter().enumerate() {
            d.partner[outs[k]] = ins[m];
            d.partner[ins[m]] = outs[k];
        }
        d
    }

    /// edge id of every dart: edges are numbered 0..2n in the order of `out_darts()`
    pub fn edge_of_dart(&self) -> Vec<usize> {
        let mut e = vec![usize::MAX; 4 * self.n];
        for (k, &o) in self.out_darts().iter().enumerate() {
            e[o] = k;
            e[self.partner[o]] = k;
        }
        e
    }

    pub fn well_formed(&self) -> bool {
        (0..4 * self.n).all(|d| {
            let p = self.partner[d];
            p < 4 * self.n && self.partner[p] == d && self.is_out(d) != self.is_out(p)
        })
    }

    /// number of connected components of the underlying 4-valent graph
    pub fn connected_components(&self) -> usize {
        let mut p: Vec<usize> = (0..self.n).collect();
        for d in 0..4 * self.n {
            uf_union(&mut p, d / 4, self.partner[d] / 4);
        }
        (0..self.n).filter(|&c| uf_find(&mut p, c) == c).count()
    }

    /// planar (every connected component embeds in the sphere with the given rotation system)
    pub fn is_planar(&self) -> bool {
        // faces = orbits of dart -> next dart in rotation after crossing the edge
        let m = 4 * self.n;
        let mut seen = vec![false; m];
        let mut faces = 0;
        for d0 in 0..m {
            if seen[d0] {
                continue;
            }
            faces += 1;
            let mut d = d0;
            loop {
                seen[d] = true;
                let p = self.partner[d];
                d = (p / 4) * 4 + (p % 4 + 1) % 4;
                if d == d0 {
                    break;
                }
            }
        }
        // per component V - E + F = 2 and E = 2V  =>  F_total = V + 2 * components; the genus of
        // every component is >= 0, so equality of the totals forces every component to genus 0.
        faces == self.n + 2 * self.connected_components()
    }

    /// PD code with edge k labelled `label(k)`
    pub fn pd_with(&self, label: &dyn Fn(usize) -> usize) -> Code {
        let e = self.edge_of_dart();
        (0..self.n).map(|c| [label(e[4 * c]), label(e[4 * c + 1]), label(e[4 * c + 2]), label(e[4 * c + 3])]).collect()
    }
    pub fn pd(&self) -> Code {
        self.pd_with(&|k| k + 1)
    }

    /// link components as cyclic lists of edge ids, in the direction of travel
    pub fn components(&self) -> Vec<Vec<usize>> {
        let e = self.edge_of_dart();
        let mut seen = vec![false; 2 * self.n];
        let mut out = vec![];
        for &o0 in &self.out_darts() {
            if seen[e[o0]] {
                continue;
            }
            let mut comp = vec![];
            let mut o = o0;
            loop {
                seen[e[o]] = true;
                comp.push(e[o]);
                let i = self.partner[o]; // incoming dart at the next crossing
                let (c, s) = (i / 4, i % 4);
                o = 4 * c + (s + 2) % 4; // pass straight through
                if o == o0 {
                    break;
                }
            }
            out.push(comp);
        }
        out
    }

    /// for every crossing: (component index of the under strand, of the over strand)
    pub fn crossing_components(&self) -> Vec<(usize, usize)> {
        let e = self.edge_of_dart();
        let comps = self.components();
        let mut of_edge = vec![0; 2 * self.n];
        for (k, c) in comps.iter().enumerate() {
            for &x in c {
                of_edge[x] = k;
            }
        }
        (0..self.n).map(|c| (of_edge[e[4 * c]], of_edge[e[4 * c + 1]])).collect()
    }

    pub fn sign(&self, c: usize) -> i64 {
        if self.dir[c] {
            1
        } else {
            -1
        }
    }
    pub fn n_pos(&self) -> usize {
        self.dir.iter().filter(|d| **d).count()
    }
    pub fn n_neg(&self) -> usize {
        self.n - self.n_pos()
    }
    pub fn writhe(&self) -> i64 {
        self.n_pos() as i64 - self.n_neg() as i64
    }

    /// circles of the resolution `state` (bit c = 1: 1-resolution (0,3)(1,2); 0: (0,1)(2,3)):
    /// class index of every edge and the number of circles; classes are numbered by smallest edge
    pub fn circles(&self, state: u32) -> (Vec<usize>, usize) {
        let e = self.edge_of_dart();
        let mut p: Vec<usize> = (0..2 * self.n).collect();
        for c in 0..self.n {
            let s = |k: usize| e[4 * c + k];
            if state >> c & 1 == 0 {
                uf_union(&mut p, s(0), s(1));
                uf_union(&mut p, s(2), s(3));
            } else {
                uf_union(&mut p, s(0), s(3));
                uf_union(&mut p, s(1), s(2));
            }
        }
        let mut idx = BTreeMap::new();
        let mut class = vec![0; 2 * self.n];
        for x in 0..2 * self.n {
            let r = uf_find(&mut p, x);
            let k = idx.len();
            class[x] = *idx.entry(r).or_insert(k);
        }
        (class, idx.len())
    }

    /// number of closed curves of the partially resolved diagram: crossing c is smoothed by
    /// `partial[c] = Some(bit)` (same convention as `circles`) or left as a crossing (`None`: the
    /// strands pass straight through, slots 0-2 and 1-3)
    pub fn curves(&self, partial: &[Option<bool>]) -> usize {
        let e = self.edge_of_dart();
        let mut p: Vec<usize> = (0..2 * self.n).collect();
        for c in 0..self.n {
            let s = |k: usize| e[4 * c + k];
            match partial[c] {
                None => {
                    uf_union(&mut p, s(0), s(2));
                    uf_union(&mut p, s(1), s(3));
                }
                Some(false) => {
                    uf_union(&mut p, s(0), s(1));
                    uf_union(&mut p, s(2), s(3));
                }
                Some(true) => {
                    uf_union(&mut p, s(0), s(3));
                    uf_union(&mut p, s(1), s(2));
                }
            }
        }
        let mut roots = std::collections::BTreeSet::new();
        for x in 0..2 * self.n {
            roots.insert(uf_find(&mut p, x));
        }
        roots.len()
    }

    /// Parses a PD code (slot 0 = incoming under strand, counter-clockwise) into the directed
    /// structure.  Over-strand directions are inferred from the under strands; a component that
    /// never passes under gets the direction that makes its first over slot (in crossing order)
    /// run 3 -> 1.  Returns `None` if the code is not a consistently oriented diagram.
    /// Also returns the label of every edge id.
    pub fn from_pd(code: &[[usize; 4]]) -> Option<(Diagram, Vec<usize>)> {
        let n = code.len();
        // the two darts of every label
        let mut ends: BTreeMap<usize, Vec<usize>> = BTreeMap::new();
        for (c, x) in code.iter().enumerate() {
            for (s, &l) in x.iter().enumerate() {
                ends.entry(l).or_default().push(4 * c + s);
            }
        }
        if ends.values().any(|v| v.len() != 2) {
            return None;
        }
        let other = |dart: usize| -> usize {
            let v = &ends[&code[dart / 4][dart % 4]];
            if v[0] == dart {
                v[1]
            } else {
                v[0]
            }
        };
        // out[dart] = Some(true) if the dart is outgoing
        let mut out: Vec<Option<bool>> = vec![None; 4 * n];
        let mut stack = vec![];
        for c in 0..n {
            out[4 * c] = Some(false);
            out[4 * c + 2] = Some(true);
            stack.push(4 * c);
            stack.push(4 * c + 2);
        }
        let mut next_free = 0;
        loop {
            while let Some(d) = stack.pop() {
                let v = out[d].unwrap();
                // the opposite slot of the same strand has the opposite role
                let (c, s) = (d / 4, d % 4);
                for (e, val) in [(4 * c + (s + 2) % 4, !v), (other(d), !v)] {
                    match out[e] {
                        None => {
                            out[e] = Some(val);
                            stack.push(e);
                        }
                        Some(x) if x != val => return None,
                        _ => {}
                    }
                }
            }
            // a component that never passes under: pick a direction
            while next_free < n && out[4 * next_free + 1].is_some() {
                next_free += 1;
            }
            if next_free == n {
                break;
            }
            out[4 * next_free + 1] = Some(true); // over runs 3 -> 1
            stack.push(4 * next_free + 1);
        }
        let dir: Vec<bool> = (0..n).map(|c| out[4 * c + 1] == Some(true)).collect();
        let mut d = Diagram { n, dir, partner: vec![0; 4 * n] };
        for x in 0..4 * n {
            d.partner[x] = other(x);
        }
        if !d.well_formed() {
            return None;
        }
        let labels: Vec<usize> = d.out_darts().iter().map(|&o| code[o / 4][o % 4]).collect();
        Some((d, labels))
    }

    // ---- moves ---------------------------------------------------------------------------------

    /// switches over/under at crossing c (slots are re-based at the new under strand)
    pub fn crossing_change(&self, c: usize) -> Diagram {
        let rot = self.over_in(c); // old slot that becomes slot 0
        let mut d = self.clone();
        d.dir[c] = !self.dir[c];
        let remap = |dart: usize| -> usize {
            if dart / 4 == c {
                4 * c + (dart % 4 + 4 - rot) % 4
            } else {
                dart
            }
        };
        for old in 0..4 * self.n {
            d.partner[remap(old)] = remap(self.partner[old]);
        }
        d
    }

    pub fn mirror(&self) -> Diagram {
        (0..self.n).fold(self.clone(), |d, c| d.crossing_change(c))
    }

    /// reverses the orientation of every component
    pub fn reverse_all(&self) -> Diagram {
        // every strand runs backwards: the under strand now enters at old slot 2 -> rotate by 2;
        // over direction relative to the new slots: old 3->1 becomes 1->3 in old slots = 3->1 in new
        let mut d = self.clone();
        let remap = |dart: usize| 4 * (dart / 4) + (dart % 4 + 2) % 4;
        for old in 0..4 * self.n {
            d.partner[remap(old)] = remap(self.partner[old]);
        }
        d
    }

    /// crossings listed in the order perm[0], perm[1], ...
    pub fn reorder(&self, perm: &[usize]) -> Diagram {
        let mut pos = vec![0; self.n];
        for (newc, &oldc) in perm.iter().enumerate() {
            pos[oldc] = newc;
        }
        let remap = |dart: usize| 4 * pos[dart / 4] + dart % 4;
        let mut d = Diagram { n: self.n, dir: perm.iter().map(|&c| self.dir[c]).collect(), partner: vec![0; 4 * self.n] };
        for old in 0..4 * self.n {
            d.partner[remap(old)] = remap(self.partner[old]);
        }
        d
    }

    /// Reidemeister I: inserts a kink on the edge leaving through outgoing dart `out`.
    /// `positive`: sign of the new crossing; `under_first`: the edge first runs along the new
    /// under strand (then around the loop and back along the over strand) or the other way round.
    pub fn r1(&self, out: usize, positive: bool, under_first: bool) -> Diagram {
        assert!(self.is_out(out));
        let inn = self.partner[out];
        let c = self.n;
        let mut d = Diagram { n: self.n + 1, dir: self.dir.clone(), partner: self.partner.clone() };
        d.dir.push(positive);
        d.partner.extend([usize::MAX; 4]);
        let (uo, ui) = (4 * c + 2, 4 * c);
        let (oo, oi) = (4 * c + d.over_out(c), 4 * c + d.over_in(c));
        let mut glue = |a: usize, b: usize| {
            d.partner[a] = b;
            d.partner[b] = a;
        };
        if under_first {
            glue(out, ui);
            glue(uo, oi);
            glue(oo, inn);
        } else {
            glue(out, oi);
            glue(oo, ui);
            glue(uo, inn);
        }
        d
    }

    /// Reidemeister II at the PD level: every way of pushing a finger of edge `a` over (or under)
    /// edge `b` across a common face.  Generated combinatorially: two new crossings x, y on the
    /// two edges, both directions of b relative to a, both over/under choices, all sign choices;
    /// kept iff well formed, planar, of opposite signs, `a` on the same level at both crossings and
    /// the two new edge segments between x and y bound a bigon FACE (so the bigon is empty and the
    /// inverse R2 move restores the original diagram).  Contains parallel and antiparallel R2,
    /// between the same or different components.
    pub fn r2_moves(&self) -> Vec<Diagram> {
        let outs = self.out_darts();
        let mut res = vec![];
        for &oa in &outs {
            for &ob in &outs {
                if oa == ob {
                    continue;
                }
                let (ia, ib) = (self.partner[oa], self.partner[ob]);
                for code in 0..16u32 {
                    let (dirx, diry, a_over, b_rev) = (code & 1 == 1, code & 2 != 0, code & 4 != 0, code & 8 != 0);
                    if dirx == diry {
                        continue; // R2 crossings have opposite signs
                    }
                    let n = self.n;
                    let (x, y) = (n, n + 1);
                    let mut d = Diagram { n: n + 2, dir: self.dir.clone(), partner: self.partner.clone() };
                    d.dir.push(dirx);
                    d.dir.push(diry);
                    d.partner.extend([usize::MAX; 8]);
                    let slots = |d: &Diagram, c: usize, over: bool| -> (usize, usize) {
                        // (incoming dart, outgoing dart) of the over / under strand at crossing c
                        if over {
                            (4 * c + d.over_in(c), 4 * c + d.over_out(c))
                        } else {
                            (4 * c, 4 * c + 2)
                        }
                    };
                    let (ax_in, ax_out) = slots(&d, x, a_over);
                    let (ay_in, ay_out) = slots(&d, y, a_over);
                    let (bx_in, bx_out) = slots(&d, x, !a_over);
                    let (by_in, by_out) = slots(&d, y, !a_over);
                    let mut glue = |p: usize, q: usize| {
                        d.partner[p] = q;
                        d.partner[q] = p;
                    };
                    // strand a: oa -> x -> y -> ia
                    glue(oa, ax_in);
                    glue(ax_out, ay_in);
                    glue(ay_out, ia);
                    // strand b: ob -> first -> second -> ib
                    let (b_seg_out, _b_seg_in);
                    if !b_rev {
                        glue(ob, bx_in);
                        glue(bx_out, by_in);
                        glue(by_out, ib);
                        b_seg_out = bx_out;
                        _b_seg_in = by_in;
                    } else {
                        glue(ob, by_in);
                        glue(by_out, bx_in);
                        glue(bx_out, ib);
                        b_seg_out = by_out;
                        _b_seg_in = bx_in;
                    }
                    if !d.well_formed() || !d.is_planar() {
                        continue;
                    }
                    // bigon face: the orbit of one of the two darts of a's middle segment under
                    // dart -> rot(partner(dart)) has length 2 and consists of the two middle segments
                    let next = |dd: usize| {
                        let p = d.partner[dd];
                        (p / 4) * 4 + (p % 4 + 1) % 4
                    };
                    let seg_b: [usize; 2] = [b_seg_out, d.partner[b_seg_out]];
                    let mut bigon = false;
                    for start in [ax_out, d.partner[ax_out]] {
                        let s1 = next(start);
                        if next(s1) == start && seg_b.contains(&s1) {
                            bigon = true;
                        }
                    }
                    if bigon {
                        res.push(d);
                    }
                }
            }
        }
        res.sort_by(|p, q| (&p.dir, &p.partner).cmp(&(&q.dir, &q.partner)));
        res.dedup();
        res
    }

    /// Reidemeister III at the PD level: for every triangular face whose three crossings are
    /// distinct and whose three strands are linearly ordered by height (one strand over both others,
    /// one under both), slide: along each of the three strands the two triangle crossings are
    /// visited in the opposite order.  Kept iff the re-gluing is consistent, well formed and planar.
    /// All orientations of the three strands occur (braid-like and non-braid-like R3).
    pub fn r3_moves(&self) -> Vec<Diagram> {
        let m = 4 * self.n;
        let next = |d: usize| {
            let p = self.partner[d];
            (p / 4) * 4 + (p % 4 + 1) % 4
        };
        let mut res = vec![];
        let mut seen_face = vec![false; m];
        for d0 in 0..m {
            if seen_face[d0] {
                continue;
            }
            // collect the face orbit
            let mut face = vec![d0];
            let mut d = next(d0);
            while d != d0 {
                face.push(d);
                d = next(d);
            }
            for &x in &face {
                seen_face[x] = true;
            }
            if face.len() != 3 {
                continue;
            }
            let cr: Vec<usize> = face.iter().map(|x| x / 4).collect();
            if cr[0] == cr[1] || cr[1] == cr[2] || cr[0] == cr[2] {
                continue;
            }
            // sides: edge {face[k], partner(face[k])}; oriented from its out dart to its in dart
            let mut strands = vec![]; // (p_in, p_out, q_in, q_out)
            for &x in &face {
                let y = self.partner[x];
                let (o, i) = if self.is_out(x) { (x, y) } else { (y, x) };
                let p_in = (o / 4) * 4 + (o % 4 + 2) % 4;
                let q_out = (i / 4) * 4 + (i % 4 + 2) % 4;
                strands.push((p_in, o, i, q_out));
            }
            // heights: a strand is "over" at a crossing iff it uses slots 1/3 there
            let over = |dart: usize| dart % 2 == 1;
            let levels: Vec<(bool, bool)> = strands.iter().map(|s| (over(s.1), over(s.2))).collect();
            let tops = levels.iter().filter(|l| l.0 && l.1).count();
            let bottoms = levels.iter().filter(|l| !l.0 && !l.1).count();
            if tops != 1 || bottoms != 1 {
                continue;
            }
            // every component is a cyclic sequence of passages (in dart, out dart); the move swaps,
            // for each of the three strands, the two consecutive passages through the triangle
            // crossings; the edges are then re-glued along the new sequences
            let mut comps: Vec<Vec<(usize, usize)>> = vec![];
            {
                let mut seen = vec![false; m];
                for &o0 in &self.out_darts() {
                    if seen[o0] {
                        continue;
                    }
                    let mut comp = vec![];
                    let mut o = o0;
                    loop {
                        seen[o] = true;
                        let i = self.partner[o];
                        let o2 = (i / 4) * 4 + (i % 4 + 2) % 4;
                        comp.push((i, o2));
                        o = o2;
                        if o == o0 {
                            break;
                        }
                    }
                    comps.push(comp);
                }
            }
            let mut ok = true;
            for &(_p_in, p_out, q_in, _q_out) in &strands {
                // find the passage with out dart p_out; the next one must have in dart q_in
                let mut done = false;
                for comp in comps.iter_mut() {
                    let l = comp.len();
                    if let Some(k) = comp.iter().position(|x| x.1 == p_out) {
                        let k2 = (k + 1) % l;
                        if comp[k2].0 != q_in || l < 2 {
                            ok = false;
                        } else {
                            comp.swap(k, k2);
                        }
                        done = true;
                        break;
                    }
                }
                if !done {
                    ok = false;
                }
            }
            if !ok {
                continue;
            }
            let mut np = vec![usize::MAX; m];
            for comp in &comps {
                let l = comp.len();
                for k in 0..l {
                    let (out, inn) = (comp[k].1, comp[(k + 1) % l].0);
                    np[out] = inn;
                    np[inn] = out;
                }
            }
            let d2 = Diagram { n: self.n, dir: self.dir.clone(), partner: np };
            if d2.well_formed() && d2.is_planar() && d2 != *self {
                res.push(d2);
            }
        }
        res
    }

    // ---- Kauffman state sum ------------------------------------------------------------------------

    /// unnormalised Jones polynomial in q (exponent -> coefficient):
    /// (-1)^{n-} q^{n+ - 2n-} * sum_s (-q)^{|s|} (q + 1/q)^{circles(s)}
    pub fn jones(&self) -> BTreeMap<i64, Z> {
        let mut acc: BTreeMap<i64, Z> = BTreeMap::new();
        let (np, nn) = (self.n_pos() as i64, self.n_neg() as i64);
        for s in 0..(1u32 << self.n) {
            let w = s.count_ones() as i64;
            let (_, r) = self.circles(s);
            // (q + 1/q)^r = sum_k C(r,k) q^{r-2k}
            let sign = if (w + nn) % 2 == 0 { 1 } else { -1 };
            let mut binom = Z::from(1);
            for k in 0..=r as i64 {
                let e = w + np - 2 * nn + (r as i64 - 2 * k);
                let v = acc.entry(e).or_insert_with(|| Z::from(0));
                *v = &*v + &binom * Z::from(sign);
                binom = binom * Z::from(r as i64 - k) / Z::from(k + 1);
            }
        }
        acc.retain(|_, v| !v.is_zero());
        acc
    }
}

// ---- exhaustive generator ------------------------------------------------------------------------

fn permutations(n: usize) -> Vec<Vec<usize>> {
    let mut out = vec![];
    let mut cur: Vec<usize> = (0..n).collect();
    fn rec(k: usize, cur: &mut Vec<usize>, out: &mut Vec<Vec<usize>>) {
        if k == cur.len() {
            out.push(cur.clone());
            return;
        }
        for i in k..cur.len() {
            cur.swap(k, i);
            rec(k + 1, cur, out);
            cur.swap(k, i);
        }
    }
    rec(0, &mut cur, &mut out);
    out.sort();
    out
}

pub fn all_permutations(n: usize) -> Vec<Vec<usize>> {
    permutations(n)
}

/// ALL oriented planar link diagrams with n crossings (as labelled structures): every
/// over-direction vector x every gluing of the 2n outgoing to the 2n incoming darts, kept iff
/// planar.  Contains kinks, split diagrams, multi-component links, components that only pass over.
pub fn all_planar_diagrams(n: usize) -> Vec<Diagram> {
    let mut out = vec![];
    if n == 0 {
        return vec![Diagram { n: 0, dir: vec![], partner: vec![] }];
    }
    let perms = permutations(2 * n);
    for dirs in 0..(1u32 << n) {
        let dir: Vec<bool> = (0..n).map(|c| dirs >> c & 1 == 1).collect();
        for m in &perms {
            let d = Diagram::from_matching(dir.clone(), m);
            if d.is_planar() {
                out.push(d);
            }
        }
    }
    out
}

// ---- braids -----------------------------------------------------------------------------------

/// closure of a braid word on `strands` strands (letters ±1..±(strands-1)); strands run downwards,
/// positive letter = positive crossing.  `None` if some strand meets no crossing (free loop).
pub fn braid_closure(strands: usize, word: &[i32]) -> Option<Diagram> {
    let n = word.len();
    // bottom[i] = outgoing dart currently hanging at position i (None = the top of strand i)
    let mut bottom: Vec<Option<usize>> = vec![None; strands];
    let mut top_in: Vec<Option<usize>> = vec![None; strands]; // incoming dart that closes position i
    let mut d = Diagram { n, dir: word.iter().map(|&g| g > 0).collect(), partner: vec![usize::MAX; 4 * n] };
    for (c, &g) in word.iter().enumerate() {
        let i = (g.unsigned_abs() as usize) - 1;
        assert!(i + 1 < strands);
        // left-top strand goes to right-bottom; positive: left-top is the under strand
        let (lt_in, rt_in, lb_out, rb_out) = if g > 0 {
            (4 * c, 4 * c + 3, 4 * c + 1, 4 * c + 2)
        } else {
            // negative [b, a, c, d]: under-in is the right-top strand
            (4 * c + 1, 4 * c, 4 * c + 2, 4 * c + 3)
        };
        for (pos, inn) in [(i, lt_in), (i + 1, rt_in)] {
            match bottom[pos] {
                Some(o) => {
                    d.partner[o] = inn;
                    d.partner[inn] = o;
                }
                None => top_in[pos] = Some(inn),
            }
        }
        bottom[i] = Some(lb_out);
        bottom[i + 1] = Some(rb_out);
    }
    for pos in 0..strands {
        match (bottom[pos], top_in[pos]) {
            (Some(o), Some(inn)) => {
                d.partner[o] = inn;
                d.partner[inn] = o;
            }
            _ => return None,
        }
    }
    debug_assert!(d.well_formed());
    Some(d)
}

// ---- Khovanov cube --------------------------------------------------------------------------------

#[derive(Clone, Debug, PartialEq, Eq)]
pub struct Module<T> {
    pub rank: usize,
    /// non-unit invariant factors (torsion orders), up to units
    pub tors: Vec<T>,
}

impl<T: RefEuclid> Module<T> {
    pub fn is_zero(&self) -> bool {
        self.rank == 0 && self.tors.is_empty()
    }
    pub fn same(&self, rank: usize, tors: &[T]) -> bool {
        self.rank == rank && crate::refmat::same_factor_multiset(&self.tors, tors)
    }
}

#[derive(Clone, Debug)]
pub struct KhTable<T> {
    /// homological degree -> module
    pub total: BTreeMap<i64, Module<T>>,
    /// (i, j) -> module; only when h = t = 0
    pub bigraded: Option<BTreeMap<(i64, i64), Module<T>>>,
}

#[derive(Clone, Debug)]
pub struct CubeGen {
    pub state: u32,
    pub label: u32, // bit k = 1: X on circle k
    pub q: i64,
}

/// the cube of resolutions as explicit data
pub struct Cube<T: RefRing> {
    pub degs: Vec<i64>,
    /// generators per homological degree
    pub gens: BTreeMap<i64, Vec<CubeGen>>,
    /// (state, label) -> position inside its degree
    pub index: BTreeMap<(u32, u32), usize>,
    /// d_i : C^i -> C^{i+1}
    pub dmat: BTreeMap<i64, RMat<T>>,
    /// per state: circle class of every edge, number of circles
    pub circles: Vec<(Vec<usize>, usize)>,
}

/// The cube-of-resolutions complex of `d` over T with X^2 = hX + t.  `base_edge`: reduced
/// theory (requires t = 0): the subcomplex with X on the circle through that edge, q shifted by +1.
pub fn khovanov<T: RefEuclid>(d: &Diagram, h: &T, t: &T, base_edge: Option<usize>) -> KhTable<T> {
    let Cube { degs, gens, dmat, .. } = cube(d, h, t, base_edge);
    homology_of_complex(&degs, &gens, &dmat, h.is_zero() && t.is_zero())
}

pub fn cube<T: RefEuclid>(d: &Diagram, h: &T, t: &T, base_edge: Option<usize>) -> Cube<T> {
    assert!(base_edge.is_none() || t.is_zero());
    let n = d.n;
    let (np, nn) = (d.n_pos() as i64, d.n_neg() as i64);
    let e = d.edge_of_dart();
    let ncirc: Vec<(Vec<usize>, usize)> = (0..(1u32 << n)).map(|s| d.circles(s)).collect();
    // generators per homological degree
    let mut gens: BTreeMap<i64, Vec<CubeGen>> = BTreeMap::new();
    let mut index: BTreeMap<(u32, u32), usize> = BTreeMap::new();
    for s in 0..(1u32 << n) {
        let (class, r) = &ncirc[s as usize];
        let w = s.count_ones() as i64;
        for label in 0..(1u32 << r) {
            if let Some(be) = base_edge {
                if label >> class[be] & 1 == 0 {
                    continue;
                }
            }
            let nx = label.count_ones() as i64;
            let q = (*r as i64 - 2 * nx) + w + np - 2 * nn + if base_edge.is_some() { 1 } else { 0 };
            let v = gens.entry(w - nn).or_default();
            index.insert((s, label), v.len());
            v.push(CubeGen { state: s, label, q });
        }
    }
    if n == 0 {
        // the empty diagram: one generator in degree (0, 0)
    }
    // differentials
    let degs: Vec<i64> = (-nn..=(n as i64 - nn)).collect();
    let mut dmat: BTreeMap<i64, RMat<T>> = BTreeMap::new();
    for &i in &degs {
        let empty = vec![];
        let src = gens.get(&i).unwrap_or(&empty);
        let tgt = gens.get(&(i + 1)).unwrap_or(&empty);
        let mut m = RMat::<T>::zero(tgt.len(), src.len());
        for (col, g) in src.iter().enumerate() {
            let (class, _) = &ncirc[g.state as usize];
            for k in 0..n {
                if g.state >> k & 1 == 1 {
                    continue;
                }
                let s2 = g.state | 1 << k;
                let (class2, r2) = &ncirc[s2 as usize];
                let sign_neg = (g.state & ((1 << k) - 1)).count_ones() % 2 == 1;
                let edge = |slot: usize| e[4 * k + slot];
                let (a, b) = (class[edge(0)], class[edge(2)]);
                // labels of the untouched circles carry over (matched through any of their edges)
                let mut base_label = 0u32;
                let mut touched2 = vec![false; *r2];
                touched2[class2[edge(0)]] = true;
                touched2[class2[edge(1)]] = true;
                for x in 0..2 * n {
                    let c1 = class[x];
                    if c1 != a && c1 != b && g.label >> c1 & 1 == 1 {
                        base_label |= 1 << class2[x];
                    }
                }
                let mut terms: Vec<(u32, T)> = vec![];
                if a != b {
                    // merge A, B -> C
                    let c = class2[edge(0)];
                    let (xa, xb) = (g.label >> a & 1 == 1, g.label >> b & 1 == 1);
                    match (xa, xb) {
                        (false, false) => terms.push((base_label, T::one())),
                        (true, false) | (false, true) => terms.push((base_label | 1 << c, T::one())),
                        (true, true) => {
                            terms.push((base_label | 1 << c, h.clone()));
                            terms.push((base_label, t.clone()));
                        }
                    }
                } else {
                    // split A -> C1 (through slots 0,3), C2 (through slots 1,2)
                    let (c1, c2) = (class2[edge(0)], class2[edge(1)]);
                    debug_assert!(c1 != c2);
                    if g.label >> a & 1 == 0 {
                        // 1 -> X@1 + 1@X - h 1@1
                        terms.push((base_label | 1 << c1, T::one()));
                        terms.push((base_label | 1 << c2, T::one()));
                        terms.push((base_label, h.neg()));
                    } else {
                        // X -> X@X + t 1@1
                        terms.push((base_label | 1 << c1 | 1 << c2, T::one()));
                        terms.push((base_label, t.clone()));
                    }
                }
                for (lab, coef) in terms {
                    if coef.is_zero() {
                        continue;
                    }
                    let Some(&row) = index.get(&(s2, lab)) else {
                        // not in the reduced subcomplex: must not happen with a non-zero coefficient
                        panic!("reference cube: differential leaves the reduced subcomplex");
                    };
                    let v = if sign_neg { m.at(row, col).sub(&coef) } else { m.at(row, col).add(&coef) };
                    m.set(row, col, v);
                }
            }
        }
        dmat.insert(i, m);
    }
    // d o d = 0 (self-check of the reference)
    for &i in &degs {
        if let (Some(a), Some(b)) = (dmat.get(&i), dmat.get(&(i + 1))) {
            if a.m == b.n {
                assert!(b.mul(a).is_zero(), "reference cube: d∘d != 0");
            }
        }
    }
    Cube { degs, gens, index, dmat, circles: ncirc }
}

/// homology of a complex of q-graded generators (bigraded table only if `q_graded`)
pub fn homology_of_complex<T: RefEuclid>(degs: &[i64], gens: &BTreeMap<i64, Vec<CubeGen>>, dmat: &BTreeMap<i64, RMat<T>>, q_graded: bool) -> KhTable<T> {
    // rank(d) = number of invariant factors; torsion of H = non-unit invariant factors of d_in
    let module_of = |fin: &[T], fout: &[T], dim: usize| -> Module<T> {
        Module { rank: dim - fin.len() - fout.len(), tors: fin.iter().filter(|x| !x.is_unit()).cloned().collect() }
    };
    let none: Vec<T> = vec![];
    let bigraded = if q_graded {
        // d preserves q: work block by block
        let mut big = BTreeMap::new();
        let mut factors: BTreeMap<(i64, i64), Vec<T>> = BTreeMap::new(); // of d: C^{i,q} -> C^{i+1,q}
        let mut dims: BTreeMap<(i64, i64), usize> = BTreeMap::new();
        for &i in degs {
            let empty = vec![];
            let here = gens.get(&i).unwrap_or(&empty);
            let next = gens.get(&(i + 1)).unwrap_or(&empty);
            let mut qs: Vec<i64> = here.iter().map(|g| g.q).collect();
            qs.sort();
            qs.dedup();
            for q in qs {
                let sel = |v: &Vec<CubeGen>| -> Vec<usize> { v.iter().enumerate().filter(|(_, g)| g.q == q).map(|(k, _)| k).collect() };
                let (hs, ns) = (sel(here), sel(next));
                dims.insert((i, q), hs.len());
                if let Some(m) = dmat.get(&i).filter(|m| m.n == here.len()) {
                    if !ns.is_empty() {
                        factors.insert((i, q), m.submat(&ns, &hs).invariant_factors_by_elimination());
                    }
                }
            }
        }
        for (&(i, q), &dim) in &dims {
            let m = module_of(factors.get(&(i - 1, q)).unwrap_or(&none), factors.get(&(i, q)).unwrap_or(&none), dim);
            if !m.is_zero() {
                big.insert((i, q), m);
            }
        }
        Some(big)
    } else {
        None
    };
    let mut total = BTreeMap::new();
    if let Some(big) = &bigraded {
        // total homology = direct sum over q
        for (&(i, _), m) in big {
            let e = total.entry(i).or_insert(Module { rank: 0, tors: vec![] });
            e.rank += m.rank;
            e.tors.extend(m.tors.iter().cloned());
        }
    } else {
        let mut factors: BTreeMap<i64, Vec<T>> = BTreeMap::new();
        for (&i, m) in dmat {
            if m.m > 0 && m.n > 0 {
                factors.insert(i, m.invariant_factors_by_elimination());
            }
        }
        for &i in degs {
            let dim = gens.get(&i).map(|v| v.len()).unwrap_or(0);
            let m = module_of(factors.get(&(i - 1)).unwrap_or(&none), factors.get(&i).unwrap_or(&none), dim);
            if !m.is_zero() {
                total.insert(i, m);
            }
        }
    }
    KhTable { total, bigraded }
}

#[cfg(test)]
mod tests {
    use super::*;

    #[test]
    fn planar_counts() {
        assert_eq!(all_planar_diagrams(1).len(), 2);
        assert_eq!(all_planar_diagrams(2).len(), 24);
        assert_eq!(all_planar_diagrams(3).len(), 656);
    }

    fn trefoil() -> Diagram {
        braid_closure(2, &[1, 1, 1]).unwrap()
    }

    #[test]
    fn braid_basics() {
        let t = trefoil();
        assert!(t.well_formed() && t.is_planar());
        assert_eq!(t.components().len(), 1);
        assert_eq!(t.writhe(), 3);
        let hopf = braid_closure(2, &[1, 1]).unwrap();
        assert_eq!(hopf.components().len(), 2);
        assert!(braid_closure(3, &[1, 1]).is_none());
        let f8 = braid_closure(3, &[1, -2, 1, -2]).unwrap();
        assert!(f8.is_planar());
        assert_eq!(f8.components().len(), 1);
        assert_eq!(f8.writhe(), 0);
    }

    #[test]
    fn jones_of_trefoil_and_unknot_kink() {
        // positive (right-handed in this convention) trefoil: q + q^3 + q^5 - q^9
        let j = trefoil().jones();
        let want: BTreeMap<i64, Z> = [(1, 1), (3, 1), (5, 1), (9, -1)].into_iter().map(|(e, c)| (e, z(c))).collect();
        assert_eq!(j, want);
        for d in all_planar_diagrams(1) {
            let want: BTreeMap<i64, Z> = [(-1, 1), (1, 1)].into_iter().map(|(e, c)| (e, z(c))).collect();
            assert_eq!(d.jones(), want);
        }
    }

    #[test]
    fn khovanov_of_trefoil_hopf_figure8() {
        let k = khovanov::<Z>(&trefoil(), &z(0), &z(0), None);
        let b = k.bigraded.unwrap();
        let show: Vec<((i64, i64), usize, Vec<Z>)> = b.iter().map(|(k, m)| (*k, m.rank, m.tors.clone())).collect();
        assert_eq!(
            show,
            vec![((0, 1), 1, vec![]), ((0, 3), 1, vec![]), ((2, 5), 1, vec![]), ((3, 7), 0, vec![z(2)]), ((3, 9), 1, vec![])]
        );
        let hopf = braid_closure(2, &[1, 1]).unwrap();
        let k = khovanov::<Z>(&hopf, &z(0), &z(0), None);
        let ranks: Vec<((i64, i64), usize)> = k.bigraded.unwrap().iter().map(|(k, m)| (*k, m.rank)).collect();
        assert_eq!(ranks, vec![((0, 0), 1), ((0, 2), 1), ((2, 4), 1), ((2, 6), 1)]);
        let f8 = braid_closure(3, &[1, -2, 1, -2]).unwrap();
        let k = khovanov::<Z>(&f8, &z(0), &z(0), None);
        let tot: usize = k.total.values().map(|m| m.rank).sum();
        assert_eq!(tot, 6);
        // reduced trefoil: ranks 1 in (0,2), (2,6), (3,8)
        let k = khovanov::<Z>(&trefoil(), &z(0), &z(0), Some(0));
        let ranks: Vec<((i64, i64), usize)> = k.bigraded.unwrap().iter().map(|(k, m)| (*k, m.rank)).collect();
        assert_eq!(ranks, vec![((0, 2), 1), ((2, 6), 1), ((3, 8), 1)]);
        // Lee: (h,t) = (0,1) over Q has rank 2^components
        let k = khovanov::<Q>(&hopf, &Q::int(0), &Q::int(1), None);
        assert_eq!(k.total.values().map(|m| m.rank).sum::<usize>(), 4);
    }

    #[test]
    fn moves_preserve_jones() {
        let t = trefoil();
        assert_eq!(t.reverse_all().jones(), t.jones());
        assert_eq!(t.reorder(&[2, 0, 1]).jones(), t.jones());
        let m = t.mirror();
        let jm: BTreeMap<i64, Z> = t.jones().into_iter().map(|(e, c)| (-e, c)).collect();
        assert_eq!(m.jones(), jm);
        for o in t.out_darts() {
            for pos in [true, false] {
                for uf in [true, false] {
                    let k = t.r1(o, pos, uf);
                    assert!(k.well_formed() && k.is_planar(), "r1 not planar");
                    assert_eq!(k.jones(), t.jones());
                    assert_eq!(k.components().len(), 1);
                }
            }
        }
        for d in all_planar_diagrams(3) {
            let (d2, labels) = Diagram::from_pd(&d.pd()).expect("own PD parses");
            assert_eq!(d2.partner, d.partner);
            assert_eq!(d2.pd_with(&|k| labels[k]), d.pd());
            // directions agree except possibly on components that never pass under
            let cc = d.crossing_components();
            let under: std::collections::BTreeSet<usize> = cc.iter().map(|x| x.0).collect();
            for c in 0..3 {
                if under.contains(&cc[c].1) {
                    assert_eq!(d.dir[c], d2.dir[c]);
                }
            }
        }
        for d in all_planar_diagrams(2) {
            assert!(d.mirror().is_planar() && d.reverse_all().is_planar() && d.reverse_all().well_formed());
        }
    }
}

#[cfg(test)]
mod move_tests {
    use super::*;

    #[test]
    fn pd_level_r3_moves_are_isotopies() {
        let mut total = 0;
        let mut non_braidlike = 0;
        for n in 3..=4usize {
            for (k, d) in all_planar_diagrams(n).into_iter().enumerate() {
                if n == 4 && k % 7 != 0 {
                    continue;
                }
                let moves = d.r3_moves();
                if moves.is_empty() {
                    continue;
                }
                let j = d.jones();
                let kh = khovanov::<Z>(&d, &z(0), &z(0), None).bigraded.unwrap();
                for d2 in moves {
                    total += 1;
                    assert_eq!(d2.components().len(), d.components().len());
                    assert_eq!(d2.jones(), j, "R3 changed the state sum of {:?} -> {:?}", d.pd(), d2.pd());
                    let k2 = khovanov::<Z>(&d2, &z(0), &z(0), None).bigraded.unwrap();
                    assert_eq!(kh.keys().collect::<Vec<_>>(), k2.keys().collect::<Vec<_>>(), "{:?} -> {:?}", d.pd(), d2.pd());
                    for (key, m) in &kh {
                        assert!(k2[key].same(m.rank, &m.tors));
                    }
                    // the inverse move exists
                    assert!(d2.r3_moves().contains(&d), "R3 is not invertible on {:?}", d.pd());
                    let signs: Vec<i64> = (0..d.n).map(|c| d.sign(c)).collect();
                    if signs.iter().any(|s| *s > 0) && signs.iter().any(|s| *s < 0) {
                        non_braidlike += 1;
                    }
                }
            }
        }
        assert!(total > 100, "only {total} R3 moves generated");
        assert!(non_braidlike > 0);
    }

    #[test]
    fn pd_level_r2_moves_are_isotopies() {
        let mut total = 0;
        let mut antiparallel_seen = false;
        for n in 0..=2usize {
            for d in all_planar_diagrams(n).into_iter().chain(if n == 0 { vec![] } else { vec![] }) {
                let j = d.jones();
                let k = khovanov::<Z>(&d, &z(0), &z(0), None).bigraded.unwrap();
                let comps = d.components().len();
                for d2 in d.r2_moves() {
                    total += 1;
                    assert_eq!(d2.n, d.n + 2);
                    assert_eq!(d2.components().len(), comps);
                    assert_eq!(d2.jones(), j, "R2 changed the state sum of {:?}", d.pd());
                    let k2 = khovanov::<Z>(&d2, &z(0), &z(0), None).bigraded.unwrap();
                    assert_eq!(k.keys().collect::<Vec<_>>(), k2.keys().collect::<Vec<_>>());
                    for (key, m) in &k {
                        assert!(k2[key].same(m.rank, &m.tors));
                    }
                    // antiparallel: the two strands run through the bigon in opposite directions,
                    // i.e. b visits the new crossings in the order y, x
                    let e = d2.edge_of_dart();
                    let (x, y) = (d.n, d.n + 1);
                    // strand b leaves y towards x ?
                    for s in 0..4 {
                        let o = 4 * y + s;
                        if d2.is_out(o) && d2.partner[o] / 4 == x {
                            antiparallel_seen = true;
                        }
                    }
                    let _ = e;
                }
            }
        }
        assert!(total > 50, "only {total} R2 moves generated");
        assert!(antiparallel_seen);
    }

    /// the R3 sign rule used by the harness: (e,d,z) is allowed unless e == z != d
    #[test]
    fn braid_r3_sign_patterns_preserve_jones() {
        for e in [1, -1] {
            for dl in [1, -1] {
                for zt in [1, -1] {
                    let w = [e * 1, dl * 2, zt * 1, 1, 2];
                    let v = [zt * 2, dl * 1, e * 2, 1, 2];
                    let (a, b) = (braid_closure(3, &w).unwrap(), braid_closure(3, &v).unwrap());
                    let allowed = !(e == zt && e != dl);
                    if allowed {
                        assert_eq!(a.jones(), b.jones(), "pattern {e},{dl},{zt}");
                        let (ka, kb) = (khovanov::<Z>(&a, &z(0), &z(0), None), khovanov::<Z>(&b, &z(0), &z(0), None));
                        let (ka, kb) = (ka.bigraded.unwrap(), kb.bigraded.unwrap());
                        assert_eq!(ka.keys().collect::<Vec<_>>(), kb.keys().collect::<Vec<_>>());
                        for (k, m) in &ka {
                            assert!(kb[k].same(m.rank, &m.tors), "pattern {e},{dl},{zt} at {k:?}");
                        }
                    }
                }
            }
        }
    }
}


// ---- involutive Khovanov: mapping cone of 1 + tau over F_2 ------------------------------------------

/// `tau_edge[k]` = edge id that the involution sends edge k to.  Returns `None` if tau does not
/// act on the crossings (some crossing's edge set is not mapped onto a crossing's edge set, or
/// the match is ambiguous).
pub fn crossing_involution(d: &Diagram, tau_edge: &[usize]) -> Option<Vec<usize>> {
    let e = d.edge_of_dart();
    let sets: Vec<std::collections::BTreeSet<usize>> = (0..d.n).map(|c| (0..4).map(|s| e[4 * c + s]).collect()).collect();
    let mut out = vec![];
    for c in 0..d.n {
        let img: std::collections::BTreeSet<usize> = sets[c].iter().map(|&x| tau_edge[x]).collect();
        let m: Vec<usize> = (0..d.n).filter(|&c2| sets[c2] == img).collect();
        if m.len() != 1 {
            return None;
        }
        // the 0-resolution must go to the 0-resolution: {tau e0, tau e1} is {f0,f1} or {f2,f3}
        let c2 = m[0];
        let pair = |a: usize, b: usize| -> std::collections::BTreeSet<usize> { [a, b].into_iter().collect() };
        let t01 = pair(tau_edge[e[4 * c]], tau_edge[e[4 * c + 1]]);
        if t01 != pair(e[4 * c2], e[4 * c2 + 1]) && t01 != pair(e[4 * c2 + 2], e[4 * c2 + 3]) {
            return None;
        }
        out.push(c2);
    }
    // must be an involution
    if (0..d.n).any(|c| out[out[c]] != c) {
        return None;
    }
    Some(out)
}

/// How tau acts on the cyclic order of the four slots of every crossing: `(reflecting, rotating)`
/// = (every crossing admits an orientation-reversing matching, every crossing admits an
/// orientation-preserving one).  A symmetry with the axis in the projection plane (transvergent
/// diagram, as in the library's table) reflects; a symmetry by a rotation of the projection sphere
/// (axis perpendicular to the plane) preserves the cyclic order.  Kinks can admit both.
pub fn involution_type(d: &Diagram, tau_edge: &[usize]) -> Option<(bool, bool)> {
    let tau_x = crossing_involution(d, tau_edge)?;
    let e = d.edge_of_dart();
    let (mut all_refl, mut all_rot) = (true, true);
    for c in 0..d.n {
        let c2 = tau_x[c];
        let img: Vec<usize> = (0..4).map(|s| tau_edge[e[4 * c + s]]).collect();
        let tgt: Vec<usize> = (0..4).map(|s| e[4 * c2 + s]).collect();
        let rot = (0..4).any(|r| (0..4).all(|k| tgt[(k + r) % 4] == img[k]));
        let refl = (0..4).any(|r| (0..4).all(|k| tgt[(r + 4 - k) % 4] == img[k]));
        all_rot &= rot;
        all_refl &= refl;
    }
    Some((all_refl, all_rot))
}

/// homology of Cone(1 + tau : CKh -> CKh) over F_2, as dimensions: total per degree and
/// (if h = t = 0) per bidegree; q(Q x) = q(x), h(Q x) = h(x) + 1
pub fn khovanov_involutive(d: &Diagram, tau_edge: &[usize], h: &Fp<2>, t: &Fp<2>, base_edge: Option<usize>) -> Option<KhTable<Fp<2>>> {
    let tau_x = crossing_involution(d, tau_edge)?;
    if let Some(b) = base_edge {
        if tau_edge[b] != b {
            return None;
        }
    }
    let c = cube::<Fp<2>>(d, h, t, base_edge);
    // tau on generators
    let tau_gen = |g: &CubeGen| -> (u32, u32) {
        let mut s2 = 0u32;
        for x in 0..d.n {
            if g.state >> x & 1 == 1 {
                s2 |= 1 << tau_x[x];
            }
        }
        let (class, _) = &c.circles[g.state as usize];
        let (class2, _) = &c.circles[s2 as usize];
        let mut l2 = 0u32;
        for e in 0..2 * d.n {
            if g.label >> class[e] & 1 == 1 {
                l2 |= 1 << class2[tau_edge[e]];
            }
        }
        (s2, l2)
    };
    // cone generators: B(x) in degree i, Q(x) in degree i+1
    let lo = *c.degs.first().unwrap();
    let hi = *c.degs.last().unwrap() + 1;
    let degs: Vec<i64> = (lo..=hi).collect();
    let empty: Vec<CubeGen> = vec![];
    let mut gens: BTreeMap<i64, Vec<CubeGen>> = BTreeMap::new();
    for &i in &degs {
        let b = c.gens.get(&i).unwrap_or(&empty);
        let q = c.gens.get(&(i - 1)).unwrap_or(&empty);
        gens.insert(i, b.iter().chain(q.iter()).cloned().collect());
    }
    let mut dmat: BTreeMap<i64, RMat<Fp<2>>> = BTreeMap::new();
    for &i in &degs {
        let nb = c.gens.get(&i).map(|v| v.len()).unwrap_or(0);
        let nq = c.gens.get(&(i - 1)).map(|v| v.len()).unwrap_or(0);
        let nb1 = c.gens.get(&(i + 1)).map(|v| v.len()).unwrap_or(0);
        let nq1 = nb; // Q-part of degree i+1 = C^i
        let mut m = RMat::<Fp<2>>::zero(nb1 + nq1, nb + nq);
        if let Some(dm) = c.dmat.get(&i) {
            // B -> B
            for r in 0..dm.m {
                for col in 0..dm.n {
                    if !dm.at(r, col).is_zero() {
                        m.set(r, col, Fp(1));
                    }
                }
            }
        }
        // B(x) -> Q(x) + Q(tau x)
        for (col, g) in c.gens.get(&i).unwrap_or(&empty).iter().enumerate() {
            let (s2, l2) = tau_gen(g);
            let row_t = *c.index.get(&(s2, l2))?;
            let v = m.at(nb1 + col, col).add(&Fp(1));
            m.set(nb1 + col, col, v);
            let v = m.at(nb1 + row_t, col).add(&Fp(1));
            m.set(nb1 + row_t, col, v);
        }
        // Q -> Q (differential of degree i-1)
        if let Some(dm) = c.dmat.get(&(i - 1)) {
            for r in 0..dm.m {
                for col in 0..dm.n {
                    if !dm.at(r, col).is_zero() {
                        m.set(nb1 + r, nb + col, Fp(1));
                    }
                }
            }
        }
        dmat.insert(i, m);
    }
    // d∘d = 0 in the cone <=> tau is a chain map (self-check of the reference tau)
    for &i in &degs {
        if let (Some(a), Some(b)) = (dmat.get(&i), dmat.get(&(i + 1))) {
            if !b.mul(a).is_zero() {
                return None;
            }
        }
    }
    Some(homology_of_complex(&degs, &gens, &dmat, h.is_zero() && t.is_zero()))
}

