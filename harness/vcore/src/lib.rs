//! Shared machinery of the verification harness.  Nothing in here depends on a `yui` crate:
//! the reference models must stay independent of the code they judge.
pub mod bfs;
pub mod reflink;
pub mod refmat;
pub mod refnum;
pub mod run;

pub use run::{catch, Run, Tier};
pub use serde_json::{json, Value};
