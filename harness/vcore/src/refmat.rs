//! Reference dense matrices over a `RefRing` / `RefEuclid`.

use crate::refnum::*;

#[derive(Clone, PartialEq, Eq, Hash, Debug)]
pub struct RMat<T: RefRing> {
    pub m: usize,
    pub n: usize,
    pub e: Vec<T>, // row major
}

impl<T: RefRing> RMat<T> {
    pub fn zero(m: usize, n: usize) -> Self {
        RMat { m, n, e: vec![T::zero(); m * n] }
    }
    pub fn id(n: usize) -> Self {
        let mut a = Self::zero(n, n);
        for i in 0..n {
            a.e[i * n + i] = T::one();
        }
        a
    }
    pub fn from_fn(m: usize, n: usize, f: impl Fn(usize, usize) -> T) -> Self {
        let mut e = Vec::with_capacity(m * n);
        for i in 0..m {
            for j in 0..n {
                e.push(f(i, j));
            }
        }
        RMat { m, n, e }
    }
    pub fn from_rows(m: usize, n: usize, rows: Vec<Vec<T>>) -> Self {
        assert_eq!(rows.len(), m);
        let mut e = Vec::with_capacity(m * n);
        for r in rows {
            assert_eq!(r.len(), n);
            e.extend(r);
        }
        RMat { m, n, e }
    }
    #[inline]
    pub fn at(&self, i: usize, j: usize) -> &T {
        &self.e[i * self.n + j]
    }
    #[inline]
    pub fn set(&mut self, i: usize, j: usize, v: T) {
        self.e[i * self.n + j] = v;
    }
    pub fn is_zero(&self) -> bool {
        self.e.iter().all(|x| x.is_zero())
    }
    pub fn is_id(&self) -> bool {
        self.m == self.n && *self == Self::id(self.n)
    }
    pub fn transpose(&self) -> Self {
        Self::from_fn(self.n, self.m, |i, j| self.at(j, i).clone())
    }
    pub fn mul(&self, o: &Self) -> Self {
        assert_eq!(self.n, o.m, "shape mismatch in reference product");
        let mut r = Self::zero(self.m, o.n);
        for i in 0..self.m {
            for k in 0..self.n {
                let a = self.at(i, k);
                if a.is_zero() {
                    continue;
                }
                for j in 0..o.n {
                    let b = o.at(k, j);
                    if b.is_zero() {
                        continue;
                    }
                    let v = r.at(i, j).add(&a.mul(b));
                    r.set(i, j, v);
                }
            }
        }
        r
    }
    pub fn add(&self, o: &Self) -> Self {
        assert_eq!((self.m, self.n), (o.m, o.n));
        RMat { m: self.m, n: self.n, e: self.e.iter().zip(&o.e).map(|(a, b)| a.add(b)).collect() }
    }
    pub fn sub(&self, o: &Self) -> Self {
        assert_eq!((self.m, self.n), (o.m, o.n));
        RMat { m: self.m, n: self.n, e: self.e.iter().zip(&o.e).map(|(a, b)| a.sub(b)).collect() }
    }
    pub fn neg(&self) -> Self {
        RMat { m: self.m, n: self.n, e: self.e.iter().map(|a| a.neg()).collect() }
    }
    pub fn submat(&self, rows: &[usize], cols: &[usize]) -> Self {
        Self::from_fn(rows.len(), cols.len(), |i, j| self.at(rows[i], cols[j]).clone())
    }
    pub fn col(&self, j: usize) -> Vec<T> {
        (0..self.m).map(|i| self.at(i, j).clone()).collect()
    }
    pub fn mul_vec(&self, v: &[T]) -> Vec<T> {
        assert_eq!(self.n, v.len());
        (0..self.m)
            .map(|i| (0..self.n).fold(T::zero(), |acc, j| acc.add(&self.at(i, j).mul(&v[j]))))
            .collect()
    }
    pub fn show(&self) -> String {
        let rows: Vec<String> = (0..self.m)
            .map(|i| format!("[{}]", (0..self.n).map(|j| self.at(i, j).show()).collect::<Vec<_>>().join(",")))
            .collect();
        format!("{}x{}[{}]", self.m, self.n, rows.join(","))
    }
    /// determinant by cofactor expansion (ring operations only; use for k <= 5)
    pub fn det(&self) -> T {
        assert_eq!(self.m, self.n);
        let n = self.n;
        if n == 0 {
            return T::one();
        }
        if n == 1 {
            return self.at(0, 0).clone();
        }
        let mut acc = T::zero();
        let rows: Vec<usize> = (1..n).collect();
        for j in 0..n {
            let a = self.at(0, j);
            if a.is_zero() {
                continue;
            }
            let cols: Vec<usize> = (0..n).filter(|&c| c != j).collect();
            let minor = self.submat(&rows, &cols).det();
            let t = a.mul(&minor);
            acc = if j % 2 == 0 { acc.add(&t) } else { acc.sub(&t) };
        }
        acc
    }
}

fn combos(n: usize, k: usize) -> Vec<Vec<usize>> {
    fn rec(start: usize, n: usize, k: usize, cur: &mut Vec<usize>, out: &mut Vec<Vec<usize>>) {
        if cur.len() == k {
            out.push(cur.clone());
            return;
        }
        for i in start..n {
            cur.push(i);
            rec(i + 1, n, k, cur, out);
            cur.pop();
        }
    }
    let mut out = vec![];
    rec(0, n, k, &mut vec![], &mut out);
    out
}

impl<T: RefEuclid> RMat<T> {
    /// rank over the fraction field: fraction-free elimination with exact division
    /// (row operations r_i <- p*r_i - a*r_p keep the row space over the fraction field).
    pub fn rank(&self) -> usize {
        let mut a = self.clone();
        let (m, n) = (self.m, self.n);
        let mut r = 0;
        for c in 0..n {
            if r == m {
                break;
            }
            let Some(p) = (r..m).find(|&i| !a.at(i, c).is_zero()) else { continue };
            if p != r {
                for j in 0..n {
                    let (x, y) = (a.at(p, j).clone(), a.at(r, j).clone());
                    a.set(p, j, y);
                    a.set(r, j, x);
                }
            }
            let piv = a.at(r, c).clone();
            for i in r + 1..m {
                let f = a.at(i, c).clone();
                if f.is_zero() {
                    continue;
                }
                // keep entries small: divide the row by the gcd of its entries afterwards
                let mut g = T::zero();
                for j in 0..n {
                    let v = piv.mul(a.at(i, j)).sub(&f.mul(a.at(r, j)));
                    g = g.gcd(&v);
                    a.set(i, j, v);
                }
                if !g.is_zero() && !g.is_unit() {
                    for j in 0..n {
                        let v = a.at(i, j).exact_div(&g).expect("gcd divides");
                        a.set(i, j, v);
                    }
                }
            }
            r += 1;
        }
        r
    }

    /// Invariant factors (non-zero diagonal of the Smith form, up to units) from gcds of minors:
    /// d_k = gcd of all k x k minors, a_k = d_k / d_{k-1}.  Exponential; only for tiny matrices.
    pub fn invariant_factors_by_minors(&self) -> Vec<T> {
        let r = self.m.min(self.n);
        let mut out = vec![];
        let mut prev = T::one();
        for k in 1..=r {
            let mut g = T::zero();
            for rows in combos(self.m, k) {
                for cols in combos(self.n, k) {
                    let d = self.submat(&rows, &cols).det();
                    g = g.gcd(&d);
                }
            }
            if g.is_zero() {
                break;
            }
            out.push(g.exact_div(&prev).expect("d_{k-1} | d_k"));
            prev = g;
        }
        out
    }

    /// Invariant factors by the textbook pivot-and-clear algorithm (works for any size).
    /// Pivot = a unit if the remaining block has one, else an entry of minimal Euclidean value;
    /// clear the pivot column by row operations, then the pivot row by column operations (which,
    /// the column being clear, only touch the pivot row); whenever a non-zero remainder appears it
    /// becomes the new, strictly smaller pivot; finally enforce the divisibility chain.
    pub fn invariant_factors_by_elimination(&self) -> Vec<T> {
        let mut a = self.clone();
        let (m, n) = (self.m, self.n);
        let mut diag: Vec<T> = vec![];
        let mut t = 0;
        'pivot: while t < m.min(n) {
            // choose a pivot in the block [t.., t..]
            let mut best: Option<(usize, usize)> = None;
            'scan: for i in t..m {
                for j in t..n {
                    let x = a.at(i, j);
                    if x.is_zero() {
                        continue;
                    }
                    if x.is_one() || x.neg().is_one() {
                        best = Some((i, j));
                        break 'scan;
                    }
                    match best {
                        None => best = Some((i, j)),
                        Some((bi, bj)) => {
                            if x.eucl() < a.at(bi, bj).eucl() {
                                best = Some((i, j))
                            }
                        }
                    }
                }
            }
            let Some((pi, pj)) = best else { break };
            a.swap_rows(t, pi);
            a.swap_cols(t, pj);
            loop {
                // clear column t below the pivot
                let piv = a.at(t, t).clone();
                let cols: Vec<usize> = (t..n).filter(|&j| !a.at(t, j).is_zero()).collect();
                let mut smaller: Option<usize> = None;
                for i in t + 1..m {
                    if a.at(i, t).is_zero() {
                        continue;
                    }
                    let (q, r) = a.at(i, t).div_rem(&piv);
                    if !q.is_zero() {
                        for &j in &cols {
                            let v = a.at(i, j).sub(&q.mul(a.at(t, j)));
                            a.set(i, j, v);
                        }
                    }
                    debug_assert!(*a.at(i, t) == r);
                    if !r.is_zero() {
                        smaller = Some(i);
                    }
                }
                if let Some(i) = smaller {
                    a.swap_rows(t, i);
                    continue;
                }
                // clear row t right of the pivot (column t is zero below the pivot)
                let mut smaller_col: Option<usize> = None;
                for j in t + 1..n {
                    if a.at(t, j).is_zero() {
                        continue;
                    }
                    let (_, r) = a.at(t, j).div_rem(&piv);
                    if !r.is_zero() {
                        smaller_col = Some(j);
                    }
                    a.set(t, j, r);
                }
                if let Some(j) = smaller_col {
                    a.swap_cols(t, j);
                    continue;
                }
                break;
            }
            // divisibility: the pivot must divide every remaining entry (skip when it is a unit)
            if !a.at(t, t).is_unit() {
                for i in t + 1..m {
                    for j in t + 1..n {
                        if !a.at(t, t).divides(a.at(i, j)) {
                            // add row i to row t and redo this pivot
                            for jj in t..n {
                                let v = a.at(t, jj).add(a.at(i, jj));
                                a.set(t, jj, v);
                            }
                            // (t,t) itself is unchanged because column t is clear; redo this pivot
                            continue 'pivot;
                        }
                    }
                }
            }
            diag.push(a.at(t, t).clone());
            t += 1;
        }
        diag
    }

    fn swap_rows(&mut self, i: usize, k: usize) {
        if i == k {
            return;
        }
        for j in 0..self.n {
            self.e.swap(i * self.n + j, k * self.n + j);
        }
    }
    fn swap_cols(&mut self, j: usize, k: usize) {
        if j == k {
            return;
        }
        for i in 0..self.m {
            self.e.swap(i * self.n + j, i * self.n + k);
        }
    }

    /// Both routes, cross-checked (minors only when small enough).
    pub fn invariant_factors(&self) -> Vec<T> {
        let a = self.invariant_factors_by_elimination();
        if self.m.max(self.n) <= 4 {
            let b = self.invariant_factors_by_minors();
            assert_eq!(a.len(), b.len(), "reference Smith routes disagree on rank for {}", self.show());
            for (x, y) in a.iter().zip(&b) {
                assert!(x.associated(y), "reference Smith routes disagree for {}: {:?} vs {:?}", self.show(), a, b);
            }
        }
        a
    }
}

/// Compares two lists of invariant factors up to units, entry by entry.
pub fn same_factors<T: RefEuclid>(a: &[T], b: &[T]) -> bool {
    a.len() == b.len() && a.iter().zip(b).all(|(x, y)| x.associated(y))
}

/// Compares two multisets of torsion orders up to units (order-insensitive).
pub fn same_factor_multiset<T: RefEuclid>(a: &[T], b: &[T]) -> bool {
    if a.len() != b.len() {
        return false;
    }
    let mut used = vec![false; b.len()];
    'o: for x in a {
        for (k, y) in b.iter().enumerate() {
            if !used[k] && x.associated(y) {
                used[k] = true;
                continue 'o;
            }
        }
        return false;
    }
    true
}

#[cfg(test)]
mod tests {
    use super::*;

    #[test]
    fn smith_routes_agree_on_all_2x2_and_some_3x3() {
        let al = [-3i64, -2, -1, 0, 1, 2, 3, 4, 6];
        let mut n = 0;
        for a in al {
            for b in al {
                for c in al {
                    for d in al {
                        let m = RMat::<Z>::from_rows(2, 2, vec![vec![z(a), z(b)], vec![z(c), z(d)]]);
                        let f = m.invariant_factors();
                        assert_eq!(f.len(), m.rank());
                        for w in f.windows(2) {
                            assert!(w[0].divides(&w[1]));
                        }
                        n += 1;
                    }
                }
            }
        }
        assert!(n > 6000);
        let m = RMat::<Z>::from_rows(3, 3, vec![vec![z(2), z(4), z(4)], vec![z(-6), z(6), z(12)], vec![z(10), z(-4), z(-16)]]);
        let f = m.invariant_factors();
        assert!(same_factors(&f, &[z(2), z(6), z(12)]));
        let g = RMat::<Quad<-1>>::from_rows(2, 2, vec![vec![Quad::of(1, 1), Quad::of(2, 0)], vec![Quad::of(0, 0), Quad::of(1, -1)]]);
        let f = g.invariant_factors();
        assert_eq!(f.len(), 2);
    }
}
