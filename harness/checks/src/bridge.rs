//! Conversions between the library's scalar types and the reference types of `vcore::refnum`.
//! Reading goes through public accessors only; constructing goes through the raw public
//! constructors (`new`, `from`), never through arithmetic of the library.

use num_bigint::BigInt;
use num_traits::ToPrimitive;
use vcore::refnum::*;
use yui::poly::{Poly, Var, Mono};
use yui::{FF, FF2, QuadInt, Ratio};

pub trait Bridge: Clone + std::fmt::Debug + Send + Sync + 'static {
    type Ref: RefRing;
    const NAME: &'static str;
    fn to_ref(&self) -> Self::Ref;
    /// `None` when the reference value is not representable in this type.
    fn try_from_ref(r: &Self::Ref) -> Option<Self>;
    fn from_ref(r: &Self::Ref) -> Self {
        Self::try_from_ref(r).unwrap_or_else(|| panic!("{}: {:?} not representable", Self::NAME, r))
    }
}

macro_rules! bridge_int {
    ($t:ty, $name:expr, $conv:ident) => {
        impl Bridge for $t {
            type Ref = Z;
            const NAME: &'static str = $name;
            fn to_ref(&self) -> Z {
                BigInt::from(*self)
            }
            fn try_from_ref(r: &Z) -> Option<Self> {
                r.$conv()
            }
        }
    };
}
bridge_int!(i32, "i32", to_i32);
bridge_int!(i64, "i64", to_i64);
bridge_int!(i128, "i128", to_i128);

impl Bridge for BigInt {
    type Ref = Z;
    const NAME: &'static str = "BigInt";
    fn to_ref(&self) -> Z {
        self.clone()
    }
    fn try_from_ref(r: &Z) -> Option<Self> {
        Some(r.clone())
    }
}

macro_rules! bridge_ratio {
    ($t:ty, $name:expr) => {
        impl Bridge for Ratio<$t> {
            type Ref = Q;
            const NAME: &'static str = $name;
            fn to_ref(&self) -> Q {
                Q::new(self.numer().to_ref(), self.denom().to_ref())
            }
            fn try_from_ref(r: &Q) -> Option<Self> {
                Some(Ratio::new(<$t>::try_from_ref(&r.n)?, <$t>::try_from_ref(&r.d)?))
            }
        }
    };
}
bridge_ratio!(i64, "Ratio<i64>");
bridge_ratio!(i128, "Ratio<i128>");
bridge_ratio!(BigInt, "Ratio<BigInt>");

impl Bridge for FF2 {
    type Ref = Fp<2>;
    const NAME: &'static str = "FF2";
    fn to_ref(&self) -> Fp<2> {
        use num_traits::Zero;
        Fp(if self.is_zero() { 0 } else { 1 })
    }
    fn try_from_ref(r: &Fp<2>) -> Option<Self> {
        Some(FF2::from(r.0 as i32))
    }
}

macro_rules! bridge_ff {
    ($p:literal, $name:expr) => {
        impl Bridge for FF<$p> {
            type Ref = Fp<$p>;
            const NAME: &'static str = $name;
            fn to_ref(&self) -> Fp<$p> {
                Fp::new(*self.rep() as i64)
            }
            fn try_from_ref(r: &Fp<$p>) -> Option<Self> {
                Some(FF::<$p>::new(r.0 as i32))
            }
        }
    };
}
bridge_ff!(2, "FF<2>");
bridge_ff!(3, "FF<3>");
bridge_ff!(5, "FF<5>");
bridge_ff!(7, "FF<7>");

macro_rules! bridge_quad {
    ($t:ty, $d:literal, $name:expr) => {
        impl Bridge for QuadInt<$t, $d> {
            type Ref = Quad<$d>;
            const NAME: &'static str = $name;
            fn to_ref(&self) -> Quad<$d> {
                Quad::new(self.left().to_ref(), self.right().to_ref())
            }
            fn try_from_ref(r: &Quad<$d>) -> Option<Self> {
                Some(QuadInt::new(<$t>::try_from_ref(&r.a)?, <$t>::try_from_ref(&r.b)?))
            }
        }
    };
}
bridge_quad!(i64, -1, "GaussInt<i64>");
bridge_quad!(i128, -1, "GaussInt<i128>");
bridge_quad!(BigInt, -1, "GaussInt<BigInt>");
bridge_quad!(i64, -3, "EisenInt<i64>");
bridge_quad!(i128, -3, "EisenInt<i128>");
bridge_quad!(BigInt, -3, "EisenInt<BigInt>");
bridge_quad!(i64, 2, "QuadInt<i64,2>");
bridge_quad!(i64, 5, "QuadInt<i64,5>");
bridge_quad!(i64, -2, "QuadInt<i64,-2>");
bridge_quad!(BigInt, 5, "QuadInt<BigInt,5>");

macro_rules! bridge_poly {
    ($k:ty, $name:expr) => {
        impl Bridge for Poly<'x', $k> {
            type Ref = UPoly<<$k as Bridge>::Ref>;
            const NAME: &'static str = $name;
            fn to_ref(&self) -> Self::Ref {
                let mut c = vec![];
                for (x, a) in self.iter() {
                    let d: usize = x.deg();
                    if c.len() <= d {
                        c.resize(d + 1, <<$k as Bridge>::Ref as RefRing>::zero());
                    }
                    c[d] = c[d].add(&a.to_ref());
                }
                UPoly::new(c)
            }
            fn try_from_ref(r: &Self::Ref) -> Option<Self> {
                let mut terms = vec![];
                for (i, a) in r.c.iter().enumerate() {
                    if !a.is_zero() {
                        terms.push((Var::<'x', usize>::from(i), <$k>::try_from_ref(a)?));
                    }
                }
                Some(terms.into_iter().collect())
            }
        }
    };
}
bridge_poly!(Ratio<i64>, "Poly<x,Ratio<i64>>");
bridge_poly!(Ratio<BigInt>, "Poly<x,Ratio<BigInt>>");
bridge_poly!(FF2, "Poly<x,FF2>");
bridge_poly!(FF<3>, "Poly<x,FF<3>>");
bridge_poly!(FF<5>, "Poly<x,FF<5>>");

/// Z[H] = Poly<'H', i64>; reference = polynomials over Q with integer coefficients.
impl Bridge for Poly<'H', i64> {
    type Ref = UPoly<Q>;
    const NAME: &'static str = "Poly<H,i64>";
    fn to_ref(&self) -> UPoly<Q> {
        let mut c = vec![];
        for (x, a) in self.iter() {
            let d: usize = x.deg();
            if c.len() <= d {
                c.resize(d + 1, Q::int(0));
            }
            c[d] = c[d].add(&Q::from_z(a.to_ref()));
        }
        UPoly::new(c)
    }
    fn try_from_ref(r: &UPoly<Q>) -> Option<Self> {
        let mut terms = vec![];
        for (i, a) in r.c.iter().enumerate() {
            if !a.is_zero() {
                if a.d != BigInt::from(1) {
                    return None;
                }
                terms.push((Var::<'H', usize>::from(i), i64::try_from_ref(&a.n)?));
            }
        }
        Some(terms.into_iter().collect())
    }
}
