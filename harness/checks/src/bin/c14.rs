//! C14 — scalar types are exact commutative rings with canonical representatives.
//!
//! (i)   `FF2`, `FF<p>` (p = 2,3,5,7): complete operation tables (+,-,*,/,neg) in every calling form
//!       (val/val, val/ref, ref/val, ref/ref, `op=` with a value and with a reference), construction
//!       from every `i32` in {MIN, -p-1..=p+1, MAX}, all triples for the ring axioms.
//! (ii)  `i32/i64/i128/BigInt`, `Ratio<i64>`, `Ratio<BigInt>`, `QuadInt<i64,D>` (D = -1,-3,2,5),
//!       `QuadInt<BigInt,-1>`: all ordered pairs (operations, `==`) and all triples (axioms) of a
//!       per-type alphabet (0, ±1, ±2, ±3, ±7, 2^31, 2^53-1, 2^53, 2^53+1, 2^62, MAX, MIN+1, for the
//!       unbounded types also 2^64, 10^40+7, 10^300+1).  Whenever the *reference* result
//!       (`vcore::refnum`) is representable in the type, the library has to return exactly it
//!       (including its stored representation) without panicking.
//! (iii) Histories: explicit-state BFS over `+=,-=,*=,/=`, neg, inv (Ratio) resp. `+=,-=,*=`, neg
//!       (QuadInt) with every element of a history alphabet; state = library value (carried along,
//!       never rebuilt) + reference twin; invariant in every reachable state: canonical stored
//!       representation, value = reference, `is_zero/is_one` correct.  `cmp/partial_cmp` of `Ratio`
//!       = order of Q on pairs of reachable states, consistent with `==`.

use checks::bridge::Bridge;
use num_bigint::BigInt;
use std::cmp::Ordering;
use std::hash::{Hash, Hasher};
use std::sync::atomic::{AtomicU64, Ordering as AtOrd};
use vcore::bfs::bfs;
use vcore::refnum::*;
use vcore::{catch, json, Run};
use yui::{EucRing, EucRingOps, QuadInt, Ratio, Ring, RingOps, FF, FF2};

// ---------------------------------------------------------------------------------------------
// small helpers (the library's Zero/One are called fully qualified: `RefRing` has methods of the
// same names and `BigInt` implements both)
// ---------------------------------------------------------------------------------------------

fn pow2(k: u32) -> Z {
    BigInt::from(1) << k
}

fn pow10(k: usize) -> Z {
    num_traits::pow(BigInt::from(10), k)
}

fn zabs(x: &Z) -> Z {
    num_traits::Signed::abs(x)
}

fn lib_is_zero<T: num_traits::Zero>(x: &T) -> bool {
    num_traits::Zero::is_zero(x)
}

fn lib_is_one<T: num_traits::One + PartialEq>(x: &T) -> bool {
    num_traits::One::is_one(x)
}

/// |x| <= i64::MAX
fn fit63(x: &Z) -> bool {
    zabs(x) < pow2(63)
}

/// hot counters (a mutex-protected map per evaluation would dominate the run time)
#[derive(Clone, Copy)]
enum C {
    Ev,
    Pairs,
    Triples,
    OpPairs,
    Axiom,
    AxiomSkip,
    CmpPairs,
    HistOps,
    HistSkip,
    SkipRepr,
    Constr,
}
const CN: [&str; 11] = [
    "evaluations",
    "pairs",
    "triples",
    "op_pairs",
    "axiom_instances",
    "axiom_instances_out_of_domain",
    "cmp_pairs",
    "history_ops",
    "history_steps_out_of_domain",
    "skipped_result_not_representable",
    "constructions",
];
static CV: [AtomicU64; 11] = [const { AtomicU64::new(0) }; 11];

fn tick(c: C, n: u64) {
    CV[c as usize].fetch_add(n, AtOrd::Relaxed);
}

fn flush(run: &Run) {
    for (i, name) in CN.iter().enumerate() {
        let v = CV[i].swap(0, AtOrd::Relaxed);
        if v > 0 {
            run.add(name, v);
        }
    }
}

#[derive(Clone, Copy, PartialEq, Eq, Debug)]
enum Op {
    Add,
    Sub,
    Mul,
    Div,
}

impl Op {
    fn name(self) -> &'static str {
        match self {
            Op::Add => "add",
            Op::Sub => "sub",
            Op::Mul => "mul",
            Op::Div => "div",
        }
    }
}

/// reference division in a field
trait RefDiv: RefRing {
    fn rdiv(&self, o: &Self) -> Option<Self>;
}

impl RefDiv for Q {
    fn rdiv(&self, o: &Self) -> Option<Self> {
        o.inv().map(|i| self.mul(&i))
    }
}

impl<const P: u32> RefDiv for Fp<P> {
    fn rdiv(&self, o: &Self) -> Option<Self> {
        o.inv().map(|i| self.mul(&i))
    }
}

fn rop<R: RefRing>(op: Op, a: &R, b: &R) -> R {
    match op {
        Op::Add => a.add(b),
        Op::Sub => a.sub(b),
        Op::Mul => a.mul(b),
        Op::Div => unreachable!(),
    }
}

// ---------------------------------------------------------------------------------------------
// what "exactly the reference value" means per type: representability + stored representation
// ---------------------------------------------------------------------------------------------

trait Canon: Bridge {
    /// the reference value is representable in this type
    fn fits(r: &Self::Ref) -> bool;
    /// the *stored* representation is the canonical one of `r` (no normalisation on the way)
    fn raw_is(&self, r: &Self::Ref) -> bool {
        self.to_ref() == *r
    }
    /// a defect of the stored representation that can be named without knowing the value
    fn defect(&self) -> Option<String> {
        None
    }
    fn raw(&self) -> String {
        format!("{:?}", self)
    }
}

macro_rules! canon_int {
    ($t:ty, $bits:expr) => {
        impl Canon for $t {
            fn fits(r: &Z) -> bool {
                let lim = pow2($bits - 1);
                *r >= -&lim && *r < lim
            }
        }
    };
}
canon_int!(i32, 32);
canon_int!(i64, 64);
canon_int!(i128, 128);

impl Canon for BigInt {
    fn fits(_: &Z) -> bool {
        true
    }
}

fn ratio_defect(n: &Z, d: &Z) -> Option<String> {
    if RefRing::is_zero(d) {
        return Some("denominator is 0".into());
    }
    if num_traits::Signed::is_negative(d) {
        return Some("denominator is negative (not normalised)".into());
    }
    if RefRing::is_zero(n) && !RefRing::is_one(d) {
        return Some("zero is not stored as 0/1".into());
    }
    let g = num_integer::Integer::gcd(n, d);
    if !RefRing::is_one(&g) {
        return Some(format!("not in lowest terms (gcd of numerator and denominator = {g})"));
    }
    None
}

macro_rules! canon_ratio {
    ($t:ty, $fits:expr) => {
        impl Canon for Ratio<$t> {
            fn fits(r: &Q) -> bool {
                let f: fn(&Z) -> bool = $fits;
                f(&r.n) && f(&r.d)
            }
            fn raw_is(&self, r: &Q) -> bool {
                self.numer().to_ref() == r.n && self.denom().to_ref() == r.d
            }
            fn defect(&self) -> Option<String> {
                ratio_defect(&self.numer().to_ref(), &self.denom().to_ref())
            }
            fn raw(&self) -> String {
                format!("{}/{}", self.numer(), self.denom())
            }
        }
    };
}
canon_ratio!(i64, fit63);
canon_ratio!(BigInt, |_| true);

impl Canon for FF2 {
    fn fits(_: &Fp<2>) -> bool {
        true
    }
}

macro_rules! canon_ff {
    ($p:literal) => {
        impl Canon for FF<$p> {
            fn fits(_: &Fp<$p>) -> bool {
                true
            }
            fn raw_is(&self, r: &Fp<$p>) -> bool {
                *self.rep() as i64 == r.0 as i64
            }
            fn defect(&self) -> Option<String> {
                let x = *self.rep();
                if x < 0 || x >= $p {
                    Some(format!("representative {x} outside 0..{}", $p))
                } else {
                    None
                }
            }
            fn raw(&self) -> String {
                format!("rep={}", self.rep())
            }
        }
    };
}
canon_ff!(2);
canon_ff!(3);
canon_ff!(5);
canon_ff!(7);

macro_rules! canon_quad {
    ($t:ty, $d:literal, $fits:expr) => {
        impl Canon for QuadInt<$t, $d> {
            fn fits(r: &Quad<$d>) -> bool {
                let f: fn(&Z) -> bool = $fits;
                f(&r.a) && f(&r.b)
            }
            fn raw(&self) -> String {
                format!("({},{})", self.left(), self.right())
            }
        }
    };
}
canon_quad!(i64, -1, fit63);
canon_quad!(i64, -3, fit63);
canon_quad!(i64, 2, fit63);
canon_quad!(i64, 5, fit63);
canon_quad!(BigInt, -1, |_| true);

// ---------------------------------------------------------------------------------------------
// "textbook intermediates representable" for the fixed-width composite types
// ---------------------------------------------------------------------------------------------

fn always<R>(_: Op, _: &R, _: &R) -> bool {
    true
}

/// a/b (op) c/d : ad, bc, ad±bc, bd (sum) / ac, bd (product) / ad, bc (quotient) fit in i64
fn ratio_safe64(op: Op, x: &Q, y: &Q) -> bool {
    let (a, b, c, d) = (&x.n, &x.d, &y.n, &y.d);
    match op {
        // the library's documented algorithm: l = lcm(b, d), numerator a*(l/b) +- c*(l/d), denominator l.
        // Whenever these fit the result must be exact - even if the textbook products ad, bc, bd do not
        // fit (denominators with a large common factor; seed `C14-int-lcm-via-full-product`).
        Op::Add | Op::Sub => {
            if x.n.is_zero() || y.n.is_zero() {
                return true;
            }
            let g = { let (mut p, mut q) = (zabs(b), zabs(d)); while !q.is_zero() { let r = &p % &q; p = q; q = r; } p };
            let l = zabs(&(b / &g * d));
            let (xa, yc) = (zabs(&(a * (&l / b))), zabs(&(c * (&l / d))));
            fit63(&l) && fit63(&(xa + yc))
        }
        Op::Mul => fit63(&(a * c)) && fit63(&(b * d)),
        Op::Div => fit63(&(a * d)) && fit63(&(b * c)),
    }
}

/// (a+bw)(c+dw): ac, bd, bd*e, ad, bc and the sums of their absolute values fit in i64
fn quad_safe64<const D: i64>(op: Op, x: &Quad<D>, y: &Quad<D>) -> bool {
    match op {
        Op::Add | Op::Sub => true,
        Op::Mul => {
            let (a, b, c, d) = (&x.a, &x.b, &y.a, &y.b);
            let type1 = D.rem_euclid(4) == 1;
            let e = if type1 { z((D - 1) / 4) } else { z(D) };
            let bd = zabs(&(b * d));
            let re = zabs(&(a * c)) + zabs(&(&bd * &e));
            let im = zabs(&(a * d)) + zabs(&(b * c)) + if type1 { bd.clone() } else { z(0) };
            fit63(&bd) && fit63(&re) && fit63(&im)
        }
        Op::Div => false,
    }
}

// ---------------------------------------------------------------------------------------------
// the library operations in every calling form
// ---------------------------------------------------------------------------------------------

macro_rules! six_forms {
    ($a:ident, $b:ident, $o:tt, $oa:tt) => {
        vec![
            ("val.val", catch(|| $a.clone() $o $b.clone())),
            ("val.ref", catch(|| $a.clone() $o $b)),
            ("ref.val", catch(|| $a $o $b.clone())),
            ("ref.ref", catch(|| $a $o $b)),
            ("assign.val", catch(|| { let mut x = $a.clone(); x $oa $b.clone(); x })),
            ("assign.ref", catch(|| { let mut x = $a.clone(); x $oa $b; x })),
        ]
    };
}

type Forms<T> = Vec<(&'static str, Result<T, String>)>;

fn ring_forms<T>(op: Op, a: &T, b: &T) -> Forms<T>
where
    T: Ring,
    for<'x> &'x T: RingOps<T>,
{
    match op {
        Op::Add => six_forms!(a, b, +, +=),
        Op::Sub => six_forms!(a, b, -, -=),
        Op::Mul => six_forms!(a, b, *, *=),
        Op::Div => unreachable!(),
    }
}

fn div_forms<T>(a: &T, b: &T) -> Forms<T>
where
    T: EucRing,
    for<'x> &'x T: EucRingOps<T>,
{
    six_forms!(a, b, /, /=)
}

fn ring_one<T>(op: Op, a: &T, b: &T) -> Result<T, String>
where
    T: Ring,
    for<'x> &'x T: RingOps<T>,
{
    catch(|| match op {
        Op::Add => a + b,
        Op::Sub => a - b,
        Op::Mul => a * b,
        Op::Div => unreachable!(),
    })
}

fn neg_forms<T>(a: &T) -> Forms<T>
where
    T: Ring,
    for<'x> &'x T: RingOps<T>,
{
    vec![("neg.val", catch(|| -a.clone())), ("neg.ref", catch(|| -a))]
}

// ---------------------------------------------------------------------------------------------
// judging
// ---------------------------------------------------------------------------------------------

type Safe<'a, R> = &'a (dyn Fn(Op, &R, &R) -> bool + Sync);

struct Cx<'a, T: Canon> {
    run: &'a Run,
    safe: Safe<'a, T::Ref>,
}

type V<T> = (T, <T as Bridge>::Ref);

impl<'a, T> Cx<'a, T>
where
    T: Ring + Canon,
    for<'x> &'x T: RingOps<T>,
{
    fn fail(&self, op: &str, args: &str, what: String) {
        self.run.fail(&format!("ring:{op}:{}:{args}", T::NAME), &what, json!({"type": T::NAME, "op": op, "args": args}));
    }

    /// one library result against the reference value `exp` (which is representable)
    fn judge(&self, op: &str, form: &str, args: &str, got: Result<T, String>, exp: &T::Ref) -> Option<T> {
        tick(C::Ev, 1);
        match got {
            Err(p) => {
                self.fail(op, args, format!("[{form}] panicked although the exact result {} is representable: {p}", exp.show()));
                None
            }
            Ok(v) => {
                if let Some(d) = v.defect() {
                    self.fail(op, args, format!("[{form}] stored representation {}: {d}; exact result {}", v.raw(), exp.show()));
                    return None;
                }
                if !v.raw_is(exp) {
                    self.fail(op, args, format!("[{form}] returned {} ; exact result {}", v.raw(), exp.show()));
                    return None;
                }
                let (lz, lo) = (lib_is_zero(&v), lib_is_one(&v));
                if lz != exp.is_zero() || lo != exp.is_one() {
                    self.fail(op, args, format!("[{form}] is_zero={lz} is_one={lo} on the value {}", exp.show()));
                    return None;
                }
                Some(v)
            }
        }
    }

    /// one binary ring operation on arbitrary (not necessarily alphabet) operands, ref/ref form;
    /// `None` = outside the domain (result or textbook intermediate not representable) or failed
    fn lop(&self, op: Op, x: &V<T>, y: &V<T>) -> Option<V<T>> {
        let e = rop(op, &x.1, &y.1);
        if !T::fits(&e) || !(self.safe)(op, &x.1, &y.1) {
            return None;
        }
        let args = format!("{}|{}", x.1.show(), y.1.show());
        self.judge(op.name(), "ref.ref", &args, ring_one(op, &x.0, &y.0), &e).map(|v| (v, e))
    }

    fn lneg(&self, x: &V<T>) -> Option<V<T>> {
        let e = x.1.neg();
        if !T::fits(&e) {
            return None;
        }
        self.judge("neg", "neg.ref", &x.1.show(), catch(|| -&x.0), &e).map(|v| (v, e))
    }

    /// an identity lhs == rhs between two library-computed values
    fn identity(&self, name: &str, args: &str, l: Option<V<T>>, r: Option<V<T>>) {
        match (l, r) {
            (Some(l), Some(r)) => {
                tick(C::Axiom, 1);
                debug_assert!(l.1 == r.1);
                match catch(|| (l.0 == r.0, l.0 != r.0)) {
                    Ok((true, false)) => {}
                    Ok((eq, ne)) => self.fail(
                        "axiom",
                        &format!("{name}:{args}"),
                        format!("{name}: lhs {} and rhs {} (same ring element {}) compare ==:{eq} !=:{ne}", l.0.raw(), r.0.raw(), l.1.show()),
                    ),
                    Err(p) => self.fail("axiom", &format!("{name}:{args}"), format!("{name}: == panicked: {p}")),
                }
            }
            _ => tick(C::AxiomSkip, 1),
        }
    }

    /// all operations on the ordered pair (a, b) of alphabet elements
    fn pair(&self, a: &V<T>, b: &V<T>) {
        let args = format!("{}|{}", a.1.show(), b.1.show());
        tick(C::Pairs, 1);
        // equality
        tick(C::Ev, 1);
        match catch(|| (a.0 == b.0, a.0 != b.0)) {
            Ok((eq, ne)) => {
                if eq != (a.1 == b.1) || ne == eq {
                    self.fail("eq", &args, format!("== gives {eq}, != gives {ne}; the ring elements are {}", if a.1 == b.1 { "equal" } else { "different" }));
                }
            }
            Err(p) => self.fail("eq", &args, format!("== panicked: {p}")),
        }
        for op in [Op::Add, Op::Sub, Op::Mul] {
            let e = rop(op, &a.1, &b.1);
            if !T::fits(&e) {
                tick(C::SkipRepr, 1);
                continue;
            }
            if !(self.safe)(op, &a.1, &b.1) {
                // the final value fits but a textbook intermediate does not: a panic is an
                // observation, a returned value still has to be the right one
                self.run.add("intermediate_not_representable_pairs", 1);
                match ring_one(op, &a.0, &b.0) {
                    Err(_) => self.run.add("observed_intermediate_overflow_panics", 1),
                    ok => {
                        self.judge(op.name(), "ref.ref", &args, ok, &e);
                    }
                }
                continue;
            }
            tick(C::OpPairs, 1);
            for (form, got) in ring_forms(op, &a.0, &b.0) {
                self.judge(op.name(), form, &args, got, &e);
            }
        }
        // commutativity, subtraction = addition of the negative
        self.identity("a+b=b+a", &args, self.lop(Op::Add, a, b), self.lop(Op::Add, b, a));
        self.identity("a*b=b*a", &args, self.lop(Op::Mul, a, b), self.lop(Op::Mul, b, a));
        self.identity("a-b=a+(-b)", &args, self.lop(Op::Sub, a, b), self.lneg(b).and_then(|nb| self.lop(Op::Add, a, &nb)));
    }

    fn single(&self, a: &V<T>, zero: &V<T>, one: &V<T>) {
        let args = a.1.show();
        let e = a.1.neg();
        if T::fits(&e) {
            for (form, got) in neg_forms(&a.0) {
                self.judge("neg", form, &args, got, &e);
            }
        } else {
            tick(C::SkipRepr, 1);
        }
        tick(C::Ev, 1);
        let (lz, lo) = (lib_is_zero(&a.0), lib_is_one(&a.0));
        if lz != a.1.is_zero() || lo != a.1.is_one() {
            self.fail("is_zero_one", &args, format!("is_zero={lz} is_one={lo}"));
        }
        let same = |v: Option<V<T>>| v;
        self.identity("a+0=a", &args, self.lop(Op::Add, a, zero), same(Some(a.clone())));
        self.identity("0+a=a", &args, self.lop(Op::Add, zero, a), same(Some(a.clone())));
        self.identity("a*1=a", &args, self.lop(Op::Mul, a, one), same(Some(a.clone())));
        self.identity("1*a=a", &args, self.lop(Op::Mul, one, a), same(Some(a.clone())));
        self.identity("a*0=0", &args, self.lop(Op::Mul, a, zero), same(Some(zero.clone())));
        self.identity("a+(-a)=0", &args, self.lneg(a).and_then(|n| self.lop(Op::Add, a, &n)), same(Some(zero.clone())));
        self.identity("a-a=0", &args, self.lop(Op::Sub, a, a), same(Some(zero.clone())));
        self.identity("-(-a)=a", &args, self.lneg(a).and_then(|n| self.lneg(&n)), same(Some(a.clone())));
    }

    fn triple(&self, a: &V<T>, b: &V<T>, c: &V<T>, ab_sum: &Option<V<T>>, ab_prod: &Option<V<T>>) {
        tick(C::Triples, 1);
        let args = format!("{}|{}|{}", a.1.show(), b.1.show(), c.1.show());
        let bc_sum = self.lop(Op::Add, b, c);
        let bc_prod = self.lop(Op::Mul, b, c);
        let ac_prod = self.lop(Op::Mul, a, c);
        self.identity(
            "(a+b)+c=a+(b+c)",
            &args,
            ab_sum.as_ref().and_then(|s| self.lop(Op::Add, s, c)),
            bc_sum.as_ref().and_then(|s| self.lop(Op::Add, a, s)),
        );
        self.identity(
            "(a*b)*c=a*(b*c)",
            &args,
            ab_prod.as_ref().and_then(|s| self.lop(Op::Mul, s, c)),
            bc_prod.as_ref().and_then(|s| self.lop(Op::Mul, a, s)),
        );
        self.identity(
            "a*(b+c)=a*b+a*c",
            &args,
            bc_sum.as_ref().and_then(|s| self.lop(Op::Mul, a, s)),
            match (ab_prod, &ac_prod) {
                (Some(x), Some(y)) => self.lop(Op::Add, x, y),
                _ => None,
            },
        );
        self.identity(
            "(a+b)*c=a*c+b*c",
            &args,
            ab_sum.as_ref().and_then(|s| self.lop(Op::Mul, s, c)),
            match (&ac_prod, &bc_prod) {
                (Some(x), Some(y)) => self.lop(Op::Add, x, y),
                _ => None,
            },
        );
    }
}

/// builds the library values of an alphabet through the raw constructors; the construction itself
/// has to give the canonical stored form
fn build_alphabet<T>(run: &Run, al: &[T::Ref]) -> Vec<V<T>>
where
    T: Ring + Canon,
    for<'x> &'x T: RingOps<T>,
{
    let mut out: Vec<V<T>> = vec![];
    for r in al {
        if !T::fits(r) || out.iter().any(|(_, x)| x == r) {
            continue;
        }
        tick(C::Ev, 1);
        match catch(|| T::from_ref(r)) {
            Ok(t) if t.defect().is_none() && t.raw_is(r) => out.push((t, r.clone())),
            Ok(t) => run.fail(&format!("ring:construct:{}:{}", T::NAME, r.show()), &format!("constructor stored {}", t.raw()), json!({})),
            Err(p) => run.fail(&format!("ring:construct:{}:{}", T::NAME, r.show()), &format!("constructor panicked: {p}"), json!({})),
        }
    }
    out
}

fn sweep_ring<T>(run: &Run, al: &[T::Ref], safe: Safe<T::Ref>)
where
    T: Ring + Canon,
    for<'x> &'x T: RingOps<T>,
{
    let cx = Cx::<T> { run, safe };
    let items = build_alphabet::<T>(run, al);
    run.add("types", 1);
    let zero: V<T> = (<T as num_traits::Zero>::zero(), T::Ref::zero());
    let one: V<T> = (<T as num_traits::One>::one(), T::Ref::one());
    for (v, what) in [(&zero, "zero()"), (&one, "one()")] {
        tick(C::Ev, 1);
        if v.0.defect().is_some() || !v.0.raw_is(&v.1) {
            cx.fail("const", what, format!("{what} is stored as {}", v.0.raw()));
        }
    }
    run.par_for(items.len(), |i| {
        let a = &items[i];
        cx.single(a, &zero, &one);
        for b in &items {
            cx.pair(a, b);
            let ab_sum = cx.lop(Op::Add, a, b);
            let ab_prod = cx.lop(Op::Mul, a, b);
            for c in &items {
                cx.triple(a, b, c, &ab_sum, &ab_prod);
            }
        }
    });
    run.sample(json!({"type": T::NAME, "alphabet_size": items.len(),
        "alphabet_head": items.iter().take(8).map(|x| x.1.show()).collect::<Vec<_>>(),
        "alphabet_tail": items.iter().rev().take(4).map(|x| x.1.show()).collect::<Vec<_>>()}));
}

/// division in a field: all ordered pairs, all calling forms
fn sweep_div<T>(run: &Run, al: &[T::Ref], safe: Safe<T::Ref>)
where
    T: EucRing + Canon,
    for<'x> &'x T: EucRingOps<T>,
    T::Ref: RefDiv,
{
    let cx = Cx::<T> { run, safe };
    let items = build_alphabet::<T>(run, al);
    run.par_for(items.len(), |i| {
        let a = &items[i];
        for b in &items {
            let Some(e) = a.1.rdiv(&b.1) else { continue };
            let args = format!("{}|{}", a.1.show(), b.1.show());
            if !T::fits(&e) {
                tick(C::SkipRepr, 1);
                continue;
            }
            if !safe(Op::Div, &a.1, &b.1) {
                run.add("intermediate_not_representable_pairs", 1);
                match catch(|| &a.0 / &b.0) {
                    Err(_) => run.add("observed_intermediate_overflow_panics", 1),
                    ok => {
                        cx.judge("div", "ref.ref", &args, ok, &e);
                    }
                }
                continue;
            }
            tick(C::OpPairs, 1);
            for (form, got) in div_forms(&a.0, &b.0) {
                cx.judge("div", form, &args, got, &e);
            }
            // a / b * b = a
            if safe(Op::Mul, &e, &b.1) {
                let q = catch(|| &a.0 / &b.0).ok().map(|q| (q, e.clone()));
                cx.identity("(a/b)*b=a", &args, q.and_then(|q| cx.lop(Op::Mul, &q, b)), Some(a.clone()));
            }
        }
    });
}

// ---------------------------------------------------------------------------------------------
// histories
// ---------------------------------------------------------------------------------------------

/// state of a history: the library value itself (result of the real operation sequence) with its
/// reference twin; identity = reference value + raw stored representation
#[derive(Clone)]
struct St<T: Bridge> {
    r: T::Ref,
    raw: String,
    lib: T,
}

impl<T: Bridge> PartialEq for St<T> {
    fn eq(&self, o: &Self) -> bool {
        self.r == o.r && self.raw == o.raw
    }
}
impl<T: Bridge> Eq for St<T> {}
impl<T: Bridge> Hash for St<T> {
    fn hash<H: Hasher>(&self, h: &mut H) {
        self.r.hash(h);
        self.raw.hash(h);
    }
}

/// the additional actions of a field
struct FieldActs<T: Bridge> {
    div_ref: fn(&mut T, &T),
    div_val: fn(&mut T, T),
    inv: fn(&T) -> Option<T>,
    rdiv: fn(&T::Ref, &T::Ref) -> Option<T::Ref>,
}

fn field_acts<T>() -> FieldActs<T>
where
    T: EucRing + Bridge,
    for<'x> &'x T: EucRingOps<T>,
    T::Ref: RefDiv,
{
    FieldActs { div_ref: |x, y| *x /= y, div_val: |x, y| *x /= y, inv: |x| x.inv(), rdiv: |a, b| a.rdiv(b) }
}

fn history<T>(
    run: &Run,
    init: &[T::Ref],
    al: &[T::Ref],
    safe: Safe<T::Ref>,
    depth: usize,
    field: Option<FieldActs<T>>,
) -> (vcore::bfs::BfsStats, Vec<St<T>>)
where
    T: Ring + Canon,
    for<'x> &'x T: RingOps<T>,
{
    let cx = Cx::<T> { run, safe };
    let acts = build_alphabet::<T>(run, al);
    let init: Vec<St<T>> = build_alphabet::<T>(run, init).into_iter().map(|(lib, r)| St { raw: lib.raw(), r, lib }).collect();
    let one = T::Ref::one();
    let succ = |s: &St<T>, _d: usize| -> Vec<St<T>> {
        let mut out: Vec<St<T>> = vec![];
        let here = s.r.show();
        // op = name, e = expected value, forms = the executions of the library operation
        let mut step = |op: &str, arg: &str, e: T::Ref, forms: Forms<T>| {
            let args = format!("{here}|{arg}");
            let mut res: Option<T> = None;
            let mut ok = true;
            for (form, got) in forms {
                tick(C::HistOps, 1);
                match cx.judge(&format!("hist.{op}"), form, &args, got, &e) {
                    Some(v) => res = Some(v),
                    None => ok = false,
                }
            }
            if let (true, Some(lib)) = (ok, res) {
                out.push(St { raw: lib.raw(), r: e, lib });
            }
        };
        for (b, br) in &acts {
            for op in [Op::Add, Op::Sub, Op::Mul] {
                let e = rop(op, &s.r, br);
                if !T::fits(&e) || !safe(op, &s.r, br) {
                    tick(C::HistSkip, 1);
                    continue;
                }
                let forms: Forms<T> = match op {
                    Op::Add => vec![
                        ("assign.ref", catch(|| { let mut x = s.lib.clone(); x += b; x })),
                        ("assign.val", catch(|| { let mut x = s.lib.clone(); x += b.clone(); x })),
                    ],
                    Op::Sub => vec![
                        ("assign.ref", catch(|| { let mut x = s.lib.clone(); x -= b; x })),
                        ("assign.val", catch(|| { let mut x = s.lib.clone(); x -= b.clone(); x })),
                    ],
                    _ => vec![
                        ("assign.ref", catch(|| { let mut x = s.lib.clone(); x *= b; x })),
                        ("assign.val", catch(|| { let mut x = s.lib.clone(); x *= b.clone(); x })),
                    ],
                };
                step(op.name(), &br.show(), e, forms);
            }
            if let Some(f) = &field {
                if let Some(e) = (f.rdiv)(&s.r, br) {
                    if !T::fits(&e) || !safe(Op::Div, &s.r, br) {
                        tick(C::HistSkip, 1);
                    } else {
                        let forms: Forms<T> = vec![
                            ("assign.ref", catch(|| { let mut x = s.lib.clone(); (f.div_ref)(&mut x, b); x })),
                            ("assign.val", catch(|| { let mut x = s.lib.clone(); (f.div_val)(&mut x, b.clone()); x })),
                        ];
                        step("div", &br.show(), e, forms);
                    }
                }
            }
        }
        let e = s.r.neg();
        if T::fits(&e) {
            step("neg", "", e, vec![("neg.ref", catch(|| -&s.lib)), ("neg.val", catch(|| -s.lib.clone()))]);
        }
        if let Some(f) = &field {
            tick(C::HistOps, 1);
            match ((f.rdiv)(&one, &s.r), catch(|| (f.inv)(&s.lib))) {
                (None, Ok(None)) => {}
                (Some(e), Ok(Some(v))) => {
                    if T::fits(&e) {
                        step("inv", "", e, vec![("inv", Ok(v))]);
                    }
                }
                (e, Ok(got)) => cx.fail("hist.inv", &here, format!("inv() is_some={} but the reference inverse is {:?}", got.is_some(), e.map(|x| x.show()))),
                (e, Err(p)) => {
                    if e.as_ref().map(|x| T::fits(x)).unwrap_or(true) {
                        cx.fail("hist.inv", &here, format!("inv() panicked: {p}"))
                    }
                }
            }
        }
        out
    };
    let (st, seen) = bfs(run, init, depth, 6_000_000, succ);
    let mut states: Vec<St<T>> = seen.into_iter().collect();
    states.sort_by(|a, b| (a.r.show(), &a.raw).cmp(&(b.r.show(), &b.raw)));
    (st, states)
}

/// `cmp` / `partial_cmp` / comparison operators of a rational type against the order of Q
fn order_check<T>(run: &Run, label: &str, values: &[(T, Q)], all_pairs_cap: usize, neighbours: usize)
where
    T: Canon<Ref = Q> + Ord,
{
    let mut v: Vec<&(T, Q)> = values.iter().collect();
    v.sort_by(|a, b| a.1.cmp_q(&b.1));
    v.dedup_by(|a, b| a.1 == b.1);
    let n = v.len();
    // deterministic selection for the all-pairs part: evenly spaced in the sorted order
    let sel: Vec<usize> = if n <= all_pairs_cap { (0..n).collect() } else { (0..all_pairs_cap).map(|k| k * n / all_pairs_cap).collect() };
    if n > all_pairs_cap {
        run.add(&format!("order_pairs_capped_{label}"), 1);
    }
    let check = |i: usize, j: usize| {
        let (a, b) = (v[i], v[j]);
        tick(C::CmpPairs, 1);
        tick(C::Ev, 1);
        let exp = a.1.cmp_q(&b.1);
        let got = catch(|| (a.0.cmp(&b.0), a.0.partial_cmp(&b.0), a.0 == b.0, a.0 < b.0, a.0 > b.0, a.0 <= b.0, a.0 >= b.0));
        let ok = match &got {
            Ok((c, pc, eq, lt, gt, le, ge)) => {
                *c == exp
                    && *pc == Some(exp)
                    && *eq == (exp == Ordering::Equal)
                    && *lt == (exp == Ordering::Less)
                    && *gt == (exp == Ordering::Greater)
                    && *le == (exp != Ordering::Greater)
                    && *ge == (exp != Ordering::Less)
            }
            Err(_) => false,
        };
        if !ok {
            let what = match &got {
                Ok((c, pc, eq, ..)) => format!("order of Q: {exp:?}; cmp={c:?} partial_cmp={pc:?} ==:{eq}{}", if (*c == Ordering::Equal) != *eq { " (cmp inconsistent with ==)" } else { "" }),
                Err(p) => format!("comparison panicked: {p}"),
            };
            run.fail(&format!("ring:cmp:{}:{}|{}", T::NAME, a.1.show(), b.1.show()), &what, json!({"a": a.1.show(), "b": b.1.show(), "set": label}));
        }
    };
    run.par_for(n, |i| {
        // neighbours in the order of Q: where a coarse comparison would merge values
        for j in i.saturating_sub(neighbours)..(i + neighbours + 1).min(n) {
            check(i, j);
        }
    });
    run.par_for(sel.len(), |x| {
        for &j in &sel {
            check(sel[x], j);
        }
    });
}

// ---------------------------------------------------------------------------------------------
// alphabets
// ---------------------------------------------------------------------------------------------

/// `bits` = width of the machine type (0 = unbounded)
fn int_alphabet(bits: u32, th: bool) -> Vec<Z> {
    let mut v: Vec<Z> = vec![z(0), z(1), z(2), z(3), z(7)];
    if th {
        v.extend([z(4), z(5), z(6), z(10), z(255)]);
    }
    v.extend([pow2(15), pow2(30), pow2(31) - z(1), pow2(31), pow2(53) - z(1), pow2(53), pow2(53) + z(1), pow2(62)]);
    if th {
        v.extend([pow2(32), pow2(32) + z(1), pow2(63) - z(2)]);
    }
    if bits == 0 || bits > 64 {
        v.extend([pow2(63), pow2(64), pow2(100) + z(1), pow2(126)]);
    }
    if bits == 0 {
        v.extend([pow2(127), pow2(128) + z(1), pow10(40) + z(7), pow10(300) + z(1)]);
        if th {
            v.push(pow10(600) - z(1));
        }
    }
    if bits > 0 {
        v.push(pow2(bits - 1) - z(1)); // MAX ; its negative is MIN+1
    }
    let mut all: Vec<Z> = vec![];
    for x in v {
        all.push(-&x);
        all.push(x);
    }
    all.sort();
    all.dedup();
    if bits > 0 {
        let lim = pow2(bits - 1);
        all.retain(|x| *x < lim && *x > -&lim);
    }
    all
}

/// all p/q with |p|, q <= 4, plus n/1, -n/1, 1/n (and -n/3) for the large n
fn ratio_alphabet(bits: u32, th: bool) -> Vec<Q> {
    let mut v: Vec<Q> = vec![];
    let m = if th { 5 } else { 4 };
    for p in -m..=m {
        for q in 1..=m {
            v.push(Q::new(z(p), z(q)));
        }
    }
    let mut big = vec![pow2(31), pow2(53) - z(1), pow2(53), pow2(53) + z(1), pow2(62)];
    if bits > 0 {
        big.push(pow2(bits - 1) - z(1));
    } else {
        big.extend([pow2(63) - z(1), pow2(64), pow10(40) + z(7), pow10(300) + z(1)]);
    }
    for n in &big {
        v.push(Q::from_z(n.clone()));
        v.push(Q::from_z(-n));
        v.push(Q::new(z(1), n.clone()));
        if th {
            v.push(Q::new(-n, z(3)));
            v.push(Q::new(z(-2), n.clone()));
        }
    }
    if bits == 0 {
        v.push(Q::new(pow10(40) + z(7), pow10(20)));
        v.push(Q::new(pow10(300) + z(1), pow10(300) - z(1)));
    }
    v.sort_by(|a, b| a.cmp_q(b));
    v.dedup();
    v
}

fn quad_alphabet<const D: i64>(bits: u32, th: bool) -> Vec<Quad<D>> {
    let parts: Vec<i64> = if th { vec![0, 1, -1, 2, -2, 3, -3, 7, -7] } else { vec![0, 1, -1, 2, -2, 3, -7] };
    let mut v = vec![];
    for &a in &parts {
        for &b in &parts {
            v.push(Quad::<D>::of(a, b));
        }
    }
    let mut big = vec![pow2(31), pow2(53) + z(1)];
    if bits > 0 {
        big.push(pow2(62));
        big.push(pow2(bits - 1) - z(1));
    } else {
        big.push(pow2(64));
        big.push(pow10(40) + z(7));
        big.push(pow10(300) + z(1));
    }
    for n in &big {
        v.push(Quad::new(n.clone(), z(0)));
        v.push(Quad::new(z(0), -n));
        v.push(Quad::new(n.clone(), z(1)));
        v.push(Quad::new(z(-1), n.clone()));
        if th {
            v.push(Quad::new(-n, n.clone()));
        }
    }
    v.sort_by_key(|q| (q.a.clone(), q.b.clone()));
    v.dedup();
    v
}

// ---------------------------------------------------------------------------------------------
// finite fields: construction from i32
// ---------------------------------------------------------------------------------------------

macro_rules! ff_construct {
    ($run:expr, $p:literal) => {{
        let run: &Run = $run;
        let mut ints: Vec<i32> = vec![i32::MIN, i32::MAX, i32::MIN + 1, i32::MAX - 1];
        ints.extend(-$p - 1..=$p + 1);
        for i in ints {
            let e = Fp::<$p>::new(i as i64);
            let forms: Vec<(&str, Result<FF<$p>, String>)> =
                vec![("new", catch(|| FF::<$p>::new(i))), ("from", catch(|| FF::<$p>::from(i)))];
            for (form, got) in forms {
                tick(C::Ev, 1);
                tick(C::Constr, 1);
                let ok = matches!(&got, Ok(v) if v.defect().is_none() && v.raw_is(&e));
                if !ok {
                    run.fail(
                        &format!("ring:construct:{}:{form}({i})", <FF<$p> as Bridge>::NAME),
                        &format!("{form}({i}) gave {:?}, expected the representative {}", got.map(|v| v.raw()), e.0),
                        json!({"i": i}),
                    );
                }
            }
            if $p == 2 {
                tick(C::Ev, 2);
                tick(C::Constr, 2);
                let got = catch(|| (FF2::from(i), FF2::from(i as i64)));
                let ok = matches!(&got, Ok((a, b)) if a.to_ref().0 as i64 == e.0 as i64 && a == b);
                if !ok {
                    run.fail(&format!("ring:construct:FF2:from({i})"), &format!("FF2::from({i}) gave {got:?}, expected {}", e.0), json!({"i": i}));
                }
            }
        }
    }};
}

fn ratio_construct(run: &Run) {
    // Ratio::new / From<(T,T)> / From<T> reduce to the canonical form
    let vals: Vec<i64> = vec![-6, -4, -3, -2, -1, 0, 1, 2, 3, 4, 6, 1 << 31, -(1 << 31), (1 << 53) + 1, i64::MAX, i64::MIN + 1, 3 * (1 << 40)];
    for &p in &vals {
        for &q in &vals {
            if q == 0 {
                continue;
            }
            let e = Q::new(z(p), z(q));
            tick(C::Constr, 3);
            tick(C::Ev, 3);
            let got = catch(|| (Ratio::<i64>::new(p, q), Ratio::<i64>::from((p, q)), Ratio::<BigInt>::new(BigInt::from(p), BigInt::from(q))));
            let ok = matches!(&got, Ok((a, b, c)) if a.raw_is(&e) && b.raw_is(&e) && c.raw_is(&e));
            if !ok {
                run.fail(
                    &format!("ring:construct:Ratio:new({p},{q})"),
                    &format!("Ratio::new({p},{q}) stored {:?}, canonical form is {}", got.map(|(a, b, c)| (a.raw(), b.raw(), c.raw())), e.show()),
                    json!({"p": p, "q": q}),
                );
            }
        }
        tick(C::Constr, 1);
        tick(C::Ev, 1);
        let e = Q::from_z(z(p));
        if !matches!(catch(|| Ratio::<i64>::from(p)), Ok(a) if a.raw_is(&e)) {
            run.fail(&format!("ring:construct:Ratio:from({p})"), "Ratio::from(n) is not n/1", json!({"p": p}));
        }
    }
}

// ---------------------------------------------------------------------------------------------

fn main() {
    let run = Run::new("C14", "model_checking");
    let th = run.thorough();

    // ---- (i) finite fields: complete tables ---------------------------------------------------
    macro_rules! ff_all {
        ($t:ty, $p:literal) => {{
            let al = Fp::<$p>::all();
            sweep_ring::<$t>(&run, &al, &always);
            sweep_div::<$t>(&run, &al, &always);
        }};
    }
    ff_all!(FF2, 2);
    ff_all!(FF<2>, 2);
    ff_all!(FF<3>, 3);
    ff_all!(FF<5>, 5);
    ff_all!(FF<7>, 7);
    ff_construct!(&run, 2);
    ff_construct!(&run, 3);
    ff_construct!(&run, 5);
    ff_construct!(&run, 7);

    // ---- (ii) integers, rationals, quadratic integers ------------------------------------------
    sweep_ring::<i32>(&run, &int_alphabet(32, th), &always);
    sweep_ring::<i64>(&run, &int_alphabet(64, th), &always);
    sweep_ring::<i128>(&run, &int_alphabet(128, th), &always);
    sweep_ring::<BigInt>(&run, &int_alphabet(0, th), &always);

    ratio_construct(&run);
    let q64 = ratio_alphabet(64, th);
    let qbig = ratio_alphabet(0, th);
    sweep_ring::<Ratio<i64>>(&run, &q64, &ratio_safe64);
    sweep_div::<Ratio<i64>>(&run, &q64, &ratio_safe64);
    sweep_ring::<Ratio<BigInt>>(&run, &qbig, &always);
    sweep_div::<Ratio<BigInt>>(&run, &qbig, &always);
    // the order on the alphabets themselves
    let cap = if th { 2500 } else { 900 };
    let v64: Vec<(Ratio<i64>, Q)> = build_alphabet::<Ratio<i64>>(&run, &q64);
    let vbig: Vec<(Ratio<BigInt>, Q)> = build_alphabet::<Ratio<BigInt>>(&run, &qbig);
    order_check(&run, "alphabet", &v64, cap, 8);
    order_check(&run, "alphabet", &vbig, cap, 8);

    sweep_ring::<QuadInt<i64, -1>>(&run, &quad_alphabet::<-1>(64, th), &quad_safe64::<-1>);
    sweep_ring::<QuadInt<i64, -3>>(&run, &quad_alphabet::<-3>(64, th), &quad_safe64::<-3>);
    sweep_ring::<QuadInt<i64, 2>>(&run, &quad_alphabet::<2>(64, th), &quad_safe64::<2>);
    sweep_ring::<QuadInt<i64, 5>>(&run, &quad_alphabet::<5>(64, th), &quad_safe64::<5>);
    sweep_ring::<QuadInt<BigInt, -1>>(&run, &quad_alphabet::<-1>(0, th), &always);

    // ---- (iii) histories ----------------------------------------------------------------------
    let depth = if th { 4 } else { 3 };
    let hq = |bits: u32| -> Vec<Q> {
        let mut v = vec![
            Q::int(0),
            Q::int(1),
            Q::int(-1),
            Q::int(2),
            Q::int(-3),
            Q::new(z(1), z(2)),
            Q::new(z(-2), z(3)),
            Q::new(z(3), z(4)),
            Q::new(z(7), z(6)),
            Q::from_z(pow2(31)),
            Q::new(z(-1), pow2(31)),
            Q::from_z(pow2(53)),
            Q::from_z(pow2(53) + z(1)),
            Q::new(z(1), pow2(53) + z(1)),
        ];
        if bits == 0 {
            v.push(Q::new(pow10(40) + z(7), pow10(20)));
            v.push(Q::from_z(pow2(64)));
        } else {
            v.push(Q::from_z(pow2(62)));
        }
        v
    };
    let init_q = [Q::int(0), Q::int(1)];
    let (s1, st64) = history::<Ratio<i64>>(&run, &init_q, &hq(64), &ratio_safe64, depth, Some(field_acts()));
    let (s2, stbig) = history::<Ratio<BigInt>>(&run, &init_q, &hq(0), &always, depth, Some(field_acts()));
    let ocap = if th { 2000 } else { 800 };
    let w64: Vec<(Ratio<i64>, Q)> = st64.iter().map(|s| (s.lib, s.r.clone())).collect();
    let wbig: Vec<(Ratio<BigInt>, Q)> = stbig.iter().map(|s| (s.lib.clone(), s.r.clone())).collect();
    order_check(&run, "reachable", &w64, ocap, 6);
    order_check(&run, "reachable", &wbig, ocap, 6);
    drop((st64, stbig, w64, wbig));

    fn hquad<const D: i64>(bits: u32) -> Vec<Quad<D>> {
        let mut v = vec![
            Quad::<D>::of(0, 0),
            Quad::of(1, 0),
            Quad::of(-1, 0),
            Quad::of(0, 1),
            Quad::of(1, 1),
            Quad::of(2, -1),
            Quad::of(-3, 2),
            Quad::of(0, -2),
            Quad::new(pow2(31), z(1)),
            Quad::new(z(-1), pow2(31) + z(1)),
        ];
        if bits == 0 {
            v.push(Quad::new(pow2(64), pow10(20)));
        } else {
            v.push(Quad::new(pow2(53) + z(1), z(0)));
        }
        v
    }
    let mut hist = vec![("Ratio<i64>", s1), ("Ratio<BigInt>", s2)];
    macro_rules! quad_hist {
        ($t:ty, $d:literal, $bits:expr, $safe:expr) => {{
            let init = [Quad::<$d>::of(0, 0), Quad::<$d>::of(1, 0)];
            let (s, _) = history::<$t>(&run, &init, &hquad::<$d>($bits), $safe, depth, None);
            hist.push((<$t as Bridge>::NAME, s));
        }};
    }
    quad_hist!(QuadInt<i64, -1>, -1, 64, &quad_safe64::<-1>);
    quad_hist!(QuadInt<i64, -3>, -3, 64, &quad_safe64::<-3>);
    quad_hist!(QuadInt<i64, 2>, 2, 64, &quad_safe64::<2>);
    quad_hist!(QuadInt<i64, 5>, 5, 64, &quad_safe64::<5>);
    quad_hist!(QuadInt<BigInt, -1>, -1, 0, &always);

    flush(&run);
    let states: u64 = hist.iter().map(|h| h.1.states).sum();
    let transitions: u64 = hist.iter().map(|h| h.1.transitions).sum();
    for (name, s) in &hist {
        if s.states > 6_000_000 {
            run.cap(&format!("history of {name}: state cap hit"));
        }
    }
    let ev = run.get("evaluations");
    let coverage = json!({
        "states": states,
        "transitions": transitions,
        "traces_validated_against_impl": ev,
        "evaluations": ev,
        "distinct_nontrivial": run.get("pairs") + run.get("triples") + run.get("cmp_pairs"),
        "rule": "complete operation tables of F_2,F_3,F_5,F_7; all ordered pairs (every calling form of +,-,*,/ and ==) and all triples (ring axioms as identities between library values) of a deduplicated per-type alphabet; BFS over all operation sequences up to the depth bound; every counted evaluation is one call of the real library operation compared with BigInt reference arithmetic, including the stored representation",
        "history_depth": depth,
        "histories": hist.iter().map(|(n, s)| json!({"type": n, "states": s.states, "transitions": s.transitions, "states_per_depth": s.states_per_depth})).collect::<Vec<_>>(),
        "pairs": run.get("pairs"),
        "triples": run.get("triples"),
        "axiom_instances": run.get("axiom_instances"),
        "cmp_pairs": run.get("cmp_pairs"),
        "types": run.get("types"),
        "exhaustive": true,
    });
    run.finish(
        coverage,
        &[
            "reference arithmetic: num-bigint based Z, Q (reduced, positive denominator), F_p, quadratic integers in vcore::refnum",
            "a result that is not representable in a fixed-width type is outside the property's domain (skipped and counted)",
            "Ratio<i64> / QuadInt<i64,D>: operand combinations whose textbook intermediate products do not fit in i64 are only observed (a panic there is counted, not reported); a value returned without panic must still be exact; the BigInt instances have no such exemption",
            "history depth bound 3 (quick) / 4 (thorough); the order check on reachable states uses every state against its nearest neighbours in Q plus all pairs of a deterministic evenly spaced selection",
        ],
    );
}
