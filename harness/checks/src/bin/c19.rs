//! C19 — involutive Khovanov complex is the mapping cone of 1+τ and respects symmetry.
//! Inputs: the built-in strongly-invertible table (+ mirrors, + crossing-list permutations) and
//! ALL 1-component planar diagrams with <= 4 crossings renumbered 1..2n along the knot from every
//! starting edge, kept iff the loader's involution e -> (2n+1-e) mod 2n + 1 acts on the crossings.

use std::collections::BTreeMap;

use checks::khconv::*;
use checks::linkconv::*;
use vcore::reflink::{all_permutations, khovanov, khovanov_involutive, Diagram, Module};
use vcore::refnum::*;
use vcore::{catch, json, Run};
use yui::poly::HPoly;
use yui::FF2;
use yui_homology::{isize2, ChainComplexTrait, GridTrait, SummandTrait};
use yui_kh::kh::KhHomology;
use yui_kh::khi::internal::v2::builder::SymTngBuilder;
use yui_kh::khi::{ssi_invariants, KhIComplex, KhIHomology};
use yui_link::InvLink;

const TABLE: [&str; 23] = [
    "3_1", "4_1", "5_1", "5_2a", "5_2b", "6_1a", "6_1b", "6_2a", "6_2b", "6_3", "7_1", "7_2a", "7_2b", "7_3a", "7_3b", "7_4a", "7_4b", "7_5a", "7_5b", "7_6a", "7_6b", "7_7a", "7_7b",
];

/// a symmetric input: PD code with labels 1..2n, its reference diagram, label of every edge id
struct Sym {
    name: String,
    code: Vec<[usize; 4]>,
    d: Diagram,
    labels: Vec<usize>,
    /// tau on edge ids
    tau: Vec<usize>,
}

fn make_sym(name: String, code: Vec<[usize; 4]>) -> Option<Sym> {
    let (d, labels) = Diagram::from_pd(&code)?;
    let n2 = labels.len();
    let tau_label = |e: usize| (n2 + 1 - e) % n2 + 1;
    let id_of: BTreeMap<usize, usize> = labels.iter().enumerate().map(|(k, &l)| (l, k)).collect();
    if labels.iter().any(|l| *l < 1 || *l > n2) {
        return None;
    }
    let tau: Vec<usize> = labels.iter().map(|&l| id_of[&tau_label(l)]).collect();
    let (refl, rot) = vcore::reflink::involution_type(&d, &tau)?;
    let kind = match (refl, rot) {
        (true, true) => "both",
        (true, false) => "reflection",
        (false, true) => "rotation",
        (false, false) => "mixed",
    };
    Some(Sym { name: format!("{kind}:{name}"), code, d, labels, tau })
}

fn total_dims<T: RefEuclid>(t: &BTreeMap<i64, Module<T>>) -> BTreeMap<i64, usize> {
    t.iter().map(|(k, m)| (*k, m.rank)).collect()
}

fn check_cone(run: &Run, s: &Sym, mirror: bool, h: u32, t: u32, reduced: bool) {
    if reduced && t != 0 {
        return;
    }
    let key = format!("khi:{}:mirror={}:h={h},t={t},red={}", s.name, mirror as u8, reduced as u8);
    let detail = || json!({"pd": s.code, "mirror": mirror, "h": h, "t": t, "reduced": reduced});
    run.add("evaluations", 1);
    let orig_code = s.code.clone();
    // the mirror image as a PD code with the same labels: re-base every crossing at its over strand
    let ms;
    let s = if mirror {
        let code: Vec<[usize; 4]> = (0..s.d.n).map(|c| { let x = s.code[c]; if s.d.dir[c] { [x[3], x[0], x[1], x[2]] } else { [x[1], x[2], x[3], x[0]] } }).collect();
        match make_sym(format!("{}:mirror", s.name.splitn(2, ':').nth(1).unwrap_or(&s.name)), code) {
            Some(m) => { ms = m; &ms }
            None => {
                eprintln!("MACHINERY ERROR: mirrored code of {} is not symmetric for the reference", s.name);
                std::process::exit(3);
            }
        }
    } else {
        s
    };
    let base = reduced.then(|| s.labels.iter().position(|&l| l == 1).unwrap());
    let Some(reference) = khovanov_involutive(&s.d, &s.tau, &Fp(h), &Fp(t), base) else {
        eprintln!("MACHINERY ERROR: reference involution is not a chain map on {} (mirror={mirror}, h={h}, t={t}, reduced={reduced})", s.name);
        std::process::exit(3);
    };
    let lib = catch(|| {
        // library side: Link::mirror() of the original code
        let l = InvLink::sinv_knot_from_code(orig_code.clone());
        let l = if mirror { l.mirror() } else { l };
        let c = KhIComplex::<FF2>::new(&l, &FF2::from(h as i32), &FF2::from(t as i32), reduced);
        c.check_d_all();
        let hm = KhIHomology::from(&c);
        let tot: BTreeMap<i64, usize> = hm.support().map(|i| (i as i64, hm[i].rank())).filter(|x| x.1 > 0).collect();
        let big: Option<BTreeMap<(i64, i64), usize>> = if h == 0 && t == 0 {
            // homology of the bigraded pieces of the involutive complex
            let cb = c.clone().into_bigraded();
            let hb = cb.homology();
            Some(hb.support().map(|idx| { let isize2(i, j) = idx; ((i as i64, j as i64), hb[idx].rank()) }).filter(|x| x.1 > 0).collect())
        } else {
            None
        };
        (tot, big)
    });
    match lib {
        Ok((tot, big)) => {
            let want = total_dims(&reference.total);
            if tot != want {
                run.fail(&key, &format!("involutive homology dimensions {tot:?} differ from the cone of 1+tau on the cube {want:?}"), detail());
            }
            if let (Some(b), Some(rb)) = (big, &reference.bigraded) {
                let want: BTreeMap<(i64, i64), usize> = rb.iter().map(|(k, m)| (*k, m.rank)).collect();
                if b != want {
                    run.fail(&format!("{key}:bigraded"), &format!("bigraded dimensions {b:?} differ from the reference {want:?}"), detail());
                }
            }
        }
        Err(p) => run.fail(&key, &format!("panicked (d∘d check or construction): {p}"), detail()),
    }
}

/// Range-restricted builds (`SymTngBuilder::set_h_range`, used by the repository's long experiments): the
/// builder keeps only the vertices of Kh-degree h0..=h1.  The cone in degree i is CKh^i + CKh^{i-1}, so the
/// involutive homology in degree i needs CKh^{i-2..=i+1}; it must equal the reference wherever each of these
/// degrees lies in the window or outside the degrees -n_minus..=n_plus of the diagram.  Every window
/// inside -n_minus-1..=n_plus+1.  (For a window that does not contain 0 the canonical cycles are cleared:
/// the builder does not drop them - its own TODO - and they are not what this check is about.)
fn check_cone_windows(run: &Run, s: &Sym, mirror: bool, h: u32, t: u32, reduced: bool) {
    if reduced && t != 0 {
        return;
    }
    let orig_code = s.code.clone();
    let ms;
    let s = if mirror {
        let code: Vec<[usize; 4]> = (0..s.d.n).map(|c| { let x = s.code[c]; if s.d.dir[c] { [x[3], x[0], x[1], x[2]] } else { [x[1], x[2], x[3], x[0]] } }).collect();
        match make_sym(format!("{}:mirror", s.name.splitn(2, ':').nth(1).unwrap_or(&s.name)), code) {
            Some(m) => { ms = m; &ms }
            None => return,
        }
    } else {
        s
    };
    let base = reduced.then(|| s.labels.iter().position(|&l| l == 1).unwrap());
    let Some(reference) = khovanov_involutive(&s.d, &s.tau, &Fp(h), &Fp(t), base) else { return };
    let want = total_dims(&reference.total);
    let (lo, hi) = (-(s.d.n_neg() as i64), s.d.n_pos() as i64);
    for h0 in lo - 1..=hi + 1 {
        for h1 in h0..=hi + 1 {
            let key = format!("khi-window:{}:mirror={}:h={h},t={t},red={}:window={h0}..={h1}", s.name, mirror as u8, reduced as u8);
            let detail = || json!({"pd": s.code, "mirror": mirror, "h": h, "t": t, "reduced": reduced, "window": [h0, h1]});
            run.add("evaluations", 1);
            run.add("window_runs", 1);
            let lib = catch(|| {
                let l = InvLink::sinv_knot_from_code(orig_code.clone());
                let l = if mirror { l.mirror() } else { l };
                let mut b = SymTngBuilder::<FF2>::new(&l, &FF2::from(h as i32), &FF2::from(t as i32), reduced);
                if !(h0 <= 0 && 0 <= h1) {
                    b.set_elements(vec![]);
                }
                b.set_h_range(h0 as isize..=h1 as isize);
                b.preprocess();
                b.process_all();
                b.finalize();
                let c = b.into_khi_complex();
                c.check_d_all();
                let hm = KhIHomology::from(&c);
                let tot: BTreeMap<i64, usize> = hm.support().map(|i| (i as i64, hm[i].rank())).collect();
                tot
            });
            match lib {
                Ok(tot) => {
                    let avail = |j: i64| (h0 <= j && j <= h1) || j < lo || j > hi;
                    for i in h0..=h1 + 1 {
                        if !(i - 2..=i + 1).all(avail) {
                            continue;
                        }
                        run.add("window_degrees_compared", 1);
                        let (a, b) = (tot.get(&i).copied().unwrap_or(0), want.get(&i).copied().unwrap_or(0));
                        if a != b {
                            run.fail(&key, &format!("degree {i} (all four Kh degrees it needs are available): dimension {a}, cone of 1+tau on the cube has {b}"), detail());
                            break;
                        }
                    }
                }
                Err(p) => run.fail(&key, &format!("range-restricted build panicked: {p}"), detail()),
            }
        }
    }
}

/// F2[H] coefficients (h = H, t = 0): the complex is read entry by entry, evaluated at H = 0 and
/// H = 1 with reference arithmetic, and the dimensions of its homology over F2 must be those of
/// the reference cone built directly with h = 0 / 1.  Also d∘d = 0 and homogeneity (deg H = -2).
fn check_cone_poly(run: &Run, s: &Sym, reduced: bool) {
    use vcore::refmat::RMat;
    use yui::poly::{Mono, Poly};
    type PH = Poly<'H', FF2>;
    let key = format!("khi:{}:F2[H]:red={}", s.name, reduced as u8);
    let detail = || json!({"pd": s.code, "ring": "F2[H]", "reduced": reduced});
    run.add("evaluations", 1);
    let read = catch(|| {
        let l = InvLink::sinv_knot_from_code(s.code.clone());
        let c = KhIComplex::<PH>::new(&l, &PH::variable(), &PH::from_const(FF2::from(0)), reduced);
        c.check_d_all();
        let degs: Vec<isize> = c.support().collect();
        let mut out: BTreeMap<isize, (usize, usize, Vec<(usize, usize, Vec<usize>)>, Vec<isize>)> = BTreeMap::new();
        for &i in &degs {
            let m = c.d_matrix(i);
            let qs: Vec<isize> = c[i].raw_gens().iter().map(|x| x.q_deg()).collect();
            let mut e = vec![];
            for (r, col, a) in m.iter() {
                let exps: Vec<usize> = a.iter().filter(|(_, v)| !num_traits::Zero::is_zero(*v)).map(|(x, _)| x.deg()).collect();
                if !exps.is_empty() {
                    e.push((r, col, exps));
                }
            }
            out.insert(i, (yui_matrix::MatTrait::nrows(&m), yui_matrix::MatTrait::ncols(&m), e, qs));
        }
        (degs, out)
    });
    let (degs, dm) = match read {
        Ok(x) => x,
        Err(p) => {
            run.fail(&key, &format!("construction or d∘d check panicked: {p}"), detail());
            return;
        }
    };
    // homogeneity
    for &i in &degs {
        let (_, _, e, qs) = &dm[&i];
        if let Some((_, _, _, qs1)) = dm.get(&(i + 1)) {
            for (r, c, exps) in e {
                for a in exps {
                    if qs1[*r] - 2 * (*a as isize) != qs[*c] {
                        run.fail(&format!("{key}:qdeg"), &format!("d[{i}] entry ({r},{c}) H^{a}: q {} -> {}", qs[*c], qs1[*r]), detail());
                    }
                }
            }
        }
    }
    let base = reduced.then(|| s.labels.iter().position(|&l| l == 1).unwrap());
    for h0 in [0u32, 1] {
        run.add("evaluations", 1);
        let Some(reference) = khovanov_involutive(&s.d, &s.tau, &Fp(h0), &Fp(0), base) else {
            eprintln!("MACHINERY ERROR: reference involution is not a chain map on {}", s.name);
            std::process::exit(3);
        };
        let mut rk: BTreeMap<isize, usize> = BTreeMap::new();
        for &i in &degs {
            let (m, n, e, _) = &dm[&i];
            let mut mat = RMat::<Fp<2>>::zero(*m, *n);
            for (r, c, exps) in e {
                // evaluate the polynomial entry at H = h0 (characteristic 2)
                let v = exps.iter().filter(|a| h0 == 1 || **a == 0).count() % 2;
                mat.set(*r, *c, Fp(v as u32));
            }
            rk.insert(i, if *m > 0 && *n > 0 { mat.invariant_factors_by_elimination().len() } else { 0 });
        }
        let dims: BTreeMap<i64, usize> = degs
            .iter()
            .map(|&i| (i as i64, dm[&i].1 - rk[&i] - rk.get(&(i - 1)).copied().unwrap_or(0)))
            .filter(|x| x.1 > 0)
            .collect();
        let want = total_dims(&reference.total);
        if dims != want {
            run.fail(&format!("{key}:H={h0}"), &format!("complex over F2[H] evaluated at H={h0} has homology dimensions {dims:?}, the reference cone has {want:?}"), detail());
        }
    }
}

fn check_sym_kh(run: &Run, s: &Sym, h: u32, t: u32, reduced: bool) {
    if reduced && t != 0 {
        return;
    }
    let key = format!("khsym:{}:h={h},t={t},red={}", s.name, reduced as u8);
    run.add("evaluations", 1);
    let base = reduced.then(|| s.labels.iter().position(|&l| l == 1).unwrap());
    let reference = khovanov::<Fp<2>>(&s.d, &Fp(h), &Fp(t), base).total;
    match catch(|| {
        let l = InvLink::sinv_knot_from_code(s.code.clone());
        let c = SymTngBuilder::<FF2>::build_kh_complex(&l, &FF2::from(h as i32), &FF2::from(t as i32), reduced);
        total_table(&KhHomology::from(&c))
    }) {
        Ok(tab) => {
            if let Some(df) = diff_tables(&tab, &reference) {
                run.fail(&key, &format!("symmetric construction without the involutive part differs from ordinary Kh: {df}"), json!({"pd": s.code}));
            }
        }
        Err(p) => run.fail(&key, &format!("panicked: {p}"), json!({"pd": s.code})),
    }
}

type P = HPoly<'H', FF2>;

fn ssi(code: &[[usize; 4]], mirror: bool, reduced: bool) -> Result<(i32, i32), String> {
    let code = code.to_vec();
    catch(move || {
        let l = InvLink::sinv_knot_from_code(code);
        let l = if mirror { l.mirror() } else { l };
        ssi_invariants::<P>(&l, &P::variable(), reduced)
    })
}

fn check_ssi(run: &Run, s: &Sym) {
    let key = format!("ssi:{}", s.name);
    for reduced in [false, true] {
        run.add("evaluations", 2);
        let (a, m) = (ssi(&s.code, false, reduced), ssi(&s.code, true, reduced));
        let (Ok((s0, s1)), Ok((m0, m1))) = (&a, &m) else {
            run.fail(&format!("{key}:red={}", reduced as u8), &format!("panicked: {:?} {:?}", a.as_ref().err(), m.as_ref().err()), json!({"pd": s.code}));
            continue;
        };
        if !(s0 <= s1 && (s1 - s0) % 2 == 0) {
            run.fail(&format!("{key}:red={}", reduced as u8), &format!("(s0,s1)=({s0},{s1}) violates s0 <= s1, s0 = s1 mod 2"), json!({"pd": s.code}));
        }
        if (*m0, *m1) != (-s1, -s0) {
            run.fail(&format!("{key}:mirror:red={}", reduced as u8), &format!("mirror gives ({m0},{m1}), expected ({},{})", -s1, -s0), json!({"pd": s.code}));
        }
        // the library's elimination order is hash-seeded: the same call is repeated so that an
        // order-dependent answer is seen as a disagreement between repetitions
        for rep in 0..3 {
            run.add("evaluations", 2);
            for mirror in [false, true] {
                let want = if mirror { (*m0, *m1) } else { (*s0, *s1) };
                match ssi(&s.code, mirror, reduced) {
                    Ok(x) if x == want => {}
                    Ok(x) => run.fail(&format!("{key}:repeat:m={}:red={}", mirror as u8, reduced as u8), &format!("repetition {rep} of the same call gives {x:?}, first call gave {want:?}"), json!({"pd": s.code, "mirror": mirror})),
                    Err(e) => run.fail(&format!("{key}:repeat:m={}:red={}", mirror as u8, reduced as u8), &format!("repetition {rep} of the same call panicked: {e}"), json!({"pd": s.code, "mirror": mirror})),
                }
            }
        }
        // crossing-list permutations
        let n = s.code.len();
        let perms: Vec<Vec<usize>> = if n <= 4 {
            all_permutations(n).into_iter().skip(1).collect()
        } else {
            let mut v: Vec<Vec<usize>> = (1..n).map(|k| (0..n).map(|i| (i + k) % n).collect()).collect();
            v.push((0..n).rev().collect());
            v
        };
        for p in perms {
            run.add("evaluations", 1);
            let code2: Vec<[usize; 4]> = p.iter().map(|&i| s.code[i]).collect();
            match ssi(&code2, false, reduced) {
                Ok(x) if x == (*s0, *s1) => {}
                Ok(x) => run.fail(&format!("{key}:perm{p:?}:red={}", reduced as u8).replace(' ', ""), &format!("ssi changes from ({s0},{s1}) to {x:?} when the crossings are listed in another order"), json!({"pd": s.code, "order": p})),
                Err(e) => run.fail(&format!("{key}:perm{p:?}:red={}", reduced as u8).replace(' ', ""), &format!("panicked: {e}"), json!({"pd": s.code, "order": p})),
            }
        }
    }
}

/// Equivariant pairs of Reidemeister-I kinks: a kink on an edge e and a kink on tau(e) (all 4 x 4
/// sign / over-under variants; kept iff the result is again a symmetric diagram for the loader's
/// numbering from some starting edge, which `make_sym` decides together with the reference), listed
/// in several crossing orders.  Such diagrams have off-axis crossings that are separated from the
/// other off-axis crossings by on-axis ones (more than one off-axis "cluster" per side), which no
/// table entry and no diagram with <= 4 crossings has (seed `C19-off-axis-clusters-by-count`).
fn kinked_inputs(s: &Sym, out: &mut Vec<Sym>, seen: &mut std::collections::BTreeSet<Vec<[usize; 4]>>) {
    let d = &s.d;
    let outs = d.out_darts();
    for e in 0..2 * d.n {
        let te = s.tau[e];
        if te <= e {
            continue; // one representative per pair; edges fixed by tau cross the axis
        }
        for v in 0..16u32 {
            let d1 = d.r1(outs[e], v & 1 != 0, v & 2 != 0);
            // the darts of the old crossings keep their indices, so outs[te] still leaves along tau(e)
            let d2 = d1.r1(outs[te], v & 4 != 0, v & 8 != 0);
            let n = d2.n;
            let (k1, k2) = (n - 2, n - 1);
            let rest: Vec<usize> = (0..n - 2).collect();
            let orders: Vec<(&str, Vec<usize>)> = vec![
                ("kinks-last", (0..n).collect()),
                ("kinks-first", [vec![k1, k2], rest.clone()].concat()),
                ("kink-first-kink-last", [vec![k1], rest.clone(), vec![k2]].concat()),
                ("kink-second", [vec![rest[0], k1], rest[1..].to_vec(), vec![k2]].concat()),
                ("reversed", (0..n).rev().collect()),
            ];
            for (oname, perm) in orders {
                let dd = d2.reorder(&perm);
                let comps = dd.components();
                if comps.len() != 1 {
                    continue;
                }
                let cyc = &comps[0];
                let n2 = cyc.len();
                for start in 0..n2 {
                    let mut lab = vec![0usize; n2];
                    for k in 0..n2 {
                        lab[cyc[(start + k) % n2]] = k + 1;
                    }
                    let code = dd.pd_with(&|x| lab[x]);
                    if seen.contains(&code) {
                        continue;
                    }
                    if let Some(k) = make_sym(format!("kink:{}:e{e}:v{v}:{oname}:start{start}", s.name.splitn(2, ':').nth(1).unwrap_or(&s.name)), code.clone()) {
                        if k.name.starts_with("reflection") || k.name.starts_with("both") {
                            seen.insert(code);
                            out.push(k);
                        }
                    }
                }
            }
        }
    }
}

fn table_code(name: &str) -> Vec<[usize; 4]> {
    pd_of(InvLink::load(name).unwrap().link())
}

fn main() {
    let run = Run::new("C19", "exploration");
    let th = run.thorough();
    let mut inputs: Vec<Sym> = vec![];
    for name in TABLE {
        let code = table_code(name);
        if code.len() > if th { 9 } else { 7 } {
            continue;
        }
        match make_sym(format!("table:{name}"), code.clone()) {
            Some(s) => inputs.push(s),
            None => run.fail(&format!("khi:table:{name}"), "the built-in table entry is not a symmetric diagram in the reference's sense (filter would be unsound)", json!({"pd": code})),
        }
    }
    run.add("table_entries", inputs.len() as u64);
    // generated: every 1-component planar diagram, renumbered along the knot from every start
    let nmax = if th { 4 } else { 3 };
    for (name, d) in planar_family(nmax) {
        let comps = d.components();
        if comps.len() != 1 {
            continue;
        }
        let cyc = &comps[0];
        let n2 = cyc.len();
        for start in 0..n2 {
            // label of edge cyc[(start + k) % n2] is k + 1
            let mut lab = vec![0usize; n2];
            for k in 0..n2 {
                lab[cyc[(start + k) % n2]] = k + 1;
            }
            let code = d.pd_with(&|e| lab[e]);
            if let Some(s) = make_sym(format!("{name}:start{start}"), code) {
                inputs.push(s);
            }
        }
    }
    // kinked table entries last: they are the most expensive inputs (two more crossings each), the
    // exhaustive small diagrams must not lose their share of the wall budget to them
    {
        let mut kinked = vec![];
        let mut seen = std::collections::BTreeSet::new();
        for s in inputs.iter().filter(|s| s.name.contains("table:") && s.d.n <= if th { 5 } else { 4 }) {
            kinked_inputs(s, &mut kinked, &mut seen);
        }
        run.add("kinked_inputs", kinked.len() as u64);
        inputs.extend(kinked);
    }
    run.add("symmetric_inputs", inputs.len() as u64);
    run.par_for(inputs.len(), |i| {
        if run.over_budget() {
            run.cap("wall budget reached");
            return;
        }
        let s = &inputs[i];
        run.add(&format!("inputs_{}", s.name.split(':').next().unwrap_or("?")), 1);
        if i % 40 == 0 {
            run.sample(json!({"name": s.name, "pd": s.code, "crossings": s.d.n}));
        }
        for mirror in [false, true] {
            for (h, t) in [(0, 0), (1, 0), (0, 1), (1, 1)] {
                for reduced in [false, true] {
                    check_cone(&run, s, mirror, h, t, reduced);
                }
            }
        }
        for (h, t) in [(0, 0), (1, 0), (0, 1)] {
            for reduced in [false, true] {
                check_sym_kh(&run, s, h, t, reduced);
            }
        }
        // range-restricted builds: reflection-type inputs only (the rotation-type ones are the known finding)
        if (s.name.starts_with("reflection") || s.name.starts_with("both")) && s.d.n <= if th { 6 } else { 5 } && !s.name.contains("kink") {
            run.add("window_inputs", 1);
            for mirror in [false, true] {
                for (h, t, reduced) in [(0, 0, false), (0, 0, true), (1, 0, false), (0, 1, false), (1, 0, true)] {
                    check_cone_windows(&run, s, mirror, h, t, reduced);
                }
            }
        }
        for reduced in [false, true] {
            check_cone_poly(&run, s, reduced);
        }
        check_ssi(&run, s);
    });
    let coverage = json!({
        "evaluations": run.get("evaluations"),
        "distinct_nontrivial": run.get("symmetric_inputs"),
        "rule": "inputs = built-in strongly invertible table entries (<= 6 crossings quick, all thorough) + every 1-component planar diagram with <= 3 (thorough 4) crossings renumbered along the knot from every starting edge, kept iff the loader's involution acts on the crossings (reference test; the filter is validated on the whole table first); x mirror x (h,t) in F2^2 x reduced/unreduced; oracle = dimensions of the homology of the reference cone of 1+tau on the reference cube",
        "table_entries": run.get("table_entries"),
        "range_restricted_builds": {"rule": "SymTngBuilder::new + set_h_range(h0..=h1) + preprocess + process_all + finalize + into_khi_complex on the reflection-type inputs with <= 5 (thorough 6) crossings, every window inside -n_minus-1..=n_plus+1, x mirror x 5 configurations; dimensions compared with the reference cone in every degree whose four Kh degrees are inside the window or outside the diagram's degrees; check_d_all on every result", "inputs": run.get("window_inputs"), "runs": run.get("window_runs"), "degrees_compared": run.get("window_degrees_compared")},
        "exhaustive": true,
    });
    run.finish(
        coverage,
        &[
            "reference tau: edges by the loader's formula, crossings by edge sets, circles by edge images; the reference checks that its tau is a chain map (d∘d = 0 in the cone) before it is used",
            "F2[H] coefficients (h = H, t = 0): d∘d = 0, homogeneity, and evaluation at H = 0, 1 against the reference cone; plus the ssi invariants with c = H",
        ],
    );
}
