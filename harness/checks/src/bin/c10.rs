//! C10 — LLL and LLL-based Hermite normal form return unimodular, reduced results.
//! Bounded exhaustive over small integer / Gaussian / Eisenstein matrices (+ boundary alphabet
//! with BigInt parts); oracles use exact rational (quadratic-field) Gram–Schmidt.

use checks::bridge::Bridge;
use checks::matconv::{from_mat, matrix_at, matrix_count, to_mat};
use num_bigint::BigInt;
use vcore::refmat::RMat;
use vcore::refnum::*;
use vcore::{catch, json, Run};
use yui::{EisenInt, GaussInt};
use yui_matrix::dense::lll::{lll, lll_hnf, LLLRing, LLLRingOps};

fn pow2(k: u32) -> Z {
    BigInt::from(1) << k
}
fn pow10(k: u32) -> Z {
    num_traits::pow(BigInt::from(10), k as usize)
}

/// what the oracle needs to know about the ring
trait LatticeRing: RefEuclid {
    /// the field of fractions with a conjugation
    type F: RefRing;
    fn emb(&self) -> Self::F;
    fn fconj(x: &Self::F) -> Self::F;
    fn finv(x: &Self::F) -> Self::F;
    /// |x|^2 as a rational
    fn fnorm(x: &Self::F) -> Q;
    /// is x inside the (closed) fundamental domain of the ring's rounding?
    fn size_reduced(x: &Self::F) -> bool;
    fn alpha() -> Q;
    fn f_from_q(q: &Q) -> Self::F;
    /// library normal form of a pivot: the normalised associate
    fn norm_z(&self) -> Z;
    /// a + b*theta (None if the ring has no second coordinate and b != 0)
    fn small(a: i64, b: i64) -> Option<Self>
    where
        Self: Sized;
}

fn half() -> Q {
    Q::new(z(1), z(2))
}
fn le_half(x: &Q) -> bool {
    x.abs().cmp_q(&half()) != std::cmp::Ordering::Greater
}

impl LatticeRing for Z {
    type F = Q;
    fn emb(&self) -> Q {
        Q::from_z(self.clone())
    }
    fn fconj(x: &Q) -> Q {
        x.clone()
    }
    fn finv(x: &Q) -> Q {
        x.inv().unwrap()
    }
    fn fnorm(x: &Q) -> Q {
        x.mul(x)
    }
    fn size_reduced(x: &Q) -> bool {
        le_half(x)
    }
    fn alpha() -> Q {
        Q::new(z(3), z(4))
    }
    fn f_from_q(q: &Q) -> Q {
        q.clone()
    }
    fn norm_z(&self) -> Z {
        self * self
    }
    fn small(a: i64, b: i64) -> Option<Self> {
        (b == 0).then(|| z(a))
    }
}

impl LatticeRing for Quad<-1> {
    type F = QF<-1>;
    fn emb(&self) -> QF<-1> {
        QF::from_quad(self)
    }
    fn fconj(x: &QF<-1>) -> QF<-1> {
        x.conj()
    }
    fn finv(x: &QF<-1>) -> QF<-1> {
        x.inv().unwrap()
    }
    fn fnorm(x: &QF<-1>) -> Q {
        x.norm()
    }
    fn size_reduced(x: &QF<-1>) -> bool {
        le_half(&x.a) && le_half(&x.b)
    }
    fn alpha() -> Q {
        Q::new(z(3), z(4))
    }
    fn f_from_q(q: &Q) -> QF<-1> {
        QF::rational(q.clone())
    }
    fn norm_z(&self) -> Z {
        self.norm()
    }
    fn small(a: i64, b: i64) -> Option<Self> {
        Some(Quad::of(a, b))
    }
}

impl LatticeRing for Quad<-3> {
    type F = QF<-3>;
    fn emb(&self) -> QF<-3> {
        QF::from_quad(self)
    }
    fn fconj(x: &QF<-3>) -> QF<-3> {
        x.conj()
    }
    fn finv(x: &QF<-3>) -> QF<-3> {
        x.inv().unwrap()
    }
    fn fnorm(x: &QF<-3>) -> Q {
        x.norm()
    }
    /// x = a + b*omega = (a + b) + b*(omega - 1): the library documents rounding of the two
    /// coordinates in the basis (1, omega - 1); an exactly rounding implementation leaves both
    /// in [-1/2, 1/2].
    fn size_reduced(x: &QF<-3>) -> bool {
        le_half(&x.a.add(&x.b)) && le_half(&x.b)
    }
    fn alpha() -> Q {
        Q::new(z(2), z(3))
    }
    fn f_from_q(q: &Q) -> QF<-3> {
        QF::rational(q.clone())
    }
    fn norm_z(&self) -> Z {
        self.norm()
    }
    fn small(a: i64, b: i64) -> Option<Self> {
        Some(Quad::of(a, b))
    }
}

fn hdot<T: LatticeRing>(u: &[T::F], v: &[T::F]) -> T::F {
    u.iter().zip(v).fold(T::F::zero(), |acc, (a, b)| acc.add(&a.mul(&T::fconj(b))))
}

/// exact Gram–Schmidt: returns (|b*_i|^2, mu) or None if the rows are dependent
fn gram_schmidt<T: LatticeRing>(b: &RMat<T>) -> Option<(Vec<Q>, Vec<Vec<T::F>>)> {
    let m = b.m;
    let rows: Vec<Vec<T::F>> = (0..m).map(|i| (0..b.n).map(|j| b.at(i, j).emb()).collect()).collect();
    let mut star: Vec<Vec<T::F>> = vec![];
    let mut norms: Vec<Q> = vec![];
    let mut mu = vec![vec![T::F::zero(); m]; m];
    for i in 0..m {
        let mut v = rows[i].clone();
        for j in 0..i {
            let c = hdot::<T>(&rows[i], &star[j]).mul(&T::finv(&T::f_from_q(&norms[j])));
            mu[i][j] = c.clone();
            for k in 0..b.n {
                v[k] = v[k].sub(&c.mul(&star[j][k]));
            }
        }
        let n = v.iter().fold(Q::int(0), |acc, x| acc.add(&T::fnorm(x)));
        if n.is_zero() {
            return None;
        }
        norms.push(n);
        star.push(v);
    }
    Some((norms, mu))
}

/// the units of the reference ring among a + b*theta with |a|, |b| <= 1 (all of them for Z, Z[i], Z[omega])
fn units<F: RefEuclid + LatticeRing>() -> Vec<F> {
    let mut v = vec![];
    for a in -1..=1i64 {
        for b in -1..=1i64 {
            if let Some(x) = F::small(a, b) {
                if x.is_unit() && !v.contains(&x) {
                    v.push(x);
                }
            }
        }
    }
    v
}

fn check_hnf<R>(run: &Run, ring: &'static str, a: &RMat<R::Ref>, code: &str)
where
    R: LLLRing + Bridge + nalgebra::Scalar + nalgebra::ClosedAddAssign,
    for<'x> &'x R: LLLRingOps<R>,
    R::Ref: LatticeRing,
{
    let m = to_mat::<R>(a);
    for flags in [[true, true], [true, false], [false, true], [false, false]] {
        let key = format!("hnf:{ring}:{}x{}:{code}:flags={}{}", a.m, a.n, flags[0] as u8, flags[1] as u8);
        run.add("evaluations", 1);
        let detail = || json!({"ring": ring, "matrix": a.show(), "flags": flags});
        let (h, p, pinv) = match catch(|| lll_hnf(&m, flags)) {
            Ok(r) => r,
            Err(p) => {
                run.fail(&key, &format!("panicked: {p}"), detail());
                continue;
            }
        };
        let hr = from_mat(&h);
        let (p, pinv) = (p.as_ref().map(from_mat), pinv.as_ref().map(from_mat));
        let mut bad: Option<String> = None;
        let mut fail = |s: String| {
            if bad.is_none() {
                bad = Some(s)
            }
        };
        if p.is_some() != flags[0] || pinv.is_some() != flags[1] {
            fail("returned transforms do not match the flags".into());
        }
        if (hr.m, hr.n) != (a.m, a.n) {
            fail(format!("H has shape {}x{}", hr.m, hr.n));
        } else {
            if let Some(p) = &p {
                if p.mul(a) != hr {
                    fail(format!("H != P*A: H={} P={}", hr.show(), p.show()));
                }
                if p.m <= 4 && !p.det().is_unit() {
                    fail(format!("P not unimodular: {}", p.show()));
                }
            }
            if let Some(pi) = &pinv {
                if pi.mul(&hr) != *a {
                    fail(format!("Pinv*H != A: H={} Pinv={}", hr.show(), pi.show()));
                }
            }
            if let (Some(p), Some(pi)) = (&p, &pinv) {
                if !p.mul(pi).is_id() || !pi.mul(p).is_id() {
                    fail(format!("P*Pinv != I: P={} Pinv={}", p.show(), pi.show()));
                }
            }
            // same row lattice even when no transform was requested: ranks and Smith invariants agree
            if hr.rank() != a.rank() {
                fail(format!("rank(H)={} != rank(A)={}", hr.rank(), a.rank()));
            }
            // row echelon form
            let mut last: Option<usize> = None;
            let mut seen_zero_row = false;
            for i in 0..hr.m {
                let lead = (0..hr.n).find(|&j| !hr.at(i, j).is_zero());
                match lead {
                    None => seen_zero_row = true,
                    Some(j) => {
                        if seen_zero_row {
                            fail(format!("non-zero row {i} below a zero row: {}", hr.show()));
                        }
                        if let Some(l) = last {
                            if j <= l {
                                fail(format!("pivot columns not strictly increasing at row {i}: {}", hr.show()));
                            }
                        }
                        last = Some(j);
                        let piv = hr.at(i, j);
                        // normalised pivot: the pivot is the representative that the library's
                        // normalisation assigns to EVERY associate of it (so the check does not
                        // trust `normalized()` to be constant on the class; seed
                        // `C10-eisen-normalizing-unit-sector`: a fixed point of a broken
                        // normalisation is not a canonical representative)
                        if h[(i, j)].normalized() != h[(i, j)] {
                            fail(format!("pivot {} at ({i},{j}) is not normalised: {}", piv.show(), hr.show()));
                        }
                        for u in units::<R::Ref>() {
                            let assoc = R::from_ref(&piv.mul(&u));
                            if assoc.normalized() != h[(i, j)] {
                                fail(format!(
                                    "pivot {} at ({i},{j}) is not the canonical representative of its class: its associate {} normalises to {}: {}",
                                    piv.show(), piv.mul(&u).show(), assoc.normalized().to_ref().show(), hr.show()
                                ));
                            }
                        }
                        for i2 in i + 1..hr.m {
                            if !hr.at(i2, j).is_zero() {
                                fail(format!("non-zero entry below the pivot ({i},{j}): {}", hr.show()));
                            }
                        }
                        for i2 in 0..i {
                            if hr.at(i2, j).norm_z() >= piv.norm_z() {
                                fail(format!("entry above pivot ({i},{j}) is not of strictly smaller norm: {}", hr.show()));
                            }
                        }
                    }
                }
            }
        }
        if let Some(b) = bad {
            run.fail(&key, &b, detail());
        }
    }
}

fn check_lll<R>(run: &Run, ring: &'static str, a: &RMat<R::Ref>, code: &str)
where
    R: LLLRing + Bridge + nalgebra::Scalar + nalgebra::ClosedAddAssign,
    for<'x> &'x R: LLLRingOps<R>,
    R::Ref: LatticeRing,
{
    if a.m == 0 || a.rank() != a.m {
        return; // LLL is specified for independent rows
    }
    run.add("lll_inputs", 1);
    let m = to_mat::<R>(a);
    for with_trans in [true, false] {
        let key = format!("lll:{ring}:{}x{}:{code}:trans={}", a.m, a.n, with_trans as u8);
        run.add("evaluations", 1);
        let detail = || json!({"ring": ring, "matrix": a.show(), "with_trans": with_trans});
        let (b, p) = match catch(|| lll(&m, with_trans)) {
            Ok(r) => r,
            Err(p) => {
                run.fail(&key, &format!("panicked: {p}"), detail());
                continue;
            }
        };
        let br = from_mat(&b);
        let p = p.as_ref().map(from_mat);
        if p.is_some() != with_trans {
            run.fail(&key, "transform presence does not match the flag", detail());
            continue;
        }
        if (br.m, br.n) != (a.m, a.n) {
            run.fail(&key, "result has a different shape", detail());
            continue;
        }
        if let Some(p) = &p {
            if p.mul(a) != br {
                run.fail(&key, &format!("B != P*A: B={} P={}", br.show(), p.show()), detail());
                continue;
            }
            if !p.det().is_unit() {
                run.fail(&key, &format!("P is not unimodular (det {}): {}", p.det().show(), p.show()), detail());
                continue;
            }
        } else if br.rank() != a.m || !vcore::refmat::same_factors(&br.invariant_factors(), &a.invariant_factors()) {
            // without P: B must at least span a lattice with the same invariants
            run.fail(&key, &format!("B={} does not have the Smith invariants of A", br.show()), detail());
            continue;
        }
        let Some((norms, mu)) = gram_schmidt::<R::Ref>(&br) else {
            run.fail(&key, &format!("rows of B={} are dependent", br.show()), detail());
            continue;
        };
        let mut bad = None;
        for i in 0..br.m {
            for j in 0..i {
                if !<R::Ref as LatticeRing>::size_reduced(&mu[i][j]) {
                    bad = Some(format!("not size-reduced: mu[{i}][{j}] = {:?}, B={}", mu[i][j], br.show()));
                }
            }
        }
        for k in 1..br.m {
            // |b*_k|^2 >= (alpha - |mu_{k,k-1}|^2) |b*_{k-1}|^2
            let lhs = norms[k].clone();
            let rhs = <R::Ref as LatticeRing>::alpha().sub(&<R::Ref as LatticeRing>::fnorm(&mu[k][k - 1])).mul(&norms[k - 1]);
            if lhs.cmp_q(&rhs) == std::cmp::Ordering::Less {
                bad = Some(format!("Lovasz condition fails at k={k}: |b*_k|^2={lhs:?} < {rhs:?}, B={}", br.show()));
            }
        }
        if let Some(b) = bad {
            run.fail(&key, &b, detail());
        }
    }
}

fn sweep<R>(run: &Run, ring: &'static str, alphabet: &[R::Ref], shapes: &[(usize, usize)], do_lll: bool)
where
    R: LLLRing + Bridge + nalgebra::Scalar + nalgebra::ClosedAddAssign,
    for<'x> &'x R: LLLRingOps<R>,
    R::Ref: LatticeRing,
{
    for &(m, n) in shapes {
        let total = matrix_count(m, n, alphabet.len());
        run.add("inputs", total as u64);
        run.par_for(total, |i| {
            if run.over_budget() {
                run.cap("wall budget reached before all inputs were explored");
                return;
            }
            let (a, code) = &matrix_at(m, n, alphabet, i);
            if !a.is_zero() {
                run.add("nonzero_inputs", 1);
            }
            check_hnf::<R>(run, ring, a, code);
            if do_lll {
                check_lll::<R>(run, ring, a, code);
            }
        });
    }
    run.sample(json!({"ring": ring, "alphabet": alphabet.iter().map(|x| x.show()).collect::<Vec<_>>(), "shapes": shapes, "lll": do_lll}));
}

fn main() {
    let run = Run::new("C10", "exploration");
    let th = run.thorough();
    let z7: Vec<Z> = (-3..=3).map(z).collect();
    let z6: Vec<Z> = (-2..=3).map(z).collect();
    let z4: Vec<Z> = [0, 1, -1, 2].map(z).to_vec();
    let small: Vec<(usize, usize)> = vec![(0, 0), (0, 2), (2, 0), (1, 1), (1, 2), (2, 1), (1, 3), (3, 1), (2, 2)];
    sweep::<i64>(&run, "i64", &z7, &small, true);
    sweep::<i64>(&run, "i64", &z6, &[(2, 3), (3, 2)], true);
    sweep::<i64>(&run, "i64", &z4, &[(3, 3)], true);
    sweep::<i128>(&run, "i128", &z7, &[(2, 2)], true);
    sweep::<BigInt>(&run, "BigInt", &z7, &[(1, 1), (2, 1), (1, 2), (2, 2)], true);
    let g9: Vec<Quad<-1>> = [(0, 0), (1, 0), (-1, 0), (0, 1), (0, -1), (1, 1), (2, 0), (1, 2), (3, 0)].map(|(a, b)| Quad::of(a, b)).to_vec();
    let e9: Vec<Quad<-3>> = [(0, 0), (1, 0), (-1, 0), (0, 1), (-1, 1), (1, 1), (2, 0), (1, -1), (3, 0)].map(|(a, b)| Quad::of(a, b)).to_vec();
    sweep::<GaussInt<i64>>(&run, "GaussInt<i64>", &g9, &[(1, 1), (1, 2), (2, 1), (2, 2)], true);
    sweep::<GaussInt<i64>>(&run, "GaussInt<i64>", &g9[..5], &[(2, 3)], true);
    sweep::<EisenInt<i64>>(&run, "EisenInt<i64>", &e9, &[(1, 1), (1, 2), (2, 1), (2, 2)], true);
    sweep::<EisenInt<i64>>(&run, "EisenInt<i64>", &e9[..5], &[(2, 3)], true);
    sweep::<GaussInt<BigInt>>(&run, "GaussInt<BigInt>", &g9[..6], &[(2, 2)], true);
    sweep::<EisenInt<BigInt>>(&run, "EisenInt<BigInt>", &e9[..6], &[(2, 2)], true);
    // ---- four and five rows (the size-reduction loop of plain LLL only has more than one step from
    // ---- the fourth row on): all 0/1 matrices 4x4, and all triangular 4x4 matrices with diagonal
    // ---- in {1,2,3} and off-diagonal entries in {-1,0,1,2}, as upper and as lower triangular
    sweep::<i64>(&run, "i64", &[z(0), z(1)], &[(4, 4)], true);
    {
        let dg = [1i64, 2, 3];
        let off = [-1i64, 0, 1, 2];
        let total = 81 * 4096usize;
        run.add("inputs", 2 * total as u64);
        run.par_for(total, |idx| {
            if run.over_budget() {
                run.cap("wall budget reached before all inputs were explored");
                return;
            }
            let (mut d, mut o) = (idx % 81, idx / 81);
            let mut up = RMat::<Z>::zero(4, 4);
            for i in 0..4 {
                up.set(i, i, z(dg[d % 3]));
                d /= 3;
            }
            for i in 0..4 {
                for j in i + 1..4 {
                    up.set(i, j, z(off[o % 4]));
                    o /= 4;
                }
            }
            run.add("nonzero_inputs", 2);
            let code = format!("tri{idx}");
            check_lll::<i64>(&run, "i64/upper4", &up, &code);
            check_lll::<i64>(&run, "i64/lower4", &up.transpose(), &code);
            if idx % 16 == 0 {
                check_hnf::<i64>(&run, "i64/upper4", &up, &code);
                check_lll::<num_bigint::BigInt>(&run, "BigInt/lower4", &up.transpose(), &code);
            }
        });
    }
    // boundary alphabet (arbitrary precision)
    let big: Vec<Z> = vec![z(0), z(1), z(-1), pow2(31), pow2(53) - z(1), pow2(53) + z(1), pow2(64) + z(1), pow10(20), -pow10(40) - z(7), pow10(300)];
    sweep::<BigInt>(&run, "BigInt/boundary", &big, &[(1, 1), (1, 2), (2, 1)], true);
    sweep::<BigInt>(&run, "BigInt/boundary", &big[..7], &[(2, 2)], true);
    let gbig: Vec<Quad<-1>> = vec![
        Quad::of(0, 0),
        Quad::of(1, 0),
        Quad::of(0, 1),
        Quad::new(pow2(53) + z(1), z(1)),
        Quad::new(z(3), pow2(64) + z(1)),
        Quad::new(pow10(20), -pow10(20) + z(1)),
        Quad::new(pow10(150), z(7)),
    ];
    sweep::<GaussInt<BigInt>>(&run, "GaussInt<BigInt>/boundary", &gbig, &[(1, 1), (1, 2), (2, 1), (2, 2)], true);
    let ebig: Vec<Quad<-3>> = gbig.iter().map(|g| Quad::<-3>::new(g.a.clone(), g.b.clone())).collect();
    sweep::<EisenInt<BigInt>>(&run, "EisenInt<BigInt>/boundary", &ebig, &[(1, 1), (1, 2), (2, 1), (2, 2)], true);
    if th {
        sweep::<i64>(&run, "i64", &z6, &[(3, 3)], true);
        sweep::<i64>(&run, "i64", &z4, &[(2, 4), (4, 2), (3, 4)], true);
        sweep::<BigInt>(&run, "BigInt", &z4, &[(3, 3)], true);
        sweep::<GaussInt<i64>>(&run, "GaussInt<i64>", &g9[..5], &[(3, 2), (3, 3)], true);
        sweep::<EisenInt<i64>>(&run, "EisenInt<i64>", &e9[..5], &[(3, 2), (3, 3)], true);
        sweep::<GaussInt<BigInt>>(&run, "GaussInt<BigInt>", &g9, &[(2, 2)], true);
        sweep::<EisenInt<BigInt>>(&run, "EisenInt<BigInt>", &e9, &[(2, 2)], true);
        sweep::<BigInt>(&run, "BigInt/boundary", &big, &[(2, 2)], true);
    }
    let coverage = json!({
        "evaluations": run.get("evaluations"),
        "distinct_nontrivial": run.get("nonzero_inputs"),
        "rule": "all m x n matrices over a per-ring alphabet (distinct by construction) x transform flags; HNF on every matrix, LLL on those with independent rows (reference rank); non-trivial = non-zero matrix",
        "inputs": run.get("inputs"),
        "lll_inputs": run.get("lll_inputs"),
        "exhaustive": true,
    });
    run.finish(
        coverage,
        &[
            "exact Gram-Schmidt over Q / Q(i) / Q(sqrt -3) in vcore::refnum (BigInt rationals)",
            "size reduction is judged on the closed fundamental domain of the rounding the library documents (Z: |mu|<=1/2; Z[i]: both parts <= 1/2; Z[omega]: both coordinates in the (1, omega-1) basis <= 1/2), so an exactly rounding implementation can never be flagged; Lovasz constants 3/4, 3/4, 2/3",
            "'normalised pivot' uses the library's own normalisation (validated in C15)",
        ],
    );
}
