//! C18 — link diagrams: components, signs, resolutions and braid closures are correct.
//! Exhaustive over ALL oriented planar diagrams with <= 3 (quick) / <= 4 (thorough) crossings
//! x relabelings x crossing orders, and over all braid words up to the stated lengths.

use std::collections::BTreeSet;

use checks::linkconv::*;
use vcore::reflink::{all_permutations, braid_closure, Diagram};
use vcore::{catch, json, Run};
use yui::bitseq::BitSeq;
use yui_link::{Braid, Link};

fn state_of(bits: u32, n: usize) -> BitSeq {
    BitSeq::from_iter((0..n).map(|c| (bits >> c & 1) as u8))
}

/// components that never pass under (their orientation is not determined by a PD code)
fn free_components(d: &Diagram) -> Vec<usize> {
    let cc = d.crossing_components();
    let under: BTreeSet<usize> = cc.iter().map(|x| x.0).collect();
    (0..d.components().len()).filter(|k| !under.contains(k)).collect()
}

/// reference signs for every orientation choice of the free components
fn admissible_sign_vectors(d: &Diagram) -> Vec<Vec<i64>> {
    let free = free_components(d);
    let cc = d.crossing_components();
    (0..(1u32 << free.len()))
        .map(|mask| {
            let reversed: BTreeSet<usize> = free.iter().enumerate().filter(|(k, _)| mask >> k & 1 == 1).map(|(_, &c)| c).collect();
            (0..d.n).map(|c| if reversed.contains(&cc[c].1) { -d.sign(c) } else { d.sign(c) }).collect()
        })
        .collect()
}

fn check_diagram(run: &Run, name: &str, d: &Diagram, labelname: &str, label: &(dyn Fn(usize) -> usize + Sync + Send)) {
    let key = format!("link:{name}:{}:{labelname}", code_string(d));
    let code = d.pd_with(&|k| label(k));
    let detail = || json!({"pd": code, "family": name, "labels": labelname});
    run.add("evaluations", 1);
    let n = d.n;
    let r = catch(|| {
        let l = Link::from_pd_code(code.clone());
        let comps: Vec<Vec<usize>> = l.components().iter().map(|p| p.edges().clone()).collect();
        let signs: Vec<i64> = l.crossing_signs().iter().map(|s| if s.is_positive() { 1 } else { -1 }).collect();
        let (np, nn) = l.signed_crossing_nums();
        let w = l.writhe();
        let edges: BTreeSet<usize> = l.edges().into_iter().collect();
        let circ: Vec<usize> = (0..(1u32 << n)).map(|s| l.resolved_by(&state_of(s, n)).components().len()).collect();
        // stepwise resolution: smoothing crossing i first and the remaining crossings afterwards
        // (a diagram that already contains a smoothed crossing followed by actual ones)
        let mut partial: Vec<(Vec<Option<bool>>, usize, usize)> = vec![]; // (smoothing pattern, crossings left, closed curves)
        let mut step: Vec<(usize, u32, u32, usize, usize)> = vec![]; // (i, b, s1, crossings left after the first step, circles)
        if n >= 1 && n <= 4 {
            for i in 0..n {
                for b in 0..2u32 {
                    let bit = |b: u32| if b == 1 { yui::bitseq::Bit::Bit1 } else { yui::bitseq::Bit::Bit0 };
                    let l1 = l.resolved_at(i, bit(b));
                    // the partially resolved diagram itself (a non-initial state for every observer)
                    let mut pat = vec![None; n];
                    pat[i] = Some(b == 1);
                    partial.push((pat.clone(), l1.crossing_num(), l1.components().len()));
                    // and a second smoothing: index j counts the remaining actual crossings
                    for j in 0..n - 1 {
                        for b2 in 0..2u32 {
                            let l2 = l1.resolved_at(j, bit(b2));
                            let orig = if j < i { j } else { j + 1 };
                            let mut pat2 = pat.clone();
                            pat2[orig] = Some(b2 == 1);
                            partial.push((pat2, l2.crossing_num(), l2.components().len()));
                        }
                    }
                    for s1 in 0..(1u32 << (n - 1)) {
                        let c = l1.resolved_by(&state_of(s1, n - 1)).components().len();
                        step.push((i, b, s1, l1.crossing_num(), c));
                    }
                }
            }
        }
        let ori = l.ori_pres_state();
        let seifert = l.seifert_circles().len();
        let m = l.mirror();
        let msigns: Vec<i64> = m.crossing_signs().iter().map(|s| if s.is_positive() { 1 } else { -1 }).collect();
        (comps, signs, np, nn, w, edges, circ, ori, seifert, msigns, m.writhe(), l.crossing_num(), l.is_knot(), step, partial)
    });
    let (comps, signs, np, nn, w, edges, circ, ori, seifert, msigns, mw, cn, is_knot, step, partial) = match r {
        Ok(x) => x,
        Err(p) => {
            run.fail(&key, &format!("panicked: {p}"), detail());
            return;
        }
    };
    let mut bad: Option<String> = None;
    let mut fail = |s: String| {
        if bad.is_none() {
            bad = Some(s)
        }
    };
    // components = orbits, and they partition the edge set
    let ref_comps: BTreeSet<BTreeSet<usize>> = d.components().iter().map(|c| c.iter().map(|&e| label(e)).collect()).collect();
    let lib_comps: BTreeSet<BTreeSet<usize>> = comps.iter().map(|c| c.iter().copied().collect()).collect();
    if lib_comps != ref_comps {
        fail(format!("components {comps:?} are not the strand orbits {ref_comps:?}"));
    }
    let total: usize = comps.iter().map(|c| c.len()).sum();
    let all_edges: BTreeSet<usize> = (0..2 * n).map(|e| label(e)).collect();
    if edges != all_edges || total != 2 * n || lib_comps.len() != comps.len() {
        fail(format!("components {comps:?} do not partition the edge set {all_edges:?}"));
    }
    if cn != n || is_knot != (ref_comps.len() == 1) {
        fail(format!("crossing_num={cn} is_knot={is_knot}"));
    }
    // signs
    let adm = admissible_sign_vectors(d);
    if adm.len() > 1 {
        run.add("diagrams_with_orientation_freedom", 1);
        if adm[0] != signs {
            run.add("library_orientation_differs_from_generator", 1);
        }
    }
    if !adm.contains(&signs) {
        fail(format!("crossing signs {signs:?} are not those of any orientation consistent with the under strands; admissible: {adm:?}"));
    }
    let (p, q) = (signs.iter().filter(|s| **s > 0).count(), signs.iter().filter(|s| **s < 0).count());
    if (np, nn) != (p, q) || w as i64 != p as i64 - q as i64 {
        fail(format!("signed_crossing_nums=({np},{nn}) writhe={w} inconsistent with signs {signs:?}"));
    }
    // mirror negates
    let neg: Vec<i64> = signs.iter().map(|s| -s).collect();
    if msigns != neg || mw != -w {
        // with free components the orientation choice may legitimately differ: accept any admissible negated vector
        let ok = adm.iter().any(|v| v.iter().map(|s| -s).collect::<Vec<_>>() == msigns) && adm.len() > 1;
        if !ok {
            fail(format!("mirror signs {msigns:?} are not the negated signs {neg:?}"));
        }
    }
    // resolutions
    for s in 0..(1u32 << n) {
        let (_, r) = d.circles(s);
        if circ[s as usize] != r {
            fail(format!("resolution {s:b}: {} circles, expected {r}", circ[s as usize]));
        }
    }
    for (pat, left, curves) in partial {
        let smoothed = pat.iter().filter(|x| x.is_some()).count();
        let want = d.curves(&pat);
        if left != n - smoothed || curves != want {
            fail(format!("partially resolved diagram {pat:?}: crossing_num = {left}, components = {curves}; expected {} and {want}", n - smoothed));
        }
    }
    for (i, b, s1, left, c) in step {
        // the full state: bits of s1 below position i, b at position i, the rest of s1 above
        let full = (s1 & ((1u32 << i) - 1)) | (b << i) | ((s1 >> i) << (i + 1));
        let want = d.circles(full).1;
        if left != n - 1 || c != want {
            fail(format!("resolved_at({i},{b}) then resolved_by({s1:b}): {left} crossings left after the first step, {c} circles at the end; expected {} and {want} (= resolution {full:b})", n - 1));
        }
    }
    // Seifert circles = circles of the orientation preserving state for the orientation the library chose
    let ori_bits: u32 = signs.iter().enumerate().map(|(c, &s)| if s > 0 { 0 } else { 1u32 << c }).sum();
    if ori != state_of(ori_bits, n) || seifert != d.circles(ori_bits).1 {
        fail(format!("ori_pres_state={ori} seifert_circles={seifert}; expected state {:b} with {} circles", ori_bits, d.circles(ori_bits).1));
    }
    if let Some(b) = bad {
        run.fail(&key, &b, detail());
    }
}

fn check_braid(run: &Run, strands: usize, w: &[i32]) {
    let Some(rd) = braid_closure(strands, w) else { return };
    run.add("braid_words", 1);
    run.add("evaluations", 1);
    let key = format!("braid:{strands}:{:?}", w).replace(' ', "");
    let detail = || json!({"strands": strands, "word": w});
    let r = catch(|| {
        let b = Braid::new(strands, w.iter().map(|&g| g.into()).collect());
        let l = b.closure();
        (pd_of(&l), l.components().len(), l.crossing_num(), l.writhe())
    });
    let (code, ncomp, ncross, writhe) = match r {
        Ok(x) => x,
        Err(p) => {
            run.fail(&key, &format!("closure panicked: {p}"), detail());
            return;
        }
    };
    // cycles of the braid permutation
    let mut perm: Vec<usize> = (0..strands).collect();
    for &g in w {
        let i = g.unsigned_abs() as usize - 1;
        perm.swap(i, i + 1);
    }
    let mut seen = vec![false; strands];
    let mut cycles = 0;
    for i in 0..strands {
        if !seen[i] {
            cycles += 1;
            let mut j = i;
            while !seen[j] {
                seen[j] = true;
                j = perm[j];
            }
        }
    }
    let esum: i32 = w.iter().map(|g| g.signum()).sum();
    let mut bad = None;
    if ncomp != cycles {
        bad = Some(format!("{ncomp} components, braid permutation has {cycles} cycles"));
    } else if ncross != w.len() {
        bad = Some(format!("{ncross} crossings for {} letters", w.len()));
    } else if writhe != esum {
        bad = Some(format!("writhe {writhe} != exponent sum {esum}"));
    } else {
        match Diagram::from_pd(&code) {
            None => bad = Some(format!("closure {code:?} is not a consistently oriented PD code")),
            Some((d, _)) => {
                if !d.is_planar() {
                    bad = Some(format!("closure {code:?} is not planar"));
                } else if d.jones() != rd.jones() {
                    bad = Some(format!("closure {code:?} is not the closure of the word (Kauffman state sums differ)"));
                }
            }
        }
    }
    if let Some(b) = bad {
        run.fail(&key, &b, detail());
    }
}

fn main() {
    let run = Run::new("C18", "exploration");
    let th = run.thorough();
    let nmax = 4;
    let fam = planar_family(nmax);
    run.add("diagrams", fam.len() as u64);
    run.par_for(fam.len(), |i| {
        let (name, d) = &fam[i];
        let labs = relabelings(2 * d.n);
        if i % 150 == 0 {
            run.sample(json!({"diagram": name, "pd": d.pd(), "components": d.components(), "signs": (0..d.n).map(|c| d.sign(c)).collect::<Vec<_>>()}));
        }
        let full = d.n <= 3;
        for (k, (ln, lf)) in labs.iter().enumerate() {
            if !full && k > 1 {
                break;
            }
            check_diagram(&run, name, d, ln, lf.as_ref());
        }
        // every crossing order (n! of them) with the default labels
        if d.n <= 3 {
            for p in all_permutations(d.n).into_iter().skip(1) {
                let d2 = d.reorder(&p);
                check_diagram(&run, &format!("{name}:order{p:?}").replace(' ', ""), &d2, "one-based", &|k| k + 1);
            }
        }
    });
    // braid words
    let specs: Vec<(usize, usize)> = if th { vec![(2, 7), (3, 6), (4, 5), (5, 4)] } else { vec![(2, 6), (3, 5), (4, 4), (5, 4)] };
    for (s, maxlen) in specs {
        for len in 1..=maxlen {
            let words = braid_words(s, len);
            run.par_for(words.len(), |i| check_braid(&run, s, &words[i]));
        }
    }
    // many strands: words of length s-1 and s in which every generator occurs
    for s in if th { vec![6usize, 7, 8] } else { vec![6usize, 7] } {
        for len in [s - 1, s] {
            if !th && len == s && s == 7 {
                continue;
            }
            // all words over ±1..±(s-1) of that length using every index at least once
            let letters: Vec<i32> = (1..s as i32).collect();
            let mut idx = vec![0usize; len];
            let mut words: Vec<Vec<i32>> = vec![];
            loop {
                let w: Vec<i32> = idx.iter().map(|&k| letters[k]).collect();
                let used: BTreeSet<i32> = w.iter().copied().collect();
                if used.len() == s - 1 {
                    words.push(w);
                }
                let mut p = 0;
                while p < len {
                    idx[p] += 1;
                    if idx[p] < letters.len() {
                        break;
                    }
                    idx[p] = 0;
                    p += 1;
                }
                if p == len {
                    break;
                }
            }
            // all sign patterns
            run.par_for(words.len(), |i| {
                let w = &words[i];
                for signs in 0..(1u32 << len) {
                    let ws: Vec<i32> = w.iter().enumerate().map(|(k, &g)| if signs >> k & 1 == 1 { -g } else { g }).collect();
                    check_braid(&run, s, &ws);
                }
            });
        }
    }
    let coverage = json!({
        "evaluations": run.get("evaluations"),
        "distinct_nontrivial": run.get("diagrams") + run.get("braid_words"),
        "rule": "all oriented planar diagrams with 1..=nmax crossings (every over-direction vector x every gluing of outgoing to incoming darts, kept iff planar: kinks, split, multi-component, over-only components included) x 6 relabelings x all crossing orders; all braid words without free loop up to the stated lengths; each diagram / word is distinct by construction",
        "planar_diagrams": run.get("diagrams"),
        "max_crossings": nmax,
        "braid_words": run.get("braid_words"),
        "exhaustive": true,
    });
    run.finish(
        coverage,
        &[
            "reference: vcore::reflink (directed diagram structure, union-find circles, Kauffman state sum)",
            "for a component that never passes under, a PD code does not determine the orientation: any orientation of such components is accepted (all 2^k tried)",
        ],
    );
}
