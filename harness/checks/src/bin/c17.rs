//! C17 — bit sequences behave as sequences of at most 64 bits.
//! Explicit-state model checking: state = the reference `Vec<bool>`; the implementation value is
//! rebuilt/compared at every step; actions = every public operation with all valid arguments and
//! the first invalid one.  (i) complete for lengths 0..=6, (ii) boundary band 56..=65.

use std::str::FromStr;
use vcore::bfs::bfs;
use vcore::{catch, json, Run};
use yui::bitseq::{Bit, BitSeq};

type M = Vec<bool>;

fn bit(b: bool) -> Bit {
    if b {
        Bit::Bit1
    } else {
        Bit::Bit0
    }
}

fn show(m: &M) -> String {
    m.iter().map(|&b| if b { '1' } else { '0' }).collect()
}

fn mval(m: &M) -> u128 {
    m.iter().enumerate().fold(0u128, |a, (i, &b)| a | ((b as u128) << i))
}

/// builds the implementation value for a model value through the *string parser* only when
/// len <= 64 (used to obtain the object under test for a state; constructors are checked
/// separately against it).
fn build(m: &M) -> Result<BitSeq, String> {
    catch(|| {
        let mut s = BitSeq::empty();
        for &b in m {
            s.push(bit(b));
        }
        s
    })
}

fn same(s: &BitSeq, m: &M) -> bool {
    s.len() == m.len() && m.len() <= 64 && (s.as_u64() as u128) == mval(m)
}

struct Ctx<'a> {
    run: &'a Run,
    band: &'static str,
    lo: usize,
    hi: usize,
}

impl<'a> Ctx<'a> {
    fn fail(&self, m: &M, op: &str, what: String) {
        self.run.fail(
            &format!("bitseq:{}:{}:{}", self.band, show(m), op),
            &what,
            json!({"state": show(m), "len": m.len(), "op": op}),
        );
    }

    /// A mutating operation: `model` gives the expected new value (None = invalid argument,
    /// must be rejected).  Returns the successor model state if the step is fine.
    fn step(&self, m: &M, s: &BitSeq, op: &str, f: impl FnOnce(&mut BitSeq), model: Option<M>) -> Option<M> {
        self.run.add("op_calls", 1);
        let mut t = *s;
        let r = catch(|| f(&mut t)).map(|()| t);
        if r.is_err() && !(t == *s && same(&t, m)) {
            // "rejected rather than corrupting the value": a caller that catches the rejection must
            // find the sequence as it was
            self.fail(m, op, format!("the operation was rejected (panic) but left the sequence changed: now {} (len {})", t, t.len()));
        }
        match (model, r) {
            (Some(exp), Ok(got)) if exp.len() <= 64 => {
                if same(&got, &exp) {
                    Some(exp)
                } else {
                    self.fail(m, op, format!("expected {} got {} (len {})", show(&exp), got, got.len()));
                    None
                }
            }
            (Some(exp), Err(p)) if exp.len() <= 64 => {
                self.fail(m, op, format!("valid operation panicked ({p}); expected {}", show(&exp)));
                None
            }
            (Some(exp), Ok(got)) => {
                self.fail(
                    m,
                    op,
                    format!("result of length {} > 64 was not rejected: returned len={} val={:#x}", exp.len(), got.len(), got.as_u64()),
                );
                None
            }
            (Some(_), Err(_)) => {
                self.run.add("rejected_overflow", 1);
                None
            }
            (None, Ok(got)) => {
                self.fail(m, op, format!("invalid argument accepted, returned {} (len {})", got, got.len()));
                None
            }
            (None, Err(_)) => {
                self.run.add("rejected_invalid", 1);
                None
            }
        }
    }

    fn observe<T: PartialEq + std::fmt::Debug>(&self, m: &M, op: &str, f: impl FnOnce() -> T, exp: Option<T>) {
        self.run.add("observations", 1);
        match (exp, catch(f)) {
            (Some(e), Ok(g)) => {
                if e != g {
                    self.fail(m, op, format!("expected {e:?} got {g:?}"))
                }
            }
            (Some(e), Err(p)) => self.fail(m, op, format!("valid observation panicked ({p}); expected {e:?}")),
            (None, Ok(g)) => self.fail(m, op, format!("invalid argument accepted, returned {g:?}")),
            (None, Err(_)) => {}
        }
    }

    fn succ(&self, m: &M, appendees: &[M]) -> Vec<M> {
        let mut out = vec![];
        let n = m.len();
        let s = match build(m) {
            Ok(s) if same(&s, m) => s,
            Ok(s) => {
                self.fail(m, "build", format!("pushing the bits one by one gave {} (len {})", s, s.len()));
                return out;
            }
            Err(p) => {
                self.fail(m, "build", format!("pushing the bits one by one panicked: {p}"));
                return out;
            }
        };
        let mut keep = |x: Option<M>| {
            if let Some(x) = x {
                if x.len() >= self.lo && x.len() <= self.hi {
                    out.push(x)
                }
            }
        };
        // ---- mutators ------------------------------------------------------------------
        for b in [false, true] {
            let mut e = m.clone();
            e.push(b);
            keep(self.step(m, &s, &format!("push({})", b as u8), |t| t.push(bit(b)), Some(e.clone())));
            self.step(m, &s, &format!("add_bit({})", b as u8), |t| *t = *t + bit(b), Some(e.clone()));
            self.step(m, &s, &format!("add_assign_bit({})", b as u8), |t| *t += bit(b), Some(e));
            if b {
                let mut e = m.clone();
                e.push(true);
                self.step(m, &s, "push_1", |t| t.push_1(), Some(e));
            } else {
                let mut e = m.clone();
                e.push(false);
                self.step(m, &s, "push_0", |t| t.push_0(), Some(e));
            }
            for i in 0..=n + 1 {
                let e = if i <= n {
                    let mut e = m.clone();
                    e.insert(i, b);
                    Some(e)
                } else {
                    None
                };
                keep(self.step(m, &s, &format!("insert({i},{})", b as u8), |t| t.insert(i, bit(b)), e.clone()));
                if b {
                    self.step(m, &s, &format!("insert_1({i})"), |t| t.insert_1(i), e);
                } else {
                    self.step(m, &s, &format!("insert_0({i})"), |t| t.insert_0(i), e);
                }
            }
            for i in 0..=n {
                let e = if i < n {
                    let mut e = m.clone();
                    e[i] = b;
                    Some(e)
                } else {
                    None
                };
                keep(self.step(m, &s, &format!("set({i},{})", b as u8), |t| t.set(i, bit(b)), e.clone()));
                if b {
                    self.step(m, &s, &format!("set_1({i})"), |t| t.set_1(i), e);
                } else {
                    self.step(m, &s, &format!("set_0({i})"), |t| t.set_0(i), e);
                }
            }
        }
        for i in 0..=n {
            let e = if i < n {
                let mut e = m.clone();
                e.remove(i);
                Some(e)
            } else {
                None
            };
            keep(self.step(m, &s, &format!("remove({i})"), |t| t.remove(i), e));
        }
        for l in 0..=n + 1 {
            let e = if l <= n { Some(m[..l].to_vec()) } else { None };
            keep(self.step(m, &s, &format!("sub({l})"), |t| *t = t.sub(l), e));
        }
        for a in appendees {
            if a.len() > 64 {
                continue;
            }
            let Ok(sa) = build(a) else { continue };
            let mut e = m.clone();
            e.extend(a);
            keep(self.step(m, &s, &format!("append({})", show(a)), |t| t.append(sa), Some(e.clone())));
            self.step(m, &s, &format!("add_seq({})", show(a)), |t| *t = *t + &sa, Some(e.clone()));
            self.step(m, &s, &format!("add_assign_seq({})", show(a)), |t| *t += &sa, Some(e));
            // prefix test both ways
            let exp = a.len() <= n && m[..a.len()] == a[..];
            self.observe(m, &format!("is_sub_of_self({})", show(a)), || sa.is_sub(&s), Some(exp));
            let exp2 = n <= a.len() && a[..n] == m[..];
            self.observe(m, &format!("self_is_sub({})", show(a)), || s.is_sub(&sa), Some(exp2));
        }
        // prefix test against every prefix of the state and every one-bit change of such a prefix, both ways
        // (a longer sequence is never a prefix of a shorter one, whatever the bits beyond it)
        for l in 0..=n {
            let pre: M = m[..l].to_vec();
            let mut cands: Vec<M> = vec![pre.clone()];
            if l > 0 {
                let mut q = pre.clone();
                q[l - 1] = !q[l - 1];
                cands.push(q);
            }
            for a in cands {
                let Ok(sa) = build(&a) else { continue };
                let exp = m[..l] == a[..];
                self.observe(m, &format!("prefix({})_is_sub_of_self", show(&a)), || sa.is_sub(&s), Some(exp));
                let exp2 = l == n && exp;
                self.observe(m, &format!("self_is_sub_of_prefix({})", show(&a)), || s.is_sub(&sa), Some(exp2));
            }
        }
        // ---- constructors must reproduce the state -------------------------------------
        let v = mval(m) as u64;
        let chk = |op: &str, f: &dyn Fn() -> BitSeq| {
            self.run.add("constructor_calls", 1);
            match catch(f) {
                Ok(g) if same(&g, m) => {}
                Ok(g) => self.fail(m, op, format!("constructed {} (len {})", g, g.len())),
                Err(p) => self.fail(m, op, format!("valid construction panicked: {p}")),
            }
        };
        chk("new(val,len)", &|| BitSeq::new(v, n));
        chk("from_iter(bools)", &|| BitSeq::from_iter(m.iter().copied()));
        chk("from_iter(u8)", &|| BitSeq::from_iter(m.iter().map(|&b| b as u8)));
        chk("from_str", &|| BitSeq::from_str(&show(m)).unwrap());
        chk("edit(identity)", &|| s.edit(|_| {}));
        chk("sub(len)", &|| s.sub(n));
        {
            // new_rev takes the bits in reversed (most significant first) order
            let rv = m.iter().fold(0u64, |a, &b| (a << 1) | b as u64);
            chk("new_rev(val,len)", &|| BitSeq::new_rev(rv, n));
        }
        if m.iter().all(|b| !b) {
            chk("zeros(len)", &|| BitSeq::zeros(n));
        }
        if m.iter().all(|b| *b) {
            chk("ones(len)", &|| BitSeq::ones(n));
        }
        if n == 0 {
            chk("empty()", &BitSeq::empty);
            chk("default()", &BitSeq::default);
        }
        if n == 1 {
            chk("from(bit)", &|| BitSeq::from(m[0]));
        }
        // ---- observers -------------------------------------------------------------------
        self.observe(m, "len", || s.len(), Some(n));
        self.observe(m, "is_empty", || s.is_empty(), Some(n == 0));
        self.observe(m, "weight", || s.weight(), Some(m.iter().filter(|b| **b).count()));
        self.observe(m, "iter", || s.iter().map(|b| b.is_one()).collect::<Vec<_>>(), Some(m.clone()));
        self.observe(m, "display", || s.to_string(), Some(show(m)));
        self.observe(m, "debug", || format!("{s:?}"), Some(show(m)));
        for i in 0..=n {
            let e = if i < n { Some(m[i]) } else { None };
            self.observe(m, &format!("index({i})"), || s[i].is_one(), e);
        }
        // new() must reject a value that does not fit the length, and a length > 64
        if n < 64 {
            self.observe(m, "new(val+2^len,len)", || BitSeq::new(v | (1u64 << n), n).len(), None);
        }
        out
    }
}

fn all_seqs(maxlen: usize) -> Vec<M> {
    let mut v = vec![];
    for l in 0..=maxlen {
        for x in 0..(1u32 << l) {
            v.push((0..l).map(|i| (x >> i) & 1 == 1).collect());
        }
    }
    v
}

fn cmp_model(a: &M, b: &M) -> std::cmp::Ordering {
    let w = |m: &M| m.iter().filter(|b| **b).count();
    a.len().cmp(&b.len()).then(w(a).cmp(&w(b))).then(mval(a).cmp(&mval(b)))
}

fn check_order(run: &Run, band: &'static str, states: &[M]) {
    let built: Vec<(M, BitSeq)> = states.iter().filter(|m| m.len() <= 64).filter_map(|m| build(m).ok().map(|s| (m.clone(), s))).collect();
    let n = built.len();
    run.par_for(n, |i| {
        let (ma, sa) = &built[i];
        for (mb, sb) in &built {
            run.add("cmp_pairs", 1);
            let exp = cmp_model(ma, mb);
            let got = catch(|| (sa.cmp(sb), sa.partial_cmp(sb), sa == sb));
            let ok = match &got {
                Ok((c, pc, eq)) => *c == exp && *pc == Some(exp) && (*eq == (exp == std::cmp::Ordering::Equal)) && (*eq == (ma == mb)),
                Err(_) => false,
            };
            if !ok {
                run.fail(
                    &format!("bitseq:{band}:cmp:{}:{}", show(ma), show(mb)),
                    &format!("cmp/eq: expected {exp:?}, got {got:?}"),
                    json!({"a": show(ma), "b": show(mb)}),
                );
            }
        }
    });
}

fn main() {
    let run = Run::new("C17", "model_checking");
    // ---------- (i) small band: complete -----------------------------------------------------
    let small_max = 6;
    let cx = Ctx { run: &run, band: "small", lo: 0, hi: small_max };
    let app_small = all_seqs(3);
    let (st1, seen1) = bfs(&run, vec![vec![]], usize::MAX, u64::MAX, |m: &M, _| cx.succ(m, &app_small));
    let mut states1: Vec<M> = seen1.into_iter().collect();
    states1.sort();
    check_order(&run, "small", &states1);
    // generate(len) enumerates all sequences of that length, in value order
    for len in 0..=small_max {
        let exp: Vec<M> = (0..(1u64 << len)).map(|x| (0..len).map(|i| (x >> i) & 1 == 1).collect()).collect();
        let got = catch(|| BitSeq::generate(len).map(|s| s.iter().map(|b| b.is_one()).collect::<M>()).collect::<Vec<_>>());
        if got.as_ref().ok() != Some(&exp) {
            run.fail(&format!("bitseq:generate:{len}"), "generate(len) is not the list of all sequences", json!({"len": len}));
        }
    }
    // ---------- (ii) boundary band -----------------------------------------------------------
    let (lo, hi) = (56usize, 65usize);
    let cxb = Ctx { run: &run, band: "boundary", lo, hi };
    let mut init: Vec<M> = vec![];
    for len in 58..=64usize {
        init.push(vec![false; len]);
        init.push(vec![true; len]);
        let mut a = vec![false; len];
        a[0] = true;
        init.push(a);
        let mut b = vec![false; len];
        b[len - 1] = true;
        init.push(b);
        init.push((0..len).map(|i| i % 2 == 0).collect());
        init.push((0..len).map(|i| i % 2 == 1).collect());
    }
    let mut app_b = all_seqs(2);
    for l in [5usize, 6, 7, 8] {
        app_b.push(vec![true; l]);
        app_b.push((0..l).map(|i| i % 2 == 0).collect());
    }
    let depth = if run.thorough() { 3 } else { 2 };
    let (st2, seen2) = bfs(&run, init.clone(), depth, 3_000_000, |m: &M, _| cxb.succ(m, &app_b));
    // the initial states must also be constructible directly at lengths up to 64
    let mut states2: Vec<M> = seen2.into_iter().collect();
    states2.sort();
    let sub: Vec<M> = if states2.len() > 1500 {
        // order check on the initial states plus an evenly spaced selection (deterministic)
        let step = states2.len() / 1200;
        let mut v: Vec<M> = init.clone();
        v.extend(states2.iter().step_by(step.max(1)).cloned());
        v.sort();
        v.dedup();
        v
    } else {
        states2.clone()
    };
    check_order(&run, "boundary", &sub);
    for len in [64usize, 65] {
        run.add("constructor_calls", 3);
        let r = catch(|| (BitSeq::zeros(len).len(), BitSeq::ones(len).len(), BitSeq::new(0, len).len()));
        match (len, r) {
            (64, Ok((64, 64, 64))) | (65, Err(_)) => {}
            (_, r) => run.fail(&format!("bitseq:boundary:ctor:{len}"), &format!("zeros/ones/new at length {len}: {r:?}"), json!({"len": len})),
        }
    }
    // ---------- (iii) 32-bit boundary band (u32/usize mix-ups, half-word masks) -------------------------
    let cxm = Ctx { run: &run, band: "mid", lo: 28, hi: 36 };
    let mut init_m: Vec<M> = vec![];
    for len in 30..=34usize {
        init_m.push(vec![false; len]);
        init_m.push(vec![true; len]);
        init_m.push((0..len).map(|i| i % 2 == 0).collect());
        init_m.push((0..len).map(|i| i == len - 1).collect());
        init_m.push((0..len).map(|i| i == 0).collect());
    }
    let (st3, _) = bfs(&run, init_m.clone(), if run.thorough() { 3 } else { 2 }, 3_000_000, |m: &M, _| cxm.succ(m, &app_b));
    // ---------- (iv) every length 0..=64 at depth 1: all operations once from sparse patterns -------------
    let cxa = Ctx { run: &run, band: "all-lengths", lo: 0, hi: 65 };
    let mut init_a: Vec<M> = vec![];
    for len in 0..=64usize {
        init_a.push(vec![false; len]);
        init_a.push(vec![true; len]);
        init_a.push((0..len).map(|i| i % 3 == 0).collect());
        for pos in 0..len {
            init_a.push((0..len).map(|i| i == pos).collect());
        }
    }
    init_a.sort();
    init_a.dedup();
    let (st4, _) = bfs(&run, init_a.clone(), 1, 3_000_000, |m: &M, _| cxa.succ(m, &app_small[..7]));
    check_order(&run, "all-lengths", &init_a.iter().filter(|m| m.len() % 8 <= 1 || m.len() >= 60).cloned().collect::<Vec<_>>());
    if !st1.exhausted {
        run.cap("small band not exhausted");
    }
    // ---- constructors asked for more than 64 bits must be rejected (panic / Err), never truncate ---------------
    // (seed `C17-from-iter-truncates-beyond-64`: `from_iter` - hence `from_str` - silently kept the first 64 bits)
    {
        let fail = |op: &str, l: usize, what: String| run.fail(&format!("bitseq:overcap:{op}:len{l}"), &what, json!({"op": op, "len": l}));
        for l in [65usize, 66, 67, 70, 96, 127, 128, 129, 200] {
            for pat in 0..4 {
                let m: M = (0..l).map(|i| match pat { 0 => false, 1 => true, 2 => i % 2 == 0, _ => i >= 64 }).collect();
                run.add("overcapacity_constructions", 4);
                if let Ok(g) = catch(|| BitSeq::from_iter(m.iter().copied())) {
                    fail("from_iter(bools)", l, format!("accepted {l} bits, returned {} (len {})", g, g.len()));
                }
                if let Ok(g) = catch(|| BitSeq::from_iter(m.iter().map(|&b| b as u8))) {
                    fail("from_iter(u8)", l, format!("accepted {l} bits, returned {} (len {})", g, g.len()));
                }
                if let Ok(Ok(g)) = catch(|| BitSeq::from_str(&show(&m))) {
                    fail("from_str", l, format!("accepted a string of {l} bits, returned {} (len {})", g, g.len()));
                }
                if let Ok(g) = catch(|| BitSeq::new(if pat == 0 { 0 } else { u64::MAX }, l)) {
                    fail("new(val,len)", l, format!("accepted len {l}, returned {} (len {})", g, g.len()));
                }
            }
            run.add("overcapacity_constructions", 3);
            if let Ok(g) = catch(|| BitSeq::zeros(l)) {
                fail("zeros", l, format!("accepted len {l}, returned len {}", g.len()));
            }
            if let Ok(g) = catch(|| BitSeq::ones(l)) {
                fail("ones", l, format!("accepted len {l}, returned len {}", g.len()));
            }
            if let Ok(g) = catch(|| BitSeq::new_rev(1, l)) {
                fail("new_rev", l, format!("accepted len {l}, returned len {}", g.len()));
            }
        }
    }
    let coverage = json!({
        "states": st1.states + st2.states + st3.states + st4.states,
        "transitions": st1.transitions + st2.transitions + st3.transitions + st4.transitions,
        "mid_band": {"lengths": "28..=36", "initial_states": init_m.len(), "states": st3.states, "transitions": st3.transitions},
        "all_lengths_depth1": {"lengths": "0..=64", "initial_states": init_a.len(), "states": st4.states, "transitions": st4.transitions,
                               "patterns": "zeros, ones, every third bit, every single-bit position"},
        "traces_validated_against_impl": run.get("op_calls") + run.get("observations") + run.get("constructor_calls") + run.get("cmp_pairs"),
        "small_band": {"lengths": "0..=6", "states": st1.states, "transitions": st1.transitions, "max_depth": st1.max_depth,
                        "exhausted": st1.exhausted, "note": "reachable graph is finite (127 values) and was exhausted"},
        "boundary_band": {"lengths": "56..=65", "initial_states": init.len(), "depth_bound": depth, "states": st2.states,
                           "transitions": st2.transitions, "states_per_depth": st2.states_per_depth,
                           "order_checked_on_states": sub.len()},
        "exhaustive": st1.exhausted,
        "samples": [
            {"state": "101", "action": "insert(1,1)", "expected": "1101"},
            {"state": show(&init[0]), "action": "push(1)", "expected_len": init[0].len() + 1},
            {"state": "1^64", "action": "push(0)", "expected": "rejected"},
        ],
        "rule": "every explored transition is one call of the real BitSeq operation compared with the Vec<bool> model",
    });
    run.finish(
        coverage,
        &[
            "state of the implementation under test is rebuilt by push() from the model value; constructors are compared with it",
            "rejection = panic (the crate's own assert!/overflow check); build profile has overflow-checks on like the crate's release profile",
        ],
    );
}
