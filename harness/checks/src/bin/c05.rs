//! C05 — every Khovanov complex returned is a graded chain complex, over any ring (including
//! the non-PID rings Z[H], Z[T], Z[H,T]); building with polynomial parameters and evaluating
//! commutes with building directly.

use std::collections::BTreeMap;

use checks::bridge::Bridge;
use checks::khconv::*;
use checks::linkconv::*;
use vcore::refmat::RMat;
use vcore::reflink::{braid_closure, khovanov, Diagram, Module};
use vcore::refnum::*;
use vcore::{catch, json, Run};
use yui::poly::{Mono, Poly, Poly2};
use yui::{EucRing, EucRingOps, Ratio, Ring, RingOps, FF, FF2};
use yui_homology::{ChainComplexTrait, GridTrait};
use yui_kh::kh::{KhComplex, KhHomology};
use yui_matrix::MatTrait;

/// reference polynomial in (H, T): exponent pair -> non-zero coefficient
type RP<K> = BTreeMap<(u32, u32), K>;

fn rp_add_term<K: RefRing>(p: &mut RP<K>, e: (u32, u32), c: K) {
    let v = p.remove(&e).map(|x| x.add(&c)).unwrap_or(c);
    if !v.is_zero() {
        p.insert(e, v);
    }
}
fn rp_mul_acc<K: RefRing>(acc: &mut RP<K>, a: &RP<K>, b: &RP<K>) {
    for (&(a1, a2), x) in a {
        for (&(b1, b2), y) in b {
            rp_add_term(acc, (a1 + b1, a2 + b2), x.mul(y));
        }
    }
}
fn rp_eval<K: RefRing>(p: &RP<K>, h: &K, t: &K) -> K {
    let pow = |x: &K, e: u32| (0..e).fold(K::one(), |a, _| a.mul(x));
    p.iter().fold(K::zero(), |acc, (&(a, b), c)| acc.add(&c.mul(&pow(h, a)).mul(&pow(t, b))))
}

/// coefficient rings (constants) and polynomial rings over them, with their parameters
trait ParamRing<K: Bridge>: Ring + Clone
where
    for<'x> &'x Self: RingOps<Self>,
{
    const NAME: &'static str;
    const T_IS_ZERO: bool;
    /// does the ring contain H (resp. T) as an indeterminate?
    const HAS_H: bool;
    const HAS_T: bool;
    fn h() -> Self;
    fn t() -> Self;
    fn terms(&self) -> RP<K::Ref>;
}

macro_rules! const_ring {
    ($t:ty, $name:expr) => {
        impl ParamRing<$t> for $t {
            const NAME: &'static str = $name;
            const T_IS_ZERO: bool = true;
            const HAS_H: bool = false;
            const HAS_T: bool = false;
            fn h() -> Self {
                <$t as num_traits::Zero>::zero()
            }
            fn t() -> Self {
                <$t as num_traits::Zero>::zero()
            }
            fn terms(&self) -> RP<<$t as Bridge>::Ref> {
                let mut p = RP::new();
                rp_add_term(&mut p, (0, 0), self.to_ref());
                p
            }
        }
    };
}
const_ring!(i64, "Z");
const_ring!(Ratio<i64>, "Q");
const_ring!(FF2, "F2");
const_ring!(FF<3>, "F3");

macro_rules! poly_h {
    ($k:ty, $name:expr) => {
        impl ParamRing<$k> for Poly<'H', $k> {
            const NAME: &'static str = $name;
            const T_IS_ZERO: bool = true;
            const HAS_H: bool = true;
            const HAS_T: bool = false;
            fn h() -> Self {
                Self::variable()
            }
            fn t() -> Self {
                <Self as num_traits::Zero>::zero()
            }
            fn terms(&self) -> RP<<$k as Bridge>::Ref> {
                let mut p = RP::new();
                for (x, c) in self.iter() {
                    let d: usize = x.deg();
                    rp_add_term(&mut p, (d as u32, 0), c.to_ref());
                }
                p
            }
        }
    };
}
poly_h!(i64, "Z[H]");
poly_h!(Ratio<i64>, "Q[H]");
poly_h!(FF2, "F2[H]");

impl ParamRing<i64> for Poly<'T', i64> {
    const NAME: &'static str = "Z[T]";
    const T_IS_ZERO: bool = false;
    const HAS_H: bool = false;
    const HAS_T: bool = true;
    fn h() -> Self {
        <Self as num_traits::Zero>::zero()
    }
    fn t() -> Self {
        Self::variable()
    }
    fn terms(&self) -> RP<Z> {
        let mut p = RP::new();
        for (x, c) in self.iter() {
            let d: usize = x.deg();
            rp_add_term(&mut p, (0, d as u32), c.to_ref());
        }
        p
    }
}

impl ParamRing<i64> for Poly2<'H', 'T', i64> {
    const NAME: &'static str = "Z[H,T]";
    const T_IS_ZERO: bool = false;
    const HAS_H: bool = true;
    const HAS_T: bool = true;
    fn h() -> Self {
        Self::variable(0)
    }
    fn t() -> Self {
        Self::variable(1)
    }
    fn terms(&self) -> RP<Z> {
        let mut p = RP::new();
        for (x, c) in self.iter() {
            let (a, b): (usize, usize) = x.deg();
            rp_add_term(&mut p, (a as u32, b as u32), c.to_ref());
        }
        p
    }
}

fn base_edge(d: &Diagram) -> usize {
    let e = d.edge_of_dart();
    (0..4).map(|s| e[s]).min().unwrap()
}

fn check<P, K>(run: &Run, name: &str, d: &Diagram, reduced: bool, points: &[(i64, i64)], with_cube: bool)
where
    K: EucRing + Bridge,
    for<'x> &'x K: EucRingOps<K>,
    K::Ref: IsoClass,
    P: ParamRing<K> + nalgebra::Scalar,
    for<'x> &'x P: RingOps<P>,
{
    if reduced && !P::T_IS_ZERO {
        return;
    }
    let key = format!("khcomplex:{}:{name}:{}:red={}", P::NAME, code_string(d), reduced as u8);
    let detail = || json!({"pd": d.pd(), "ring": P::NAME, "reduced": reduced});
    let link = to_link(d);
    run.add("evaluations", 1);
    run.add("complexes", 1);
    // read the complex: generators with degrees, differentials as reference polynomial matrices
    let read = catch(|| {
        let c = KhComplex::<P>::new(&link, &P::h(), &P::t(), reduced);
        let degs: Vec<isize> = c.support().collect();
        let mut gens: BTreeMap<isize, Vec<(isize, isize)>> = BTreeMap::new(); // (h_deg, q_deg)
        let mut dm: BTreeMap<isize, (usize, usize, BTreeMap<(usize, usize), RP<K::Ref>>)> = BTreeMap::new();
        for &i in &degs {
            gens.insert(i, c[i].raw_gens().iter().map(|x| (x.h_deg(), x.q_deg())).collect());
            let m = c.d_matrix(i);
            let mut e = BTreeMap::new();
            for (r, cidx, a) in m.iter() {
                let t = a.terms();
                if !t.is_empty() {
                    e.insert((r, cidx), t);
                }
            }
            dm.insert(i, (m.nrows(), m.ncols(), e));
        }
        (degs, gens, dm)
    });
    let (degs, gens, dm) = match read {
        Ok(x) => x,
        Err(p) => {
            run.fail(&key, &format!("KhComplex::new / d_matrix panicked: {p}"), detail());
            return;
        }
    };
    let ngen = |i: isize| gens.get(&i).map(|v| v.len()).unwrap_or(0);
    for &i in &degs {
        // homological degree of every generator
        if gens[&i].iter().any(|g| g.0 != i) {
            run.fail(&format!("{key}:hdeg"), &format!("C[{i}] contains a generator of another homological degree"), detail());
        }
        let (m, n, e) = &dm[&i];
        if *n != ngen(i) || *m != ngen(i + 1) {
            run.fail(&format!("{key}:shape"), &format!("d[{i}] has shape {m}x{n}, generators: {} -> {}", ngen(i), ngen(i + 1)), detail());
            continue;
        }
        // homogeneity: deg H = -2, deg T = -4
        for (&(r, c), p) in e {
            let (qx, qy) = (gens[&i][c].1, gens[&(i + 1)][r].1);
            for (&(a, b), _) in p {
                if qy - 2 * a as isize - 4 * b as isize != qx {
                    run.fail(&format!("{key}:qdeg"), &format!("d[{i}] entry ({r},{c}) has a term H^{a}T^{b} between q-degrees {qx} -> {qy}: not homogeneous of degree 0"), detail());
                }
            }
        }
        // d∘d = 0 with reference polynomial arithmetic
        if let Some((m2, _, e2)) = dm.get(&(i + 1)) {
            let mut prod: BTreeMap<(usize, usize), RP<K::Ref>> = BTreeMap::new();
            // entries of d[i] by row (= column index of d[i+1])
            let mut by_row: BTreeMap<usize, Vec<(usize, &RP<K::Ref>)>> = BTreeMap::new();
            for (&(k1, c1), p1) in e {
                by_row.entry(k1).or_default().push((c1, p1));
            }
            for (&(r2, k2), p2) in e2 {
                if let Some(row) = by_row.get(&k2) {
                    for &(c1, p1) in row {
                        rp_mul_acc(prod.entry((r2, c1)).or_default(), p2, p1);
                    }
                }
            }
            let _ = m2;
            if prod.values().any(|p| !p.is_empty()) {
                run.fail(&format!("{key}:dd"), &format!("d[{}]∘d[{i}] != 0", i + 1), detail());
            }
        }
    }
    // specialisation at ring elements
    for &(h0, t0) in points {
        if (!P::HAS_H && h0 != 0) || (!P::HAS_T && t0 != 0) || (reduced && t0 != 0) {
            continue;
        }
        let (hr, tr) = (K::Ref::from_i64(h0), K::Ref::from_i64(t0));
        run.add("evaluations", 1);
        run.add("specialisations", 1);
        // homology of the evaluated complex, by the reference
        let mut fac: BTreeMap<isize, Vec<K::Ref>> = BTreeMap::new();
        for &i in &degs {
            let (m, n, e) = &dm[&i];
            let mut mat = RMat::<K::Ref>::zero(*m, *n);
            for (&(r, c), p) in e {
                mat.set(r, c, rp_eval(p, &hr, &tr));
            }
            fac.insert(i, if *m > 0 && *n > 0 { mat.invariant_factors_by_elimination() } else { vec![] });
        }
        let mut evaluated: BTreeMap<i64, Module<K::Ref>> = BTreeMap::new();
        for &i in &degs {
            let fin = fac.get(&(i - 1)).cloned().unwrap_or_default();
            let fout = fac.get(&i).cloned().unwrap_or_default();
            // (rank in + rank out can exceed the number of generators only if d∘d != 0, which has been
            //  reported above; the evaluated "homology" is then meaningless)
            let Some(rank) = ngen(i).checked_sub(fin.len() + fout.len()) else {
                run.fail(&format!("{key}:eval(h={h0},t={t0}):rank"), &format!("ranks of the evaluated differentials around degree {i} exceed the number of generators (not a complex)"), detail());
                continue;
            };
            let m = Module { rank, tors: fin.into_iter().filter(|x| !x.is_unit()).collect() };
            if !m.is_zero() {
                evaluated.insert(i as i64, m);
            }
        }
        let skey = format!("{key}:eval(h={h0},t={t0})");
        if with_cube {
            let cube = khovanov::<K::Ref>(d, &hr, &tr, reduced.then(|| base_edge(d))).total;
            if let Some(df) = diff_tables(&evaluated, &cube) {
                run.fail(&skey, &format!("complex built with polynomial parameters and evaluated differs from the cube: {df}"), detail());
            }
        }
        let (hk, tk) = (K::from_ref(&hr), K::from_ref(&tr));
        match catch(|| total_table(&KhHomology::<K>::new(&link, &hk, &tk, reduced))) {
            Ok(direct) => {
                if let Some(df) = diff_tables(&evaluated, &direct) {
                    run.fail(&skey, &format!("evaluated complex vs complex built directly with (h,t): {df}"), detail());
                }
            }
            Err(p) => run.fail(&skey, &format!("direct computation panicked: {p}"), detail()),
        }
    }
}

fn main() {
    let run = Run::new("C05", "exploration");
    let th = run.thorough();
    let mut fam = planar_family(3);
    let spec: Vec<(usize, usize)> = if th { vec![(2, 6), (3, 5), (4, 4)] } else { vec![(2, 5), (3, 5), (4, 3)] };
    fam.extend(braid_family(&spec));
    run.add("diagrams", fam.len() as u64);
    let grid: Vec<(i64, i64)> = [0i64, 1, -1, 2, 3].iter().flat_map(|&h| [0i64, 1, -1, 2, 3].iter().map(move |&t| (h, t))).collect();
    let small: Vec<(i64, i64)> = vec![(0, 0), (1, 0), (0, 1), (2, 0), (1, 1), (-1, 2)];
    run.par_for(fam.len(), |i| {
        if run.over_budget() {
            run.cap("wall budget reached");
            return;
        }
        let (name, d) = &fam[i];
        let pts: &[(i64, i64)] = if d.n <= 2 || th { &grid } else { &small };
        if i % 200 == 0 {
            run.sample(json!({"diagram": name, "pd": d.pd(), "evaluation_points": pts.len()}));
        }
        for reduced in [false, true] {
            check::<i64, i64>(&run, name, d, reduced, &[(0, 0)], true);
            check::<Ratio<i64>, Ratio<i64>>(&run, name, d, reduced, &[(0, 0)], true);
            check::<FF2, FF2>(&run, name, d, reduced, &[(0, 0)], true);
            check::<FF<3>, FF<3>>(&run, name, d, reduced, &[(0, 0)], true);
            check::<Poly<'H', i64>, i64>(&run, name, d, reduced, pts, true);
            check::<Poly<'T', i64>, i64>(&run, name, d, reduced, pts, true);
            check::<Poly2<'H', 'T', i64>, i64>(&run, name, d, reduced, pts, true);
            check::<Poly<'H', Ratio<i64>>, Ratio<i64>>(&run, name, d, reduced, &small, true);
            check::<Poly<'H', FF2>, FF2>(&run, name, d, reduced, &[(0, 0), (1, 0)], true);
        }
    });
    // ---- table links beyond the reach of the cube reference -------------------------------------------
    // non-alternating links and knots (quick: links L*n* with 6..=9 crossings and the non-alternating knots 8_19..8_21,
    // 9_42..9_49; thorough: every table entry with <= 9 crossings and the L10n* links), each several times because the elimination order is
    // hash-seeded: d∘d = 0, degrees, homogeneity with reference arithmetic, and "evaluated = built
    // directly" at a few points; no cube comparison (seed
    // `C05-stack-keeps-genus-when-glued-along-arcs` shows in ~15 % of the calls on such links only)
    {
        let reps = if th { 12 } else { 8 };
        let nonalt_knots = ["table:8_19", "table:8_20", "table:8_21", "table:9_42", "table:9_43", "table:9_44", "table:9_45", "table:9_46", "table:9_47", "table:9_48", "table:9_49"];
        let tab: Vec<(String, Diagram)> = table_family(if th { 10 } else { 9 }, true)
            .into_iter()
            .filter(|(n, d)| (th && d.n <= 9) || (d.n >= 6 && (n.contains('n') || nonalt_knots.contains(&n.as_str()))))
            .collect();
        run.add("table_links", tab.len() as u64);
        let jobs: Vec<(usize, usize)> = (0..tab.len()).flat_map(|i| (0..reps).map(move |r| (i, r))).collect();
        run.par_for(jobs.len(), |j| {
            if run.over_budget() {
                run.cap("wall budget reached (table links)");
                return;
            }
            let (i, r) = jobs[j];
            let (name, d) = &tab[i];
            let name = format!("{name}#{r}");
            check::<i64, i64>(&run, &name, d, false, &[(0, 0)], false);
            check::<Poly<'H', i64>, i64>(&run, &name, d, false, &[(0, 0), (2, 0), (1, 0)], false);
            check::<Poly2<'H', 'T', i64>, i64>(&run, &name, d, false, &[(0, 1), (2, 1)], false);
        });
    }
    // ---- the largest non-alternating table knots: 10_124..10_165 and K11n1..K11n185 -----------------------------
    // (seed `C05-connect-one-endpoint-drops-genus`: a gluing pattern - a handle closed by the first strip of a
    //  new crossing, the second strip attached at one end only - that among all 2 214 table entries occurs only
    //  on K11n145, K11n169, K11n173, and there only for some hash-seeded elimination orders.)  d∘d = 0, shapes,
    //  degrees and homogeneity over Z[H,T], the universal coefficients; no specialisation (the reference Smith
    //  forms of these complexes are the expensive part), each knot several times.
    {
        let reps = if th { 6 } else { 2 };
        let mut names: Vec<String> = (124..=165).map(|k| format!("10_{k}")).collect();
        names.extend((1..=185).map(|k| format!("K11n{k}")));
        let tab: Vec<(String, Diagram)> = names
            .into_iter()
            .filter_map(|n| {
                let l = yui_link::Link::load(&n).ok()?;
                let (d, _) = Diagram::from_pd(&pd_of(&l))?;
                Some((format!("table:{n}"), d))
            })
            .collect();
        run.add("big_table_knots", tab.len() as u64);
        let jobs: Vec<(usize, usize)> = (0..reps).flat_map(|r| (0..tab.len()).map(move |i| (i, r))).collect();
        run.par_for(jobs.len(), |j| {
            if run.over_budget() {
                run.cap("wall budget reached (10- and 11-crossing non-alternating knots)");
                return;
            }
            let (i, r) = jobs[j];
            let (name, d) = &tab[i];
            let name = format!("{name}#{r}");
            check::<Poly2<'H', 'T', i64>, i64>(&run, &name, d, false, &[], false);
            run.add("big_table_knot_builds", 1);
        });
    }
    // ---- diagrams with more than 32 crossings --------------------------------------------------------------
    // closures of the 3-braids (s1 s2)^q with 34..40 crossings (thorough up to 60): the
    // crossing-state words leave the low 32 bits (seed `C05-connect-edges-sign-from-low-32-bits`: the sign
    // (-1)^|state| computed from a 32-bit parity); d∘d = 0, shapes, degrees and homogeneity over Z and Z[H,T]
    {
        // (only the positive words: the closures of (s1 s2^-1)^q are alternating links whose homology
        //  grows exponentially with q - the library itself needs minutes for q = 18)
        let qs: Vec<(usize, bool)> = if th { vec![(17, false), (18, false), (20, false), (21, false), (25, false), (30, false)] } else { vec![(17, false), (18, false), (20, false)] };
        run.add("big_diagrams", qs.len() as u64);
        run.par_for(qs.len(), |i| {
            if run.over_budget() {
                run.cap("wall budget reached (big diagrams)");
                return;
            }
            let (q, alt) = qs[i];
            let w: Vec<i32> = (0..q).flat_map(|_| if alt { [1, -2] } else { [1, 2] }).collect();
            let Some(d) = braid_closure(3, &w) else { return };
            let name = format!("big:3-braid:({}1,{}2)^{q}", "s", if alt { "-s" } else { "s" });
            // (no specialisation here: the reference Smith forms of the evaluated 40-crossing complexes
            //  take minutes; d∘d = 0, shapes, degrees and homogeneity are exact and cheap)
            check::<i64, i64>(&run, &name, &d, false, &[], false);
            check::<Poly2<'H', 'T', i64>, i64>(&run, &name, &d, false, &[], false);
        });
    }
    let coverage = json!({
        "diagrams_with_more_than_32_crossings": run.get("big_diagrams"),
        "table_links_beyond_the_cube": run.get("table_links"),
        "non_alternating_knots_10_and_11_crossings": {"knots": run.get("big_table_knots"), "builds_over_Z[H,T]": run.get("big_table_knot_builds")},
        "evaluations": run.get("evaluations"),
        "distinct_nontrivial": run.get("complexes"),
        "rule": "all planar diagrams with <= 3 crossings + braid closures x rings {Z,Q,F2,F3,Z[H],Z[T],Z[H,T],Q[H],F2[H]} x reduced/unreduced (reduced only with t = 0); each (diagram, ring, reduced) complex is distinct; differentials are read entry by entry and multiplied with reference polynomial arithmetic; every complex over a polynomial ring is evaluated at every point of the (h,t) grid and its reference homology compared with the directly built complex and with the reference cube",
        "complexes": run.get("complexes"),
        "specialisations": run.get("specialisations"),
        "exhaustive": true,
    });
    run.finish(
        coverage,
        &[
            "matrix columns/rows are indexed by raw_gens() of the summands (as the library's own d_matrix does)",
            "homology as a module over Q[H] / F2[H] is tied to the definition only through evaluation at points",
        ],
    );
}
