//! C15 — Euclidean-domain operations: exact division, gcd, Bezout, units, rounding.
//! Exhaustive over all ordered pairs of a per-type alphabet (0, ±1, units, associates, values
//! around 2^31 / 2^53 / the machine limits, multi-hundred-digit BigInts); every result is judged
//! with reference arithmetic (`vcore::refnum`).

use checks::bridge::Bridge;
use num_bigint::BigInt;

use vcore::refnum::*;
use vcore::{catch, json, Run};
use yui::poly::{HPoly, Poly};
use yui::{DivRound, EisenInt, EucRing, EucRingOps, GaussInt, Ratio, Ring, FF, FF2};

fn pow2(k: u32) -> Z {
    BigInt::from(1) << k
}

fn pow10(k: u32) -> Z {
    num_traits::pow(BigInt::from(10), k as usize)
}

/// integer alphabet; `bits` = width of the machine type (0 = unbounded)
fn int_alphabet(bits: u32, thorough: bool) -> Vec<Z> {
    let mut v: Vec<Z> = vec![];
    let mut small: Vec<i64> = vec![0, 1, 2, 3, 4, 5, 6, 7, 8, 9, 10, 11, 12, 13, 15, 16, 17, 24, 35, 36, 46, 100, 240];
    if thorough {
        small.extend((14..=64).chain([81, 97, 128, 255, 256, 257, 1000, 1001, 30030]));
    }
    for i in small {
        v.push(z(i));
    }
    for k in [15u32, 31, 32, 53, 62, 63, 64, 100] {
        for d in [-1i64, 0, 1] {
            v.push(pow2(k) + z(d));
        }
    }
    v.push(pow2(53) * z(3) + z(1));
    v.push(pow10(20));
    v.push(pow10(40) + z(7));
    v.push(pow10(300) + z(1));
    v.push(pow10(399));
    v.push(pow10(400));
    let mut all: Vec<Z> = vec![];
    for x in v {
        all.push(-&x);
        all.push(x);
    }
    all.sort();
    all.dedup();
    if bits > 0 {
        // representable, and not the minimum (whose negation does not exist)
        let lim = pow2(bits - 1);
        all.retain(|x| x < &lim && x > &-&lim);
    }
    all
}

struct Tally<'a> {
    run: &'a Run,
    ty: &'static str,
}

impl<'a> Tally<'a> {
    fn fail(&self, op: &str, args: &str, what: String) {
        self.run.fail(&format!("euc:{}:{}:{}", self.ty, op, args), &what, json!({"type": self.ty, "op": op, "args": args}));
    }
}

/// all checks for one ordered pair
fn check_pair<T>(t: &Tally, ar: &T::Ref, br: &T::Ref, fixed_width: bool)
where
    T: EucRing + Bridge,
    for<'x> &'x T: EucRingOps<T>,
    T::Ref: RefEuclid,
{
    let (Some(a), Some(b)) = (T::try_from_ref(ar), T::try_from_ref(br)) else { return };
    let args = format!("{}|{}", ar.show(), br.show());
    t.run.add("pairs", 1);

    // ---- division with remainder ---------------------------------------------------------
    if !br.is_zero() {
        let forms: [(&str, Box<dyn Fn() -> (T, T)>); 3] = [
            ("ref/ref", Box::new(|| (&a / &b, &a % &b))),
            ("val/val", Box::new(|| (a.clone() / b.clone(), a.clone() % b.clone()))),
            (
                "assign",
                Box::new(|| {
                    let mut q = a.clone();
                    q /= &b;
                    let mut r = a.clone();
                    r %= b.clone();
                    (q, r)
                }),
            ),
        ];
        for (form, f) in forms.iter() {
            t.run.add("evaluations", 1);
            match catch(f) {
                Ok((q, r)) => {
                    let (qr, rr) = (q.to_ref(), r.to_ref());
                    if qr.mul(br).add(&rr) != *ar {
                        t.fail("divrem", &args, format!("[{form}] a != (a/b)*b + a%b: q={} r={}", qr.show(), rr.show()));
                    } else if !(rr.is_zero() || rr.eucl() < br.eucl()) {
                        t.fail("divrem", &args, format!("[{form}] remainder not smaller than divisor: q={} r={}", qr.show(), rr.show()));
                    }
                }
                Err(p) => t.fail("divrem", &args, format!("[{form}] panicked: {p}")),
            }
        }
    }

    // ---- gcd / gcdx / lcm ----------------------------------------------------------------------
    t.run.add("evaluations", 3);
    let g = catch(|| T::gcd(&a, &b));
    match &g {
        Ok(g) => {
            let gr = g.to_ref();
            if !(gr.divides(ar) && gr.divides(br)) {
                t.fail("gcd", &args, format!("gcd {} does not divide both", gr.show()));
            }
            let ref_g = ar.gcd(br);
            if !ref_g.associated(&gr) {
                t.fail("gcd", &args, format!("gcd {} is not associated to the reference gcd {}", gr.show(), ref_g.show()));
            }
            match catch(|| (T::gcd(&b, &a), g.normalized())) {
                Ok((g2, gn)) => {
                    if g2 != *g {
                        t.fail("gcd", &args, format!("gcd(a,b)={} but gcd(b,a)={}", gr.show(), g2.to_ref().show()));
                    }
                    if gn != *g {
                        t.fail("gcd", &args, format!("gcd {} is not normalised (normalised: {})", gr.show(), gn.to_ref().show()));
                    }
                }
                Err(p) => t.fail("gcd", &args, format!("gcd(b,a)/normalized panicked: {p}")),
            }
        }
        Err(p) => t.fail("gcd", &args, format!("panicked: {p}")),
    }
    match catch(|| T::gcdx(&a, &b)) {
        Ok((d, s, u)) => {
            let (dr, sr, ur) = (d.to_ref(), s.to_ref(), u.to_ref());
            if sr.mul(ar).add(&ur.mul(br)) != dr {
                t.fail("gcdx", &args, format!("d={} != s*a+t*b with s={} t={}", dr.show(), sr.show(), ur.show()));
            }
            if let Ok(g) = &g {
                if d != *g {
                    t.fail("gcdx", &args, format!("gcdx d={} differs from gcd={}", dr.show(), g.to_ref().show()));
                }
            }
        }
        Err(p) => t.fail("gcdx", &args, format!("panicked: {p}")),
    }
    if !(ar.is_zero() && br.is_zero()) {
        let prod = ar.mul(br);
        let lcm_ref = if ar.is_zero() || br.is_zero() { T::Ref::zero() } else { prod.exact_div(&ar.gcd(br)).unwrap() };
        let representable = !fixed_width || T::try_from_ref(&lcm_ref).is_some() && T::try_from_ref(&lcm_ref.neg()).is_some();
        if representable {
            match catch(|| T::lcm(&a, &b)) {
                Ok(l) => {
                    let lr = l.to_ref();
                    if let Ok(g) = &g {
                        if !lr.mul(&g.to_ref()).associated(&prod) {
                            t.fail("lcm", &args, format!("lcm*gcd = {}*{} is not an associate of a*b", lr.show(), g.to_ref().show()));
                        }
                    }
                }
                Err(p) => t.fail("lcm", &args, format!("panicked: {p}")),
            }
        } else {
            t.run.add("skipped_lcm_not_representable", 1);
        }
    }
}

fn check_single<T>(t: &Tally, ar: &T::Ref)
where
    T: EucRing + Bridge,
    for<'x> &'x T: EucRingOps<T>,
    T::Ref: RefEuclid,
{
    let Some(a) = T::try_from_ref(ar) else { return };
    let args = ar.show();
    t.run.add("evaluations", 2);
    // units
    match catch(|| (a.is_unit(), a.inv())) {
        Ok((u, inv)) => {
            let ru = ar.is_unit();
            if u != ru || inv.is_some() != ru {
                t.fail("unit", &args, format!("is_unit={u} inv.is_some={} reference is_unit={ru}", inv.is_some()));
            }
            if let Some(i) = inv {
                if !ar.mul(&i.to_ref()).is_one() {
                    t.fail("unit", &args, format!("a*inv(a) != 1 (inv={})", i.to_ref().show()));
                }
            }
        }
        Err(p) => t.fail("unit", &args, format!("panicked: {p}")),
    }
    // normalisation
    match catch(|| (a.normalizing_unit(), a.normalized())) {
        Ok((u, n)) => {
            let (ur, nr) = (u.to_ref(), n.to_ref());
            if !ur.is_unit() {
                t.fail("normalize", &args, format!("normalizing_unit {} is not a unit", ur.show()));
            }
            if ar.mul(&ur) != nr {
                t.fail("normalize", &args, format!("normalized {} != a*normalizing_unit {}", nr.show(), ur.show()));
            }
            match catch(|| n.normalized()) {
                Ok(nn) if nn == n => {}
                Ok(nn) => t.fail("normalize", &args, format!("not idempotent: {} -> {}", nr.show(), nn.to_ref().show())),
                Err(p) => t.fail("normalize", &args, format!("normalized(normalized) panicked: {p}")),
            }
            for e in T::Ref::unit_list() {
                let Some(ae) = T::try_from_ref(&ar.mul(&e)) else { continue };
                t.run.add("evaluations", 1);
                match catch(|| ae.normalized()) {
                    Ok(m) if m == n => {}
                    Ok(m) => t.fail(
                        "normalize",
                        &args,
                        format!("not constant on associates: normalized(a)={} but normalized(a*{})={}", nr.show(), e.show(), m.to_ref().show()),
                    ),
                    Err(p) => t.fail("normalize", &args, format!("normalized(a*unit) panicked: {p}")),
                }
            }
        }
        Err(p) => t.fail("normalize", &args, format!("panicked: {p}")),
    }
}

fn sweep<T>(run: &Run, alphabet: &[T::Ref], fixed_width: bool, pair_ok: impl Fn(&T::Ref, &T::Ref) -> bool + Sync)
where
    T: EucRing + Bridge,
    for<'x> &'x T: EucRingOps<T>,
    T::Ref: RefEuclid,
{
    let t = Tally { run, ty: T::NAME };
    let al: Vec<&T::Ref> = alphabet.iter().filter(|x| T::try_from_ref(x).is_some()).collect();
    run.add("types", 1);
    run.par_for(al.len(), |i| {
        check_single::<T>(&t, al[i]);
        for b in &al {
            if pair_ok(al[i], b) {
                check_pair::<T>(&t, al[i], b, fixed_width);
            } else {
                run.add("skipped_pairs_intermediate_overflow", 1);
            }
        }
    });
    run.sample(json!({"type": T::NAME, "alphabet_size": al.len(), "first": al.iter().take(6).map(|x| x.show()).collect::<Vec<_>>()}));
}

/// nearest-integer division on the integer types
fn sweep_div_round<T>(run: &Run, alphabet: &[Z])
where
    T: EucRing + Bridge<Ref = Z> + DivRound,
    for<'x> &'x T: EucRingOps<T>,
{
    let t = Tally { run, ty: T::NAME };
    let al: Vec<&Z> = alphabet.iter().filter(|x| T::try_from_ref(x).is_some()).collect();
    run.par_for(al.len(), |i| {
        let ar = al[i];
        let a = T::from_ref(ar);
        for br in &al {
            if br.is_zero() {
                continue;
            }
            // the exactly rounded quotient must itself be representable
            let qr = div_round_z(ar, br);
            if T::try_from_ref(&qr).is_none() {
                continue;
            }
            let b = T::from_ref(br);
            run.add("evaluations", 1);
            run.add("div_round_pairs", 1);
            let args = format!("{}|{}", ar, br);
            match catch(|| a.div_round(&b)) {
                Ok(q) => {
                    if !is_rounded_quotient(ar, br, &q.to_ref()) {
                        t.fail("div_round", &args, format!("got {} ; an exactly rounded quotient is {}", q.to_ref(), qr));
                    }
                }
                Err(p) => t.fail("div_round", &args, format!("panicked: {p}")),
            }
        }
    });
}

fn quad_alphabet<const D: i64>(parts_small: i64, big: &[Z]) -> Vec<Quad<D>> {
    let mut v = vec![];
    for a in -parts_small..=parts_small {
        for b in -parts_small..=parts_small {
            v.push(Quad::<D>::new(z(a), z(b)));
        }
    }
    for x in big {
        for y in [z(0), z(1), x.clone(), -x.clone() + z(3)] {
            v.push(Quad::<D>::new(x.clone(), y.clone()));
            v.push(Quad::<D>::new(y.clone(), -x.clone()));
        }
    }
    v.sort_by_key(|q| (q.a.clone(), q.b.clone()));
    v.dedup();
    v
}

fn quad_safe<const D: i64>(bits: u32) -> impl Fn(&Quad<D>, &Quad<D>) -> bool + Sync {
    move |a, b| {
        if bits == 0 {
            return true;
        }
        use num_traits::Signed;
        let sa = a.a.abs() + a.b.abs();
        let sb = b.a.abs() + b.b.abs();
        // every textbook intermediate (a*conj(b), norms, q*b) stays below 2^(bits-2)
        (&sa * &sb * z(4) < pow2(bits - 2)) && (&sb * &sb * z(4) < pow2(bits - 2)) && (&sa * &sa * z(4) < pow2(bits - 2))
    }
}

fn upoly_alphabet<K: RefField>(coeffs: &[K], maxdeg: usize) -> Vec<UPoly<K>> {
    let mut out = vec![];
    let n = coeffs.len();
    let total = n.pow(maxdeg as u32 + 1);
    for idx in 0..total {
        let mut c = vec![];
        let mut k = idx;
        for _ in 0..=maxdeg {
            c.push(coeffs[k % n].clone());
            k /= n;
        }
        out.push(UPoly::new(c));
    }
    out.sort_by_key(|p| format!("{p:?}"));
    out.dedup();
    out
}

// HPoly = single-term polynomials; reference = UPoly with one term

fn main() {
    // the watchdog covers the run as a whole: with a Euclidean step that does not shrink the remainder the
    // library's own gcd loops never return (seed `C15-qint-div-by-rational-truncates`), and a hung checker is
    // not a verdict; quick / thorough normally finish in seconds, the cap is 60 s / 600 s
    let run_arc = std::sync::Arc::new(Run::new("C15", "exploration"));
    run_arc.start_watchdog(json!({"exhaustive": false, "note": "aborted by the watchdog: a library call did not terminate; counts are partial"}));
    run_arc.enter_case(0, "the sweep as a whole (every division / gcd / gcdx / lcm call of the library must terminate)".into());
    let run: &Run = &run_arc;
    let th = run.thorough();

    // ---- integers ----------------------------------------------------------------------------
    let a32 = int_alphabet(32, th);
    let a64 = int_alphabet(64, th);
    let a128 = int_alphabet(128, th);
    let abig = int_alphabet(0, th);
    sweep::<i32>(&run, &a32, true, |_, _| true);
    sweep::<i64>(&run, &a64, true, |_, _| true);
    sweep::<i128>(&run, &a128, true, |_, _| true);
    sweep::<BigInt>(&run, &abig, false, |_, _| true);
    sweep_div_round::<i32>(&run, &a32);
    sweep_div_round::<i64>(&run, &a64);
    sweep_div_round::<i128>(&run, &a128);
    sweep_div_round::<BigInt>(&run, &abig);

    // ---- Gaussian / Eisenstein integers ----------------------------------------------------------
    let small = if th { 6 } else { 4 };
    let big64 = [pow2(13) + z(1), pow2(26) + z(3)]; // products ~2^54..2^56: beyond f64's 2^53
    let big128 = [pow2(27) + z(1), pow2(53) + z(1), pow2(58) - z(1)];
    let bigbig = [pow2(27) + z(1), pow2(53) + z(1), pow10(30) + z(7), pow10(160) + z(1)];
    sweep::<GaussInt<i64>>(&run, &quad_alphabet::<-1>(small, &big64), true, quad_safe::<-1>(64));
    sweep::<GaussInt<i128>>(&run, &quad_alphabet::<-1>(2, &big128), true, quad_safe::<-1>(128));
    sweep::<GaussInt<BigInt>>(&run, &quad_alphabet::<-1>(2, &bigbig), false, quad_safe::<-1>(0));
    sweep::<EisenInt<i64>>(&run, &quad_alphabet::<-3>(small, &big64), true, quad_safe::<-3>(64));
    sweep::<EisenInt<i128>>(&run, &quad_alphabet::<-3>(2, &big128), true, quad_safe::<-3>(128));
    sweep::<EisenInt<BigInt>>(&run, &quad_alphabet::<-3>(2, &bigbig), false, quad_safe::<-3>(0));

    // ---- fields ---------------------------------------------------------------------------------
    let mut qs: Vec<Q> = vec![];
    for n in -4i64..=4 {
        for d in 1i64..=4 {
            qs.push(Q::new(z(n), z(d)));
        }
    }
    for b in [pow2(31), pow2(53) + z(1)] {
        qs.push(Q::from_z(b.clone()));
        qs.push(Q::new(z(1), b.clone()));
        qs.push(Q::new(-b.clone(), z(3)));
    }
    qs.sort_by(|a, b| a.cmp_q(b));
    qs.dedup();
    // Ratio<i64>: the machine-size entries only against small partners (textbook products fit)
    let small_q = |x: &Q| x.n.bits() <= 8 && x.d.bits() <= 8;
    sweep::<Ratio<i64>>(&run, &qs, true, |a, b| small_q(a) || small_q(b));
    let mut qbig = qs.clone();
    qbig.push(Q::new(pow10(40) + z(7), pow10(20)));
    qbig.push(Q::new(z(-1), pow10(300)));
    sweep::<Ratio<BigInt>>(&run, &qbig, false, |_, _| true);
    sweep::<FF2>(&run, &Fp::<2>::all(), true, |_, _| true);
    sweep::<FF<2>>(&run, &Fp::<2>::all(), true, |_, _| true);
    sweep::<FF<3>>(&run, &Fp::<3>::all(), true, |_, _| true);
    sweep::<FF<5>>(&run, &Fp::<5>::all(), true, |_, _| true);
    sweep::<FF<7>>(&run, &Fp::<7>::all(), true, |_, _| true);

    // ---- polynomials over fields ------------------------------------------------------------------
    let qc = vec![Q::int(0), Q::int(1), Q::int(-1), Q::int(2), Q::new(z(1), z(2))];
    let qc = if th { [qc, vec![Q::int(4), Q::new(z(-2), z(3))]].concat() } else { qc };
    sweep::<Poly<'x', Ratio<i64>>>(&run, &upoly_alphabet(&qc, 2), false, |_, _| true);
    sweep::<Poly<'x', FF<3>>>(&run, &upoly_alphabet(&Fp::<3>::all(), if th { 3 } else { 2 }), false, |_, _| true);
    sweep::<Poly<'x', FF2>>(&run, &upoly_alphabet(&Fp::<2>::all(), if th { 4 } else { 3 }), false, |_, _| true);
    sweep::<Poly<'x', FF<5>>>(&run, &upoly_alphabet(&Fp::<5>::all(), if th { 2 } else { 1 }), false, |_, _| true);

    // ---- homogeneous polynomials (single terms a*x^d) over Q and F3 ----------------------------------
    hpoly_sweep(&run);

    let ev = run.get("evaluations");
    let pairs = run.get("pairs") + run.get("div_round_pairs");
    let coverage = json!({
        "evaluations": ev,
        "distinct_nontrivial": pairs,
        "rule": "all ordered pairs (a,b) of a per-type alphabet (0, units, associates, values around 2^31/2^53/machine limits, 10^300-sized BigInts; all of F_p; all polynomials of degree <= 2..4 over a small coefficient set); each pair is distinct by construction (alphabets are deduplicated); 'evaluations' counts library calls judged by reference arithmetic",
        "types": run.get("types"),
        "exhaustive": true,
    });
    run.leave_case(0);
    run.finish_ref(
        coverage,
        &[
            "reference arithmetic: num-bigint based textbook algorithms in vcore::refnum (own Euclid loop per ring)",
            "fixed-width composite types (QuadInt<i64/i128>, Ratio<i64>) only get operand pairs whose textbook intermediates are representable; everything larger goes through the BigInt instances",
            "either tie direction is accepted for nearest-integer division",
        ],
    );
}

fn hpoly_sweep(run: &Run) {
    type K = Ratio<i64>;
    type H = HPoly<'x', K>;
    let t = Tally { run, ty: "HPoly<x,Ratio<i64>>" };
    run.add("types", 1);
    let coeffs = [Q::int(0), Q::int(1), Q::int(-1), Q::int(2), Q::new(z(1), z(2)), Q::new(z(-2), z(3))];
    let mut al: Vec<(usize, Q)> = vec![];
    for d in 0..=3usize {
        for c in &coeffs {
            al.push((d, c.clone()));
        }
    }
    let mk = |x: &(usize, Q)| H::new(x.0, K::from_ref(&x.1));
    let rf = |h: &H| -> UPoly<Q> {
        let mut c = vec![Q::int(0); h.deg() + 1];
        c[h.deg()] = h.coeff().to_ref();
        UPoly::new(c)
    };
    for x in &al {
        let a = mk(x);
        let ar = rf(&a);
        let args1 = format!("{:?}", x);
        run.add("evaluations", 1);
        match catch(|| (a.is_unit(), a.inv().is_some(), a.normalized(), a.normalized().normalized())) {
            Ok((u, i, n, nn)) => {
                if u != ar.is_unit() || i != u {
                    t.fail("unit", &args1, format!("is_unit={u} inv.is_some={i} reference={}", ar.is_unit()));
                }
                if n != nn || !rf(&n).associated(&ar) {
                    t.fail("normalize", &args1, format!("normalized={n} renormalized={nn}"));
                }
                if !ar.is_zero() && !rf(&n).lead().map(|l| l.is_one()).unwrap_or(false) {
                    t.fail("normalize", &args1, format!("normalized {n} is not monic"));
                }
            }
            Err(p) => t.fail("unit/normalize", &args1, format!("panicked: {p}")),
        }
        for y in &al {
            let b = mk(y);
            let br = rf(&b);
            let args = format!("{:?}|{:?}", x, y);
            run.add("pairs", 1);
            if !br.is_zero() {
                run.add("evaluations", 1);
                match catch(|| (&a / &b, &a % &b)) {
                    Ok((q, r)) => {
                        let (qr, rr) = (rf(&q), rf(&r));
                        if qr.mul(&br).add(&rr) != ar || !(rr.is_zero() || rr.eucl() < br.eucl()) {
                            t.fail("divrem", &args, format!("q={q} r={r}"));
                        }
                    }
                    Err(p) => t.fail("divrem", &args, format!("panicked: {p}")),
                }
            }
            run.add("evaluations", 2);
            match catch(|| (H::gcd(&a, &b), H::gcd(&b, &a), H::gcdx(&a, &b))) {
                Ok((g, g2, (d, s, u))) => {
                    let gr = rf(&g);
                    if !(gr.divides(&ar) && gr.divides(&br)) || !gr.associated(&ar.gcd(&br)) {
                        t.fail("gcd", &args, format!("gcd={g} is not a gcd"));
                    }
                    if g != g2 || g != g.normalized() {
                        t.fail("gcd", &args, format!("gcd(a,b)={g} gcd(b,a)={g2} normalized={}", g.normalized()));
                    }
                    // s*a + t*b may be inhomogeneous as a formal sum; evaluate in the reference ring
                    if rf(&s).mul(&ar).add(&rf(&u).mul(&br)) != rf(&d) || d != g {
                        t.fail("gcdx", &args, format!("d={d} s={s} t={u} gcd={g}"));
                    }
                }
                Err(p) => t.fail("gcd", &args, format!("panicked: {p}")),
            }
        }
    }
}
