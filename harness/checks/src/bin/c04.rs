//! C04 — graded Euler characteristic of Kh = library Jones polynomial = Kauffman state sum.

use std::collections::BTreeMap;

use checks::khconv::*;
use checks::linkconv::*;
use vcore::reflink::{braid_closure, Diagram};
use vcore::refnum::*;
use vcore::{catch, json, Run};
use yui::poly::Mono;
use yui_kh::kh::KhComplexBigraded;
use yui_link::util::jones_polynomial;

type Lp = BTreeMap<i64, Z>;

fn lib_jones(d: &Diagram) -> Result<Lp, String> {
    catch(|| {
        let p = jones_polynomial(&to_link(d));
        let mut m = Lp::new();
        for (x, a) in p.iter() {
            let e: isize = x.deg();
            if *a != 0 {
                *m.entry(e as i64).or_insert_with(|| z(0)) += z(*a as i64);
            }
        }
        m.retain(|_, v| !v.is_zero());
        m
    })
}

fn euler_char(d: &Diagram) -> Result<Lp, String> {
    catch(|| {
        let t = bigraded_table(&KhComplexBigraded::<i64>::new(&to_link(d), &0, &0, false).homology());
        let mut m = Lp::new();
        for (&(i, j), md) in &t {
            let s = if i.rem_euclid(2) == 0 { 1 } else { -1 };
            *m.entry(j).or_insert_with(|| z(0)) += z(s * md.rank as i64);
        }
        m.retain(|_, v| !v.is_zero());
        m
    })
}

fn check(run: &Run, name: &str, d: &Diagram, with_kh: bool) -> Option<Lp> {
    let key = format!("jones:{name}:{}", code_string(d));
    run.add("evaluations", 1);
    let reference = d.jones();
    let lj = lib_jones(d);
    match &lj {
        Ok(j) => {
            if *j != reference {
                run.fail(&key, &format!("jones_polynomial {:?} != Kauffman state sum {:?}", j, reference), json!({"pd": d.pd()}));
            }
        }
        Err(p) => run.fail(&key, &format!("jones_polynomial panicked: {p}"), json!({"pd": d.pd()})),
    }
    if with_kh {
        run.add("evaluations", 1);
        match euler_char(d) {
            Ok(e) => {
                if e != reference {
                    run.fail(&format!("{key}:euler"), &format!("graded Euler characteristic of Kh {:?} != Jones {:?}", e, reference), json!({"pd": d.pd()}));
                }
            }
            Err(p) => run.fail(&format!("{key}:euler"), &format!("Kh panicked: {p}"), json!({"pd": d.pd()})),
        }
    }
    lj.ok()
}

fn main() {
    let run = Run::new("C04", "exploration");
    let th = run.thorough();
    let fam = planar_family(4);
    run.add("diagrams", fam.len() as u64);
    run.par_for(fam.len(), |i| {
        let (name, d) = &fam[i];
        let Some(j) = check(&run, name, d, true) else { return };
        if i % 200 == 0 {
            run.sample(json!({"diagram": name, "pd": d.pd(), "jones": j.iter().map(|(e, c)| (e.to_string(), c.to_string())).collect::<Vec<_>>()}));
        }
        // invariance along every move edge, q -> 1/q under mirroring (library values)
        if d.n <= 3 {
            let mut moves = pd_moves(d, true);
            moves.extend(pd_r2_moves(d));
            moves.extend(pd_r3_moves(d));
            for (mv, d2) in moves {
                run.add("move_edges", 1);
                if let Some(j2) = check(&run, &format!("{name}:{mv}"), &d2, d.n <= 2) {
                    if j2 != j {
                        run.fail(&format!("jones:move:{name}:{}:{mv}", code_string(d)), "Jones polynomial changes under an isotopy move", json!({"from": d.pd(), "to": d2.pd(), "move": mv}));
                    }
                }
            }
        }
        run.add("evaluations", 1);
        let flipped: Lp = j.iter().map(|(e, c)| (-e, c.clone())).collect();
        match catch(|| {
            let p = jones_polynomial(&to_link(d).mirror());
            let mut m = Lp::new();
            for (x, a) in p.iter() {
                let e: isize = x.deg();
                *m.entry(e as i64).or_insert_with(|| z(0)) += z(*a as i64);
            }
            m.retain(|_, v| !v.is_zero());
            m
        }) {
            Ok(m) if m == flipped => {}
            Ok(m) => run.fail(&format!("jones:mirror:{name}:{}", code_string(d)), &format!("mirror: {:?} is not q -> 1/q of {:?}", m, j), json!({"pd": d.pd()})),
            Err(p) => run.fail(&format!("jones:mirror:{name}:{}", code_string(d)), &format!("panicked: {p}"), json!({"pd": d.pd()})),
        }
    });
    let spec: Vec<(usize, usize)> = if th { vec![(2, 8), (3, 6), (4, 5), (5, 4)] } else { vec![(2, 7), (3, 5), (4, 4)] };
    let mut words: Vec<(usize, Vec<i32>)> = vec![];
    for &(s, ml) in &spec {
        for len in 1..=ml {
            for w in braid_words(s, len) {
                if braid_closure(s, &w).is_some() {
                    words.push((s, w));
                }
            }
        }
    }
    run.add("braid_words", words.len() as u64);
    run.par_for(words.len(), |i| {
        if run.over_budget() {
            run.cap("wall budget reached in the braid family");
            return;
        }
        let (s, w) = &words[i];
        let d = braid_closure(*s, w).unwrap();
        let name = format!("braid{}:{:?}", s, w).replace(' ', "");
        let Some(j) = check(&run, &name, &d, w.len() <= 5) else { return };
        if w.len() <= 4 {
            for (mv, s2, w2) in braid_moves(*s, w, 6) {
                run.add("move_edges", 1);
                let d2 = braid_closure(s2, &w2).unwrap();
                if let Some(j2) = check(&run, &format!("{name}:{mv}"), &d2, false) {
                    if j2 != j {
                        run.fail(&format!("jones:move:{name}:{mv}"), "Jones polynomial changes under a braid move", json!({"from": d.pd(), "to": d2.pd(), "move": mv}));
                    }
                }
            }
        }
    });
    let coverage = json!({
        "evaluations": run.get("evaluations"),
        "distinct_nontrivial": run.get("diagrams") + run.get("braid_words"),
        "rule": "all planar diagrams with <= 3 (thorough 4) crossings and all braid closures up to the stated lengths (distinct by construction); three independently computed quantities compared pairwise: library jones_polynomial, graded Euler characteristic of the library's bigraded Kh over Z, reference Kauffman state sum; plus invariance along every PD/braid move edge and q -> 1/q under Link::mirror()",
        "move_edges": run.get("move_edges"),
        "exhaustive": true,
    });
    run.finish(coverage, &["reference: vcore::reflink state sum (own union-find circle count)"]);
}
