//! C04 — graded Euler characteristic of Kh = library Jones polynomial = Kauffman state sum.

use std::collections::BTreeMap;

use checks::khconv::*;
use checks::linkconv::*;
use vcore::reflink::{braid_closure, Diagram};
use vcore::refnum::*;
use vcore::{catch, json, Run};
use yui::poly::Mono;
use yui_kh::kh::KhComplexBigraded;
use yui_link::util::jones_polynomial;

type Lp = BTreeMap<i64, Z>;

fn lib_jones(d: &Diagram) -> Result<Lp, String> {
    catch(|| {
        let p = jones_polynomial(&to_link(d));
        let mut m = Lp::new();
        for (x, a) in p.iter() {
            let e: isize = x.deg();
            if *a != 0 {
                *m.entry(e as i64).or_insert_with(|| z(0)) += z(*a as i64);
            }
        }
        m.retain(|_, v| !v.is_zero());
        m
    })
}

fn euler_char(d: &Diagram) -> Result<Lp, String> {
    catch(|| {
        let t = bigraded_table(&KhComplexBigraded::<i64>::new(&to_link(d), &0, &0, false).homology());
        let mut m = Lp::new();
        for (&(i, j), md) in &t {
            let s = if i.rem_euclid(2) == 0 { 1 } else { -1 };
            *m.entry(j).or_insert_with(|| z(0)) += z(s * md.rank as i64);
        }
        m.retain(|_, v| !v.is_zero());
        m
    })
}

fn check(run: &Run, name: &str, d: &Diagram, with_kh: bool) -> Option<Lp> {
    let key = format!("jones:{name}:{}", code_string(d));
    run.add("evaluations", 1);
    let reference = d.jones();
    let lj = lib_jones(d);
    match &lj {
        Ok(j) => {
            if *j != reference {
                run.fail(&key, &format!("jones_polynomial {:?} != Kauffman state sum {:?}", j, reference), json!({"pd": d.pd()}));
            }
        }
        Err(p) => run.fail(&key, &format!("jones_polynomial panicked: {p}"), json!({"pd": d.pd()})),
    }
    // presentations: the same diagram with its edges renumbered (labels with gaps, beyond 2n and 4n, reversed,
    // shuffled) - the polynomial is a function of the diagram, not of the labels
    // (seed `C04-components-flag-table-2n`: circle counts of `jones_polynomial` wrong for labels > 2n)
    for (rn, f) in relabelings(2 * d.n) {
        run.add("evaluations", 1);
        run.add("relabelled_presentations", 1);
        let l = to_link_with(d, &*f);
        let got = catch(|| {
            let p = jones_polynomial(&l);
            let mut m = Lp::new();
            for (x, a) in p.iter() {
                let e: isize = x.deg();
                if *a != 0 {
                    *m.entry(e as i64).or_insert_with(|| z(0)) += z(*a as i64);
                }
            }
            m.retain(|_, v| !v.is_zero());
            m
        });
        match got {
            Ok(j) if j == reference => {}
            Ok(j) => run.fail(&format!("{key}:relabelled:{rn}"), &format!("jones_polynomial of the presentation with edge labels '{rn}' {:?} != Kauffman state sum {:?}", j, reference), json!({"pd": pd_of(&l)})),
            Err(p) => run.fail(&format!("{key}:relabelled:{rn}"), &format!("jones_polynomial panicked on the presentation with edge labels '{rn}': {p}"), json!({"pd": pd_of(&l)})),
        }
    }
    if with_kh {
        run.add("evaluations", 1);
        match euler_char(d) {
            Ok(e) => {
                if e != reference {
                    run.fail(&format!("{key}:euler"), &format!("graded Euler characteristic of Kh {:?} != Jones {:?}", e, reference), json!({"pd": d.pd()}));
                }
            }
            Err(p) => run.fail(&format!("{key}:euler"), &format!("Kh panicked: {p}"), json!({"pd": d.pd()})),
        }
    }
    lj.ok()
}

/// Partially smoothed diagrams (a non-initial state: `Link::unknot()` itself is one).  For every
/// pattern of smoothings of a small diagram the library's graded Euler characteristic and its
/// `jones_polynomial`, with the library's own normalisation (-1)^{n-} q^{n+ - 2n-} of THAT diagram
/// divided out, must equal the Kauffman bracket of the pattern: the state sum over the remaining
/// crossings, sum_s (-q)^{|s|} (q + 1/q)^{circles}, which does not depend on orientations.
fn check_partial(run: &Run, name: &str, d: &Diagram) {
    use yui::bitseq::Bit;
    let n = d.n;
    let link = to_link(d);
    for code in 1..3u32.pow(n as u32) {
        let pat: Vec<Option<bool>> = (0..n).map(|c| match (code / 3u32.pow(c as u32)) % 3 { 0 => None, 1 => Some(false), _ => Some(true) }).collect();
        let key = format!("jones:partial:{name}:{}:{}", code_string(d), pat.iter().map(|p| match p { None => 'x', Some(false) => '0', Some(true) => '1' }).collect::<String>());
        // reference bracket
        let free: Vec<usize> = (0..n).filter(|&c| pat[c].is_none()).collect();
        let mut want = Lp::new();
        for s in 0..(1u32 << free.len()) {
            let mut full = 0u32;
            for c in 0..n {
                if pat[c] == Some(true) {
                    full |= 1 << c;
                }
            }
            for (k, &c) in free.iter().enumerate() {
                if s >> k & 1 == 1 {
                    full |= 1 << c;
                }
            }
            let ones = s.count_ones() as i64;
            let circles = d.circles(full).1;
            // (-q)^ones (q + 1/q)^circles
            let mut term: Lp = [(ones, z(if ones % 2 == 0 { 1 } else { -1 }))].into_iter().collect();
            for _ in 0..circles {
                let mut next = Lp::new();
                for (e, c) in &term {
                    *next.entry(e + 1).or_insert_with(|| z(0)) += c.clone();
                    *next.entry(e - 1).or_insert_with(|| z(0)) += c.clone();
                }
                term = next;
            }
            for (e, c) in term {
                *want.entry(e).or_insert_with(|| z(0)) += c;
            }
        }
        want.retain(|_, v| !v.is_zero());
        // the library's diagram: smooth in increasing order of the original index
        let r = catch(|| {
            let mut l = link.clone();
            let mut before = 0usize; // unsmoothed crossings with a smaller original index
            for c in 0..n {
                match pat[c] {
                    None => before += 1,
                    Some(b) => l = l.resolved_at(before, if b { Bit::Bit1 } else { Bit::Bit0 }),
                }
            }
            let (np, nn) = l.signed_crossing_nums();
            let unnorm = |m: Lp| -> Lp {
                let sgn = if nn % 2 == 0 { 1 } else { -1 };
                let sh = np as i64 - 2 * nn as i64;
                m.into_iter().map(|(e, c)| (e - sh, c * z(sgn))).collect()
            };
            let t = bigraded_table(&KhComplexBigraded::<i64>::new(&l, &0, &0, false).homology());
            let mut e = Lp::new();
            for (&(i, j), md) in &t {
                let s = if i.rem_euclid(2) == 0 { 1 } else { -1 };
                *e.entry(j).or_insert_with(|| z(0)) += z(s * md.rank as i64);
            }
            e.retain(|_, v| !v.is_zero());
            let p = jones_polynomial(&l);
            let mut jm = Lp::new();
            for (x, a) in p.iter() {
                let ex: isize = x.deg();
                if *a != 0 {
                    *jm.entry(ex as i64).or_insert_with(|| z(0)) += z(*a as i64);
                }
            }
            jm.retain(|_, v| !v.is_zero());
            (unnorm(e), unnorm(jm), l.crossing_num())
        });
        run.add("evaluations", 2);
        run.add("partially_smoothed_diagrams", 1);
        match r {
            Ok((e, jm, left)) => {
                if left != free.len() {
                    run.fail(&key, &format!("{left} crossings left, expected {}", free.len()), json!({"pd": d.pd()}));
                }
                if e != want {
                    run.fail(&format!("{key}:euler"), &format!("Euler characteristic of Kh with the diagram's normalisation divided out {:?} != Kauffman bracket {:?}", e, want), json!({"pd": d.pd(), "smoothing": format!("{pat:?}")}));
                }
                if jm != want {
                    run.fail(&format!("{key}:jones"), &format!("jones_polynomial with the diagram's normalisation divided out {:?} != Kauffman bracket {:?}", jm, want), json!({"pd": d.pd(), "smoothing": format!("{pat:?}")}));
                }
            }
            Err(p) => run.fail(&key, &format!("panicked: {p}"), json!({"pd": d.pd(), "smoothing": format!("{pat:?}")})),
        }
    }
}

fn main() {
    let run = Run::new("C04", "exploration");
    let th = run.thorough();
    let fam = planar_family(4);
    run.add("diagrams", fam.len() as u64);
    run.par_for(fam.len(), |i| {
        let (name, d) = &fam[i];
        let Some(j) = check(&run, name, d, true) else { return };
        if i % 200 == 0 {
            run.sample(json!({"diagram": name, "pd": d.pd(), "jones": j.iter().map(|(e, c)| (e.to_string(), c.to_string())).collect::<Vec<_>>()}));
        }
        if d.n <= 3 {
            check_partial(&run, name, d);
        }
        // invariance along every move edge, q -> 1/q under mirroring (library values)
        if d.n <= 3 {
            let mut moves = pd_moves(d, true);
            moves.extend(pd_r2_moves(d));
            moves.extend(pd_r3_moves(d));
            for (mv, d2) in moves {
                run.add("move_edges", 1);
                if let Some(j2) = check(&run, &format!("{name}:{mv}"), &d2, d.n <= 2) {
                    if j2 != j {
                        run.fail(&format!("jones:move:{name}:{}:{mv}", code_string(d)), "Jones polynomial changes under an isotopy move", json!({"from": d.pd(), "to": d2.pd(), "move": mv}));
                    }
                }
            }
        }
        run.add("evaluations", 1);
        let flipped: Lp = j.iter().map(|(e, c)| (-e, c.clone())).collect();
        match catch(|| {
            let p = jones_polynomial(&to_link(d).mirror());
            let mut m = Lp::new();
            for (x, a) in p.iter() {
                let e: isize = x.deg();
                *m.entry(e as i64).or_insert_with(|| z(0)) += z(*a as i64);
            }
            m.retain(|_, v| !v.is_zero());
            m
        }) {
            Ok(m) if m == flipped => {}
            Ok(m) => run.fail(&format!("jones:mirror:{name}:{}", code_string(d)), &format!("mirror: {:?} is not q -> 1/q of {:?}", m, j), json!({"pd": d.pd()})),
            Err(p) => run.fail(&format!("jones:mirror:{name}:{}", code_string(d)), &format!("panicked: {p}"), json!({"pd": d.pd()})),
        }
    });
    let spec: Vec<(usize, usize)> = if th { vec![(2, 8), (3, 6), (4, 5), (5, 4)] } else { vec![(2, 7), (3, 5), (4, 4)] };
    let mut words: Vec<(usize, Vec<i32>)> = vec![];
    for &(s, ml) in &spec {
        for len in 1..=ml {
            for w in braid_words(s, len) {
                if braid_closure(s, &w).is_some() {
                    words.push((s, w));
                }
            }
        }
    }
    run.add("braid_words", words.len() as u64);
    run.par_for(words.len(), |i| {
        if run.over_budget() {
            run.cap("wall budget reached in the braid family");
            return;
        }
        let (s, w) = &words[i];
        let d = braid_closure(*s, w).unwrap();
        let name = format!("braid{}:{:?}", s, w).replace(' ', "");
        let Some(j) = check(&run, &name, &d, w.len() <= 5) else { return };
        if w.len() <= 4 {
            for (mv, s2, w2) in braid_moves(*s, w, 6) {
                run.add("move_edges", 1);
                let d2 = braid_closure(s2, &w2).unwrap();
                if let Some(j2) = check(&run, &format!("{name}:{mv}"), &d2, false) {
                    if j2 != j {
                        run.fail(&format!("jones:move:{name}:{mv}"), "Jones polynomial changes under a braid move", json!({"from": d.pd(), "to": d2.pd(), "move": mv}));
                    }
                }
            }
        }
    });
    let coverage = json!({
        "evaluations": run.get("evaluations"),
        "distinct_nontrivial": run.get("diagrams") + run.get("braid_words"),
        "relabelled_presentations": run.get("relabelled_presentations"),
        "rule": "all planar diagrams with <= 3 (thorough 4) crossings and all braid closures up to the stated lengths (distinct by construction); three independently computed quantities compared pairwise: library jones_polynomial, graded Euler characteristic of the library's bigraded Kh over Z, reference Kauffman state sum; plus invariance along every PD/braid move edge and q -> 1/q under Link::mirror()",
        "move_edges": run.get("move_edges"),
        "exhaustive": true,
    });
    run.finish(coverage, &["reference: vcore::reflink state sum (own union-find circle count)"]);
}
