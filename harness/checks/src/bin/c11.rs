//! C11 — parallel pivot search always returns an acyclic (triangular) pivot set.
//! inputs x configurations x SCHEDULES: for every small sparse matrix and every configuration the
//! real `find_pivots` / the real parallel phase runs under the controlled scheduler for every
//! schedule within the preemption bound (complete enumeration when unbounded is affordable).

use std::collections::BTreeSet;
use std::sync::Mutex;

use checks::bridge::Bridge;
use checks::sched::{self, Abort, Config};
use vcore::refmat::RMat;
use vcore::refnum::*;
use vcore::{catch, json, Run, Value};
use yui::poly::Poly;
use yui::{Ratio, Ring, RingOps, FF};
use yui_matrix::sparse::pivot::{find_pivots, perms_by_pivots, PivotCondition, PivotFinder, PivotType};
use yui_matrix::sparse::SpMat;
use yui_matrix::MatTrait;

#[derive(Clone, Copy, Debug, PartialEq)]
enum Cond {
    One,
    AnyUnit,
    Weight(u32),
}

impl Cond {
    fn lib(&self) -> PivotCondition {
        match self {
            Cond::One => PivotCondition::One,
            Cond::AnyUnit => PivotCondition::AnyUnit,
            Cond::Weight(w) => PivotCondition::Weight(*w as f64),
        }
    }
    fn name(&self) -> String {
        match self {
            Cond::One => "One".into(),
            Cond::AnyUnit => "AnyUnit".into(),
            Cond::Weight(w) => format!("Weight({w})"),
        }
    }
}

/// per-ring reference of "entry satisfies the pivot condition"
trait CondRef: RefRing {
    fn pm_one(&self) -> bool {
        self.is_one() || self.neg().is_one()
    }
    fn unit(&self) -> bool;
    /// reference of the library's "computational weight" of a unit
    fn weight(&self) -> f64;
    fn ok(&self, c: Cond) -> bool {
        match c {
            Cond::One => self.pm_one(),
            Cond::AnyUnit => self.unit(),
            Cond::Weight(w) => self.unit() && self.weight() <= w as f64,
        }
    }
}
impl CondRef for Z {
    fn unit(&self) -> bool {
        self.pm_one()
    }
    fn weight(&self) -> f64 {
        1.0
    }
}
impl CondRef for Q {
    fn unit(&self) -> bool {
        !self.is_zero()
    }
    fn weight(&self) -> f64 {
        use num_traits::{Signed, ToPrimitive};
        self.n.abs().to_f64().unwrap().max(self.d.to_f64().unwrap())
    }
}
impl CondRef for Fp<3> {
    fn unit(&self) -> bool {
        !self.is_zero()
    }
    fn weight(&self) -> f64 {
        1.0
    }
}
impl CondRef for UPoly<Q> {
    // used for Z[H]: units are +-1
    fn unit(&self) -> bool {
        self.pm_one()
    }
    fn weight(&self) -> f64 {
        1.0
    }
}

#[derive(Clone, Debug)]
enum Entry {
    /// the public `find_pivots`
    Public,
    /// hook H2: preset pivots (in the finder's coordinates), then only the parallel phase
    Phase(Vec<(usize, usize)>),
}

#[derive(Clone)]
struct Case<T: RefRing> {
    ring: &'static str,
    a: RMat<T>,
    codes: Vec<u8>,
    rows_type: bool,
    cond: Cond,
    entry: Entry,
    workers: usize,
    choose_items: bool,
    bound: Option<u32>,
    /// every hand-over (also at a task end) counts as a deviation (wide inputs)
    dev: bool,
}

impl<T: RefRing> Case<T> {
    fn key(&self) -> String {
        format!(
            "pivot:{}:{}x{}:{}:{}:{}:{}:W{}{}",
            self.ring,
            self.a.m,
            self.a.n,
            self.codes.iter().map(|c| (b'0' + c) as char).collect::<String>(),
            if self.rows_type { "Rows" } else { "Cols" },
            self.cond.name(),
            match &self.entry {
                Entry::Public => "public".to_string(),
                Entry::Phase(p) => format!("phase{:?}", p).replace(' ', ""),
            },
            self.workers,
            if self.choose_items { "i" } else if self.dev { "d" } else { "" }
        )
    }
}

fn to_spmat<R>(a: &RMat<R::Ref>) -> SpMat<R>
where
    R: Ring + Bridge + nalgebra::Scalar + nalgebra::ClosedAddAssign,
    for<'x> &'x R: RingOps<R>,
{
    let mut e = vec![];
    for i in 0..a.m {
        for j in 0..a.n {
            if !a.at(i, j).is_zero() {
                e.push((i, j, R::from_ref(a.at(i, j))));
            }
        }
    }
    SpMat::from_entries((a.m, a.n), e)
}

/// the property's oracle for one returned pivot list
fn judge<T: CondRef>(a: &RMat<T>, rows_type: bool, cond: Cond, pivs: &[(usize, usize)]) -> Result<(), String> {
    let mut rs = BTreeSet::new();
    let mut cs = BTreeSet::new();
    for &(i, j) in pivs {
        if i >= a.m || j >= a.n {
            return Err(format!("pivot ({i},{j}) out of range"));
        }
        if !rs.insert(i) {
            return Err(format!("row {i} used twice"));
        }
        if !cs.insert(j) {
            return Err(format!("column {j} used twice"));
        }
        if !a.at(i, j).ok(cond) {
            return Err(format!("pivot entry a[{i}][{j}]={} does not satisfy {}", a.at(i, j).show(), cond.name()));
        }
    }
    // after the permutations, position k holds row pivs[k].0 / column pivs[k].1
    for (k, &(ik, _)) in pivs.iter().enumerate() {
        for (l, &(_, jl)) in pivs.iter().enumerate() {
            let below = k > l;
            let above = k < l;
            if ((rows_type && below) || (!rows_type && above)) && !a.at(ik, jl).is_zero() {
                return Err(format!(
                    "leading block not {} triangular: entry at permuted position ({k},{l}) = a[{ik}][{jl}] = {}",
                    if rows_type { "upper" } else { "lower" },
                    a.at(ik, jl).show()
                ));
            }
        }
    }
    Ok(())
}

struct Totals {
    executions: u64,
    inputs: u64,
    nontrivial_inputs: u64,
    multi_outcome_inputs: u64,
    max_outcomes: usize,
    max_preemptions: u32,
    bound_cut_inputs: u64,
    points: u64,
    replays_checked: u64,
    retries_seen: u64,
}

fn run_case<R>(run: &Run, totals: &Mutex<Totals>, case: &Case<R::Ref>)
where
    R: Ring + Bridge + nalgebra::Scalar + nalgebra::ClosedAddAssign,
    for<'x> &'x R: RingOps<R>,
    R::Ref: CondRef,
{
    let a: SpMat<R> = to_spmat::<R>(&case.a);
    let t = if case.rows_type { PivotType::Rows } else { PivotType::Cols };
    let c = case.cond.lib();
    let body = || match &case.entry {
        Entry::Public => find_pivots(&a, t, c),
        Entry::Phase(pre) => {
            let mut pf = PivotFinder::new(&a, t, c);
            pf.verif_run_cycle_free(pre);
            pf.result()
        }
    };
    let cfg = Config { workers: case.workers, choose_items: case.choose_items, max_decisions: 4000, min_items: 2, count_task_switches: case.dev };
    let mut outcomes: BTreeSet<Vec<(usize, usize)>> = BTreeSet::new();
    let mut par_calls = 0usize;
    let mut retries = 0u64;
    let mut nexec = 0u64;
    let mut replays = 0u64;
    let key = case.key();
    let st = sched::explore(&cfg, case.bound, 2_000_000, body, |r, tr| {
        nexec += 1;
        par_calls = par_calls.max(tr.par_calls);
        let detail = |extra: Value| {
            json!({"ring": case.ring, "matrix": case.a.show(), "type": if case.rows_type {"Rows"} else {"Cols"},
                   "cond": case.cond.name(), "entry": format!("{:?}", case.entry), "workers": case.workers,
                   "choose_items": case.choose_items, "schedule": tr.choices(), "preemptions": tr.preemptions(),
                   "labels": tr.labels.iter().map(|(w, l, ln)| format!("w{w}:{l}@{ln}")).collect::<Vec<_>>(), "observed": extra})
        };
        if let Some(m) = &tr.diverged {
            eprintln!("MACHINERY ERROR: schedule replay diverged on {key}: {m}");
            std::process::exit(3);
        }
        match (&tr.abort, r) {
            (Some(ab), _) => {
                let what = match ab {
                    Abort::Panic(m) => format!("panicked under schedule: {m}"),
                    Abort::Deadlock(m) => format!("deadlock: {m}"),
                    Abort::Horizon => "does not terminate (decision horizon reached: livelock)".to_string(),
                    Abort::Diverged(_) => unreachable!(),
                };
                run.fail(&key, &what, detail(json!(null)));
                return false;
            }
            (None, Err(p)) => {
                let m = p.downcast_ref::<String>().cloned().or_else(|| p.downcast_ref::<&str>().map(|s| s.to_string())).unwrap_or_default();
                run.fail(&key, &format!("panicked after the parallel phase (result / top_sort): {m}"), detail(json!(null)));
                return false;
            }
            (None, Ok(pivs)) => {
                if let Err(why) = judge(&case.a, case.rows_type, case.cond, &pivs) {
                    run.fail(&key, &why, detail(json!(pivs)));
                    return false;
                }
                // retries = write points beyond one per committing/abandoning task
                retries += tr.labels.iter().filter(|(_, l, _)| *l == "rwlock.write").count() as u64;
                // determinism: replay a deterministic selection of schedules and compare
                if nexec % 97 == 1 {
                    let (r2, tr2) = sched::run_scheduled(&cfg, &tr.choices(), body);
                    replays += 1;
                    // (the order inside the list comes from a hash-seeded topological sort and may
                    //  legitimately differ between two runs; the pivot SET and the trace may not)
                    let set = |v: &Vec<(usize, usize)>| v.iter().copied().collect::<BTreeSet<_>>();
                    if r2.ok().as_ref().map(set) != Some(set(&pivs)) || tr2.choices() != tr.choices() {
                        eprintln!("MACHINERY ERROR: replay of {key} schedule {:?} is not deterministic", tr.choices());
                        std::process::exit(3);
                    }
                }
                let mut sorted = pivs;
                sorted.sort();
                outcomes.insert(sorted);
            }
        }
        true
    });
    let mut t = totals.lock().unwrap();
    t.executions += st.executions;
    t.inputs += 1;
    if par_calls > 0 {
        t.nontrivial_inputs += 1;
    }
    if outcomes.len() > 1 {
        t.multi_outcome_inputs += 1;
    }
    t.max_outcomes = t.max_outcomes.max(outcomes.len());
    t.max_preemptions = t.max_preemptions.max(st.max_preemptions);
    if st.bound_cut {
        t.bound_cut_inputs += 1;
    }
    if !st.complete && run.nviolations() == 0 {
        run.cap("per-input execution cap (2e6) hit");
    }
    t.points += st.points;
    t.replays_checked += replays;
    t.retries_seen += retries;
    if t.inputs % 2000 == 1 || case.dev {
        run.sample(json!({"key": key, "schedules": st.executions, "distinct_pivot_lists": outcomes.len(), "scheduled_parallel_calls_per_execution": par_calls}));
    }
    if outcomes.len() > 2 {
        run.sample(json!({"key": key, "schedules": st.executions, "distinct_pivot_lists": outcomes.iter().collect::<Vec<_>>()}));
    }
}

/// once per (matrix, configuration), sequentially: the library's own perms + permute agree with
/// the index computation used by `judge`
fn check_perm_route<R>(run: &Run, case: &Case<R::Ref>)
where
    R: Ring + Bridge + nalgebra::Scalar + nalgebra::ClosedAddAssign,
    for<'x> &'x R: RingOps<R>,
    R::Ref: CondRef,
{
    let a: SpMat<R> = to_spmat::<R>(&case.a);
    let t = if case.rows_type { PivotType::Rows } else { PivotType::Cols };
    let key = format!("{}:permroute", case.key());
    match catch(|| {
        let pivs = find_pivots(&a, t, case.cond.lib());
        let (p, q) = perms_by_pivots(&a, &pivs);
        let b = a.permute(p.view(), q.view());
        (pivs, b)
    }) {
        Ok((pivs, b)) => {
            let r = pivs.len();
            let mut dense = RMat::<R::Ref>::zero(b.nrows(), b.ncols());
            for (i, j, x) in b.iter() {
                dense.set(i, j, dense.at(i, j).add(&x.to_ref()));
            }
            for k in 0..r {
                for l in 0..r {
                    let want_zero = if case.rows_type { k > l } else { k < l };
                    if want_zero && !dense.at(k, l).is_zero() {
                        run.fail(&key, &format!("permuted matrix not triangular at ({k},{l})"), json!({"matrix": case.a.show(), "pivots": pivs}));
                        return;
                    }
                }
                if *dense.at(k, k) != *case.a.at(pivs[k].0, pivs[k].1) || !dense.at(k, k).ok(case.cond) {
                    run.fail(&key, &format!("diagonal entry {k} of the permuted matrix is not the pivot"), json!({"matrix": case.a.show(), "pivots": pivs}));
                    return;
                }
            }
        }
        Err(p) => run.fail(&key, &format!("sequential run panicked: {p}"), json!({"matrix": case.a.show()})),
    }
}

fn all_matrices<T: RefRing>(m: usize, n: usize, alphabet: &[T]) -> impl Iterator<Item = (RMat<T>, Vec<u8>)> + '_ {
    let k = alphabet.len();
    let total = k.pow((m * n) as u32);
    (1..total).map(move |idx| {
        let mut codes = Vec::with_capacity(m * n);
        let mut x = idx;
        for _ in 0..m * n {
            codes.push((x % k) as u8);
            x /= k;
        }
        let a = RMat::from_fn(m, n, |i, j| alphabet[codes[i * n + j] as usize].clone());
        (a, codes)
    })
}

/// valid preset pivot sets of size 1 and 2 in the finder's coordinates (transposed for Cols)
fn presets<T: CondRef>(a: &RMat<T>, rows_type: bool, cond: Cond, max: usize) -> Vec<Vec<(usize, usize)>> {
    let b = if rows_type { a.clone() } else { a.transpose() };
    let cands: Vec<(usize, usize)> = (0..b.m).flat_map(|i| (0..b.n).map(move |j| (i, j))).filter(|&(i, j)| b.at(i, j).ok(cond)).collect();
    let mut out = vec![];
    for (x, &p) in cands.iter().enumerate() {
        out.push(vec![p]);
        if max >= 2 {
            for &q in &cands[x + 1..] {
                if p.0 != q.0 && p.1 != q.1 && (b.at(p.0, q.1).is_zero() || b.at(q.0, p.1).is_zero()) {
                    out.push(vec![p, q]);
                }
            }
        }
    }
    out
}

#[allow(clippy::too_many_arguments)]
fn sweep<R>(
    run: &Run,
    totals: &Mutex<Totals>,
    ring: &'static str,
    alphabet: &[R::Ref],
    shapes: &[(usize, usize)],
    configs: &[(bool, Cond)],
    entries: &[&str],
    workers: usize,
    choose_items: bool,
    bound: Option<u32>,
) where
    R: Ring + Bridge + nalgebra::Scalar + nalgebra::ClosedAddAssign,
    for<'x> &'x R: RingOps<R>,
    R::Ref: CondRef,
{
    for &(m, n) in shapes {
        let mats: Vec<(RMat<R::Ref>, Vec<u8>)> = all_matrices(m, n, alphabet).collect();
        run.par_for(mats.len(), |i| {
            if run.over_budget() {
                run.cap("wall budget reached before all inputs were explored");
                return;
            }
            let (a, codes) = &mats[i];
            for &(rows_type, cond) in configs {
                let mk = |entry: Entry| Case { ring, a: a.clone(), codes: codes.clone(), rows_type, cond, entry, workers, choose_items, bound, dev: false };
                for e in entries {
                    match *e {
                        "public" => {
                            let c = mk(Entry::Public);
                            check_perm_route::<R>(run, &c);
                            run_case::<R>(run, totals, &c);
                        }
                        "phase0" => run_case::<R>(run, totals, &mk(Entry::Phase(vec![]))),
                        "phase1" => {
                            for p in presets(a, rows_type, cond, 1) {
                                run_case::<R>(run, totals, &mk(Entry::Phase(p)));
                            }
                        }
                        "phase2" => {
                            for p in presets(a, rows_type, cond, 2).into_iter().filter(|p| p.len() == 2) {
                                run_case::<R>(run, totals, &mk(Entry::Phase(p)));
                            }
                        }
                        _ => unreachable!(),
                    }
                }
            }
        });
    }
}

/// `--replay <artefact>`: re-executes exactly the recorded schedule of the recorded input (twice:
/// the two executions must agree), without any exploration.  exit 1 = the violation reproduces.
fn replay(path: &str) -> ! {
    let v: Value = serde_json::from_str(&std::fs::read_to_string(path).expect("read artefact")).expect("parse artefact");
    let key = v["key"].as_str().expect("key").to_string();
    let f: Vec<&str> = key.split(':').collect();
    // pivot:<ring>:<m>x<n>:<codes>:<Rows|Cols>:<cond>:<entry>:W<w>[i]
    let (ring, shape, codes, ty, cond, entry, w) = (f[1], f[2], f[3], f[4], f[5], f[6], f[7]);
    let (m, n) = { let mut it = shape.split('x').map(|x| x.parse::<usize>().unwrap()); (it.next().unwrap(), it.next().unwrap()) };
    let codes: Vec<u8> = codes.bytes().map(|b| b - b'0').collect();
    let cond = match cond { "One" => Cond::One, "AnyUnit" => Cond::AnyUnit, c => Cond::Weight(c.trim_start_matches("Weight(").trim_end_matches(')').parse().unwrap()) };
    let entry = if entry == "public" { Entry::Public } else {
        let nums: Vec<usize> = entry.trim_start_matches("phase").split(|c: char| !c.is_ascii_digit()).filter(|x| !x.is_empty()).map(|x| x.parse().unwrap()).collect();
        Entry::Phase(nums.chunks(2).map(|c| (c[0], c[1])).collect())
    };
    let choose_items = w.ends_with('i');
    let dev = w.ends_with('d');
    let workers: usize = w.trim_start_matches('W').trim_end_matches('i').trim_end_matches('d').parse().unwrap();
    let schedule: Vec<u32> = v["detail"]["schedule"].as_array().map(|a| a.iter().map(|x| x.as_u64().unwrap() as u32).collect()).unwrap_or_default();
    fn go<R>(ring: &'static str, al: &[R::Ref], m: usize, n: usize, codes: &[u8], rows_type: bool, cond: Cond, entry: Entry, workers: usize, choose_items: bool, dev: bool, schedule: &[u32]) -> bool
    where
        R: Ring + Bridge + nalgebra::Scalar + nalgebra::ClosedAddAssign,
        for<'x> &'x R: RingOps<R>,
        R::Ref: CondRef,
    {
        let ar = RMat::from_fn(m, n, |i, j| al[codes[i * n + j] as usize].clone());
        let a: SpMat<R> = to_spmat::<R>(&ar);
        let t = if rows_type { PivotType::Rows } else { PivotType::Cols };
        let body = || match &entry {
            Entry::Public => find_pivots(&a, t, cond.lib()),
            Entry::Phase(pre) => {
                let mut pf = PivotFinder::new(&a, t, cond.lib());
                pf.verif_run_cycle_free(pre);
                pf.result()
            }
        };
        let cfg = Config { workers, choose_items, max_decisions: 4000, min_items: 2, count_task_switches: dev };
        let mut verdicts = vec![];
        for round in 0..2 {
            let (r, tr) = sched::run_scheduled(&cfg, schedule, body);
            let verdict = match (&tr.abort, r) {
                (Some(ab), _) => format!("VIOLATION: {ab:?}"),
                (None, Err(p)) => format!("VIOLATION: panicked after the parallel phase: {}", p.downcast_ref::<String>().cloned().unwrap_or_default()),
                (None, Ok(pivs)) => match judge(&ar, rows_type, cond, &pivs) {
                    Ok(()) => format!("ok: pivots {pivs:?}"),
                    Err(e) => format!("VIOLATION: {e} (pivots {pivs:?})"),
                },
            };
            println!("replay {ring} {} run {round}: choices {:?} -> {verdict}", ar.show(), tr.choices());
            println!("   lock points: {:?}", tr.labels.iter().map(|(w, l, ln)| format!("w{w}:{l}@{ln}")).collect::<Vec<_>>());
            verdicts.push(verdict.starts_with("VIOLATION"));
        }
        if verdicts[0] != verdicts[1] {
            eprintln!("MACHINERY ERROR: the two replays of one schedule disagree");
            std::process::exit(3);
        }
        verdicts[0]
    }
    let rows = ty == "Rows";
    let bad = match ring {
        "Z" => go::<i64>("Z", &[z(0), z(1), z(2)], m, n, &codes, rows, cond, entry, workers, choose_items, dev, &schedule),
        "Q" => go::<Ratio<i64>>("Q", &[Q::int(0), Q::int(1), Q::int(2), Q::new(z(1), z(2))], m, n, &codes, rows, cond, entry, workers, choose_items, dev, &schedule),
        "F3" => go::<FF<3>>("F3", &Fp::<3>::all(), m, n, &codes, rows, cond, entry, workers, choose_items, dev, &schedule),
        "Z[H]" => go::<Poly<'H', i64>>("Z[H]", &[UPoly::<Q>::zero(), UPoly::<Q>::one(), UPoly::new(vec![Q::int(0), Q::int(1)])], m, n, &codes, rows, cond, entry, workers, choose_items, dev, &schedule),
        other => panic!("unknown ring {other}"),
    };
    println!("REPLAY property=C11 key={key} reproduced={bad}");
    std::process::exit(if bad { 1 } else { 0 })
}

/// Wide inputs: 17 copies of the gadget rows A = [2,1], B = [1,2] on disjoint column pairs (A and B
/// are each fine alone and cyclic together), 34 rows in the parallel phase.  A change that forks the
/// row loop only above a size threshold (rayon's `with_min_len`, chunking) is invisible on the
/// <= 4-row inputs; here the A rows and the B rows fall into different halves ("ab") or alternate
/// ("interleaved").  Every hand-over is a deviation; bound 1 (thorough 2).
fn wide_part(run: &Run, totals: &Mutex<Totals>) {
    let th = run.thorough();
    let k = 17usize;
    let mut cases: Vec<Case<Z>> = vec![];
    for layout in ["ab", "interleaved"] {
        let row_of = |g: usize, b: bool| if layout == "ab" { if b { k + g } else { g } } else { 2 * g + b as usize };
        let mut a = RMat::<Z>::zero(2 * k, 2 * k);
        for g in 0..k {
            a.set(row_of(g, false), 2 * g, z(2));
            a.set(row_of(g, false), 2 * g + 1, z(1));
            a.set(row_of(g, true), 2 * g, z(1));
            a.set(row_of(g, true), 2 * g + 1, z(2));
        }
        let codes: Vec<u8> = a.e.iter().map(|x| if x.is_zero() { 0 } else if *x == z(1) { 1 } else { 2 }).collect();
        for (rows_type, m) in [(true, a.clone()), (false, a.transpose())] {
            let codes = if rows_type { codes.clone() } else { m.e.iter().map(|x| if x.is_zero() { 0 } else if *x == z(1) { 1 } else { 2 }).collect() };
            for entry in [Entry::Phase(vec![]), Entry::Public] {
                cases.push(Case { ring: "Z", a: m.clone(), codes: codes.clone(), rows_type, cond: Cond::One, entry, workers: 2, choose_items: false, bound: Some(if th { 2 } else { 1 }), dev: true });
            }
        }
    }
    // one gadget + 40 rows with a single unit entry on private columns: every one of the 40 commits, so a
    // worker that is held back sees its snapshot overtaken by up to 41 commits (a catch-up shortcut
    // that only triggers beyond some number of missed commits is invisible on the inputs above,
    // where at most 17 rows commit; seed `C11-catch-up-without-diff`)
    // The finder orders the rows of the phase by weight (sum of entry weights), lighter first.  Row A
    // ([2,1] on the gadget columns) is the lightest, every other row is 1,2,2 on three private columns
    // (it always commits its unit), and B is [1,2] on the gadget columns padded with 0, 1 or 2 extra
    // private 2s, which puts it second, in the middle (by index) or last.
    for (bextra, bpos) in [(0usize, 1usize), (1, 20), (2, 41)] {
        let nrows = 42usize;
        let ncols = 2 + 3 * 40 + 2;
        let mut a = RMat::<Z>::zero(nrows, ncols);
        let mut col = 2usize;
        for r in 0..nrows {
            if r == 0 {
                a.set(r, 0, z(2));
                a.set(r, 1, z(1));
            } else if r == bpos {
                a.set(r, 0, z(1));
                a.set(r, 1, z(2));
                for x in 0..bextra {
                    a.set(r, ncols - 1 - x, z(2));
                }
            } else {
                a.set(r, col, z(1));
                a.set(r, col + 1, z(2));
                a.set(r, col + 2, z(2));
                col += 3;
            }
        }
        for (rows_type, m) in [(true, a.clone()), (false, a.transpose())] {
            let codes: Vec<u8> = m.e.iter().map(|x| if x.is_zero() { 0 } else if *x == z(1) { 1 } else { 2 }).collect();
            cases.push(Case { ring: "Z", a: m.clone(), codes, rows_type, cond: Cond::One, entry: Entry::Phase(vec![]), workers: 2, choose_items: false, bound: Some(if th { 2 } else { 1 }), dev: true });
        }
    }
    run.par_for(cases.len(), |i| {
        run.add("wide_inputs", 1);
        run_case::<i64>(run, totals, &cases[i]);
    });
}

/// The progress-report path.  `find_cycle_free_pivots_m` reports every 10 000th row when the matrix
/// has more than 10 000 rows and the `log` level is at least Debug - a configuration no small input
/// reaches.  Input: 9 999 rows with one unit entry on a private column (they sort first and always
/// commit), then the gadget rows A = [2,1], B = [1,2]; A is the 10 000th task, i.e. the reporting
/// one.  An execution has ~30 000 decisions, so the deviations are explored only in a window: all
/// schedules with at most 1 deviation (thorough 2) among the last `WINDOW` decisions of the default
/// execution (the tasks of A and B and the last unit rows); the prefix is the default schedule.
/// The oracle is the property's, evaluated sparsely.
const REPORT_ROWS: usize = 10_001;
const WINDOW: usize = 48;

fn report_path_entries(rows_type: bool) -> Vec<(usize, usize, i64)> {
    let n = REPORT_ROWS;
    let mut e: Vec<(usize, usize, i64)> = vec![];
    for k in 0..n - 2 {
        e.push((k, k + 2, 1));
    }
    e.extend([(n - 2, 0, 2), (n - 2, 1, 1), (n - 1, 0, 1), (n - 1, 1, 2)]);
    if rows_type { e } else { e.into_iter().map(|(i, j, v)| (j, i, v)).collect() }
}

fn report_path_judge(entries: &[(usize, usize, i64)], rows_type: bool, pivs: &[(usize, usize)]) -> Result<(), String> {
    use std::collections::HashMap;
    let val: HashMap<(usize, usize), i64> = entries.iter().map(|&(i, j, v)| ((i, j), v)).collect();
    let mut rpos: HashMap<usize, usize> = HashMap::new();
    let mut cpos: HashMap<usize, usize> = HashMap::new();
    for (k, &(i, j)) in pivs.iter().enumerate() {
        if rpos.insert(i, k).is_some() {
            return Err(format!("row {i} used twice"));
        }
        if cpos.insert(j, k).is_some() {
            return Err(format!("column {j} used twice"));
        }
        match val.get(&(i, j)) {
            Some(1) | Some(-1) => {}
            other => return Err(format!("pivot entry a[{i}][{j}] = {other:?} is not +-1")),
        }
    }
    for &(i, j, _) in entries {
        if let (Some(&k), Some(&l)) = (rpos.get(&i), cpos.get(&j)) {
            if (rows_type && k > l) || (!rows_type && k < l) {
                return Err(format!("leading block not triangular: non-zero entry a[{i}][{j}] at permuted position ({k},{l})"));
            }
        }
    }
    Ok(())
}

fn report_path_body(a: &SpMat<i64>, rows_type: bool) -> Vec<(usize, usize)> {
    let mut pf = PivotFinder::new(a, if rows_type { PivotType::Rows } else { PivotType::Cols }, PivotCondition::One);
    pf.verif_run_cycle_free(&[]);
    pf.result()
}

fn report_path_part(run: &Run, totals: &Mutex<Totals>) -> Value {
    let th = run.thorough();
    log::set_max_level(log::LevelFilter::Debug);
    let out = Mutex::new(vec![]);
    run.par_for(2, |k| {
        let rows_type = k == 0;
        let entries = report_path_entries(rows_type);
        let a: SpMat<i64> = SpMat::from_entries((REPORT_ROWS, REPORT_ROWS), entries.clone());
        let key = format!("pivot:Z:report-path:{}:One:phase[]:W2d", if rows_type { "Rows" } else { "Cols" });
        let cfg = Config { workers: 2, choose_items: false, max_decisions: 1_000_000, min_items: 2, count_task_switches: true };
        let (r0, tr0) = sched::run_scheduled(&cfg, &[], || report_path_body(&a, rows_type));
        let n0 = tr0.decisions.len();
        if tr0.abort.is_some() || r0.is_err() || tr0.par_calls == 0 {
            run.fail(&key, &format!("default execution failed: abort={:?} par_calls={}", tr0.abort, tr0.par_calls), json!({"rows": REPORT_ROWS}));
            return;
        }
        let from = n0.saturating_sub(WINDOW);
        let mut outcomes: BTreeSet<usize> = BTreeSet::new();
        let st = sched::explore_from(&cfg, Some(if th { 2 } else { 1 }), 100_000, from, || report_path_body(&a, rows_type), |r, tr| {
            if let Some(m) = &tr.diverged {
                eprintln!("MACHINERY ERROR: schedule replay diverged on {key}: {m}");
                std::process::exit(3);
            }
            let detail = || json!({"input": "9 999 unit rows on private columns, then A = [2,1], B = [1,2] on columns 0, 1", "rows": REPORT_ROWS, "type": if rows_type {"Rows"} else {"Cols"},
                                   "log_level": "Debug", "deviations_from_decision": from, "schedule_tail": tr.choices()[from.min(tr.decisions.len())..].to_vec(), "schedule_length": tr.decisions.len()});
            match (&tr.abort, r) {
                (Some(ab), _) => {
                    run.fail(&key, &format!("aborted under schedule: {ab:?}"), detail());
                    false
                }
                (None, Err(p)) => {
                    let m = p.downcast_ref::<String>().cloned().or_else(|| p.downcast_ref::<&str>().map(|s| s.to_string())).unwrap_or_default();
                    run.fail(&key, &format!("panicked after the parallel phase (result / top_sort): {m}"), detail());
                    false
                }
                (None, Ok(pivs)) => match report_path_judge(&entries, rows_type, &pivs) {
                    Ok(()) => {
                        outcomes.insert(pivs.len());
                        true
                    }
                    Err(why) => {
                        run.fail(&key, &why, detail());
                        false
                    }
                },
            }
        });
        let mut t = totals.lock().unwrap();
        t.executions += st.executions;
        t.points += st.points;
        t.inputs += 1;
        t.nontrivial_inputs += 1;
        out.lock().unwrap().push(json!({"type": if rows_type {"Rows"} else {"Cols"}, "rows": REPORT_ROWS, "decisions_in_default_execution": n0, "deviation_window": format!("last {WINDOW} decisions"),
                                        "executions": st.executions, "complete_within_window": st.complete, "distinct_pivot_counts": outcomes}));
    });
    log::set_max_level(log::LevelFilter::Off);
    json!({"rule": "more than 10 000 rows and log level Debug: the reporting path of find_cycle_free_pivots_m; deviations only inside a window at the end of the default schedule", "cases": out.into_inner().unwrap()})
}

fn main() {
    let run = Run::new("C11", "model_checking");
    sched::install_hook();
    if let Some(p) = run.replay.clone() {
        replay(&p);
    }
    let th = run.thorough();
    let totals = Mutex::new(Totals {
        executions: 0,
        inputs: 0,
        nontrivial_inputs: 0,
        multi_outcome_inputs: 0,
        max_outcomes: 0,
        max_preemptions: 0,
        bound_cut_inputs: 0,
        points: 0,
        replays_checked: 0,
        retries_seen: 0,
    });
    let zal = [z(0), z(1), z(2)];
    let qal = [Q::int(0), Q::int(1), Q::int(2), Q::new(z(1), z(2))];
    let fal = Fp::<3>::all();
    let hal = [UPoly::<Q>::zero(), UPoly::<Q>::one(), UPoly::new(vec![Q::int(0), Q::int(1)])];
    let rc = |r: bool, c: Cond| (r, c);
    let all_cfg = [
        rc(true, Cond::One),
        rc(false, Cond::One),
        rc(true, Cond::AnyUnit),
        rc(false, Cond::AnyUnit),
        rc(true, Cond::Weight(1)),
        rc(false, Cond::Weight(3)),
    ];
    let two_cfg = [rc(true, Cond::One), rc(false, Cond::AnyUnit)];

    // ---- Z --------------------------------------------------------------------------------------
    // the contended core: parallel phase from the empty table, every row a task
    sweep::<i64>(&run, &totals, "Z", &zal, &[(2, 2), (2, 3), (3, 2), (3, 3)], &[rc(true, Cond::One)], &["phase0"], 2, false, Some(2));
    sweep::<i64>(&run, &totals, "Z", &zal, &[(2, 2), (2, 3), (3, 2)], &all_cfg, &["public", "phase0", "phase1"], 2, true, None);
    sweep::<i64>(&run, &totals, "Z", &zal, &[(3, 3)], &two_cfg, &["public"], 2, false, Some(2));
    // 3 workers, all 0/1 matrices
    sweep::<i64>(&run, &totals, "Z", &zal[..2], &[(3, 3)], &[rc(true, Cond::One), rc(false, Cond::One)], &["phase0"], 3, false, Some(2));
    // non-initial shared tables
    sweep::<i64>(&run, &totals, "Z", &zal[..2], &[(3, 3)], &[rc(true, Cond::One)], &["phase1"], 2, false, Some(1));
    // ---- other rings ------------------------------------------------------------------------------
    sweep::<Ratio<i64>>(&run, &totals, "Q", &qal, &[(2, 2), (2, 3), (3, 2)], &all_cfg, &["public", "phase0"], 2, false, Some(2));
    sweep::<FF<3>>(&run, &totals, "F3", &fal, &[(2, 2), (2, 3), (3, 2)], &two_cfg, &["public", "phase0"], 2, false, Some(2));
    sweep::<Poly<'H', i64>>(&run, &totals, "Z[H]", &hal, &[(2, 2), (2, 3), (3, 2)], &two_cfg, &["public", "phase0"], 2, false, Some(2));

    // ---- wide inputs (34 rows in the parallel phase) --------------------------------------------------
    wide_part(&run, &totals);
    let report_path = report_path_part(&run, &totals);

    if th {
        sweep::<i64>(&run, &totals, "Z", &zal, &[(3, 3)], &all_cfg, &["public", "phase0"], 2, true, Some(3));
        sweep::<i64>(&run, &totals, "Z", &zal, &[(3, 3)], &two_cfg, &["phase1"], 2, false, Some(2));
        sweep::<i64>(&run, &totals, "Z", &zal[..2], &[(3, 3)], &two_cfg, &["phase2"], 2, false, Some(2));
        sweep::<i64>(&run, &totals, "Z", &zal[..2], &[(4, 3), (3, 4), (4, 4)], &two_cfg, &["phase0"], 2, false, Some(2));
        sweep::<i64>(&run, &totals, "Z", &zal[..2], &[(4, 3), (4, 4)], &[rc(true, Cond::One)], &["phase0"], 3, false, Some(2));
        sweep::<i64>(&run, &totals, "Z", &zal[..2], &[(4, 4)], &[rc(true, Cond::One)], &["phase0"], 4, false, Some(1));
        sweep::<i64>(&run, &totals, "Z", &zal, &[(3, 4), (4, 3)], &[rc(true, Cond::One)], &["phase0"], 2, false, Some(2));
        sweep::<i64>(&run, &totals, "Z", &zal[..2], &[(5, 3), (3, 5)], &two_cfg, &["phase0", "public"], 2, false, Some(2));
        sweep::<Ratio<i64>>(&run, &totals, "Q", &qal, &[(3, 3)], &two_cfg, &["phase0"], 2, false, Some(2));
        sweep::<FF<3>>(&run, &totals, "F3", &fal, &[(3, 3)], &all_cfg, &["phase0", "public"], 2, false, Some(2));
        sweep::<Poly<'H', i64>>(&run, &totals, "Z[H]", &hal, &[(3, 3)], &all_cfg, &["phase0", "public"], 2, false, Some(2));
    }

    let t = totals.into_inner().unwrap();
    if t.multi_outcome_inputs == 0 && run.nviolations() == 0 {
        eprintln!("MACHINERY ERROR: no input produced more than one pivot list across its schedules (vacuous exploration)");
        std::process::exit(3);
    }
    let coverage = json!({
        "states": t.points + t.executions,
        "transitions": t.points + t.executions,
        "traces_validated_against_impl": t.executions,
        "evaluations": t.executions,
        "distinct_nontrivial": t.nontrivial_inputs,
        "rule": "input = (ring, matrix, pivot type, condition, entry point, workers); non-trivial = at least 2 tasks reached the parallel phase so that a scheduled parallel call happened; every execution is one complete run of the real code under one schedule",
        "inputs": t.inputs,
        "schedules_total": t.executions,
        "inputs_with_more_than_one_distinct_pivot_list": t.multi_outcome_inputs,
        "max_distinct_pivot_lists_per_input": t.max_outcomes,
        "max_preemptions_in_one_schedule": t.max_preemptions,
        "inputs_where_preemption_bound_cut_alternatives": t.bound_cut_inputs,
        "write_lock_points_passed": t.retries_seen,
        "scheduling_points_passed": t.points,
        "replayed_twice_for_determinism": t.replays_checked,
        "report_path": report_path,
        "wide_inputs": {"count": run.get("wide_inputs"), "rule": "17 gadgets [2,1]/[1,2] on disjoint column pairs, 34x34, layouts 'A rows then B rows' and 'interleaved', Rows and Cols, phase-only and public entry, W = 2, every hand-over a deviation, bound 1 (thorough 2); plus 42x124 inputs with one gadget and 40 rows that always commit (B second, in the middle or last in the finder's weight order)"},
        "bounds": {"workers": "2 (3 on 0/1 3x3; thorough: 3 and 4 on 4x3/4x4)", "preemption_bound": "2 (unbounded = complete for shapes <= 2x3/3x2; thorough 3 on 3x3)",
                   "note": "a schedule is the vector of worker (and item) choices at task start, before every acquisition of the shared RwLock (read and write), and at task end"},
        "exhaustive": true,
    });
    run.finish(
        coverage,
        &[
            "all shared mutable state of the kernel is behind std RwLock or thread-local (no unsafe, no atomics), so points before lock acquisitions + task boundaries generate every distinguishable interleaving",
            "explored executor is a superset of rayon (any assignment of tasks to <= W threads); W <= 3 (4 in thorough with bound 1) against the property's 1..16",
            "rayon is replaced by /verif/harness/shim-rayon in the checked build; hooks H1/H2 (cfg yui_verif) provide the scheduling points and the phase-only entry",
        ],
    );
}
