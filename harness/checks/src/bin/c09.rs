//! C09 — Smith normal form: D = P·A·Q, diagonal divisibility chain, true inverses.
//! Bounded exhaustive: all matrices of small shapes over per-ring alphabets x all 16 flag subsets.

use checks::bridge::Bridge;
use checks::matconv::{from_mat, matrix_at, matrix_count, to_mat};
use num_bigint::BigInt;
use vcore::refmat::{same_factors, RMat};
use vcore::refnum::*;
use vcore::{catch, json, Run};
use yui::poly::Poly;
use yui::{EisenInt, EucRing, EucRingOps, GaussInt, Ratio, FF, FF2};
use yui_matrix::dense::snf::snf;

fn pow2(k: u32) -> Z {
    BigInt::from(1) << k
}
fn pow10(k: u32) -> Z {
    num_traits::pow(BigInt::from(10), k as usize)
}

fn check_one<R>(run: &Run, ring: &'static str, a: &RMat<R::Ref>, code: &str, flagsets: &[[bool; 4]])
where
    R: EucRing + Bridge + nalgebra::Scalar + nalgebra::ClosedAddAssign,
    for<'x> &'x R: EucRingOps<R>,
    R::Ref: RefEuclid,
{
    let m = to_mat::<R>(a);
    let expect = a.invariant_factors();
    for flags in flagsets {
        let f = |b: bool| if b { '1' } else { '0' };
        let key = format!("snf:{ring}:{}x{}:{code}:flags={}{}{}{}", a.m, a.n, f(flags[0]), f(flags[1]), f(flags[2]), f(flags[3]));
        run.add("evaluations", 1);
        let detail = || json!({"ring": ring, "matrix": a.show(), "flags": flags});
        let res = match catch(|| snf(&m, *flags)) {
            Ok(r) => r,
            Err(p) => {
                run.fail(&key, &format!("panicked: {p}"), detail());
                continue;
            }
        };
        let d = from_mat(res.result());
        let mut bad: Option<String> = None;
        let mut fail = |s: String| {
            if bad.is_none() {
                bad = Some(s)
            }
        };
        if (d.m, d.n) != (a.m, a.n) {
            fail(format!("result has shape {}x{}", d.m, d.n));
        } else {
            // diagonal, non-zero first
            let r = a.m.min(a.n);
            for i in 0..d.m {
                for j in 0..d.n {
                    if i != j && !d.at(i, j).is_zero() {
                        fail(format!("off-diagonal entry at ({i},{j}): {}", d.show()));
                    }
                }
            }
            let diag: Vec<R::Ref> = (0..r).map(|i| d.at(i, i).clone()).collect();
            let nz: Vec<R::Ref> = diag.iter().filter(|x| !x.is_zero()).cloned().collect();
            if diag.iter().take(nz.len()).any(|x| x.is_zero()) {
                fail(format!("zero diagonal entry before a non-zero one: {:?}", diag));
            }
            for w in nz.windows(2) {
                if !w[0].divides(&w[1]) {
                    fail(format!("divisibility chain broken: {} does not divide {}", w[0].show(), w[1].show()));
                }
            }
            if !same_factors(&nz, &expect) {
                fail(format!(
                    "diagonal {:?} differs (up to units) from the invariant factors {:?}",
                    nz.iter().map(|x| x.show()).collect::<Vec<_>>(),
                    expect.iter().map(|x| x.show()).collect::<Vec<_>>()
                ));
            }
            // normalised (library's own normalisation, validated separately in C15)
            for i in 0..nz.len() {
                let x = &res.result()[(i, i)];
                if x.normalized() != *x {
                    fail(format!("diagonal entry {} is not normalised", nz[i].show()));
                }
            }
            if res.rank() != nz.len() || res.factors().len() != nz.len() {
                fail(format!("rank()={} factors().len()={} but {} non-zero diagonal entries", res.rank(), res.factors().len(), nz.len()));
            }
        }
        // transforms
        let [p, pinv, q, qinv] = res.trans();
        let (p, pinv, q, qinv) = (p.map(from_mat), pinv.map(from_mat), q.map(from_mat), qinv.map(from_mat));
        if p.is_some() != flags[0] || pinv.is_some() != flags[1] || q.is_some() != flags[2] || qinv.is_some() != flags[3] {
            fail("returned transforms do not match the requested flags".into());
        }
        if let (Some(p), Some(pi)) = (&p, &pinv) {
            if !p.mul(pi).is_id() || !pi.mul(p).is_id() {
                fail(format!("P*Pinv != I: P={} Pinv={}", p.show(), pi.show()));
            }
        }
        if let (Some(q), Some(qi)) = (&q, &qinv) {
            if !q.mul(qi).is_id() || !qi.mul(q).is_id() {
                fail(format!("Q*Qinv != I: Q={} Qinv={}", q.show(), qi.show()));
            }
        }
        if (d.m, d.n) == (a.m, a.n) {
            match (&p, &pinv, &q, &qinv) {
                (Some(p), _, Some(q), _) => {
                    if p.mul(a).mul(q) != d {
                        fail(format!("D != P*A*Q: P={} Q={} D={}", p.show(), q.show(), d.show()));
                    }
                }
                (Some(p), _, None, Some(qi)) => {
                    if p.mul(a) != d.mul(qi) {
                        fail("P*A != D*Qinv".into());
                    }
                }
                (None, Some(pi), Some(q), _) => {
                    if a.mul(q) != pi.mul(&d) {
                        fail("A*Q != Pinv*D".into());
                    }
                }
                (None, Some(pi), None, Some(qi)) => {
                    if *a != pi.mul(&d).mul(qi) {
                        fail("A != Pinv*D*Qinv".into());
                    }
                }
                _ => {}
            }
        }
        // a lone transform must at least be unimodular
        for (name, t) in [("P", &p), ("Pinv", &pinv), ("Q", &q), ("Qinv", &qinv)] {
            if let Some(t) = t {
                if t.m != t.n || (t.m <= 4 && !t.det().is_unit()) {
                    fail(format!("{name} is not unimodular: {}", t.show()));
                }
            }
        }
        if let Some(b) = bad {
            run.fail(&key, &b, detail());
        }
    }
}

fn all_flags() -> Vec<[bool; 4]> {
    (0..16u8).map(|k| [k & 1 != 0, k & 2 != 0, k & 4 != 0, k & 8 != 0]).collect()
}

fn sweep<R>(run: &Run, ring: &'static str, alphabet: &[R::Ref], shapes: &[(usize, usize)], flagsets: &[[bool; 4]])
where
    R: EucRing + Bridge + nalgebra::Scalar + nalgebra::ClosedAddAssign,
    for<'x> &'x R: EucRingOps<R>,
    R::Ref: RefEuclid,
{
    for &(m, n) in shapes {
        let total = matrix_count(m, n, alphabet.len());
        run.add("inputs", total as u64);
        run.par_for(total, |i| {
            if run.over_budget() {
                run.cap("wall budget reached before all inputs were explored");
                return;
            }
            let (a, code) = &matrix_at(m, n, alphabet, i);
            if !a.is_zero() {
                run.add("nonzero_inputs", 1);
            }
            check_one::<R>(run, ring, a, code, flagsets);
        });
    }
    run.sample(json!({"ring": ring, "alphabet": alphabet.iter().map(|x| x.show()).collect::<Vec<_>>(), "shapes": shapes, "flag_subsets": flagsets.len()}));
}

fn main() {
    let run = Run::new("C09", "exploration");
    let th = run.thorough();
    let flags = all_flags();
    let two_flags = [[true; 4], [false; 4]];
    let small: Vec<(usize, usize)> = vec![(0, 0), (0, 2), (2, 0), (1, 1), (1, 2), (2, 1), (1, 3), (3, 1), (2, 2)];

    // ---- integers ---------------------------------------------------------------------------------
    let z7: Vec<Z> = (-3..=3).map(z).collect();
    let z4: Vec<Z> = [0, 1, -1, 2].map(z).to_vec();
    let z3: Vec<Z> = [0, 1, 2].map(z).to_vec();
    sweep::<i64>(&run, "i64", &z7, &small, &flags);
    sweep::<i128>(&run, "i128", &z7, &[(1, 2), (2, 2)], &flags);
    sweep::<BigInt>(&run, "BigInt", &z7, &[(2, 1), (2, 2)], &flags);
    sweep::<i64>(&run, "i64", &z4, &[(2, 3), (3, 2)], &flags);
    sweep::<i64>(&run, "i64", &z3, &[(3, 3)], &flags);
    sweep::<i64>(&run, "i64", &z4, &[(3, 3)], &two_flags);
    sweep::<i64>(&run, "i64", &z3[..2], &[(4, 4)], &two_flags);
    sweep::<i64>(&run, "i64", &z3, &[(2, 4), (4, 2)], &two_flags);
    let zwide: Vec<Z> = [0, 1, 2, 3, 4, 6, -2, -6, 12].map(z).to_vec();
    sweep::<i64>(&run, "i64", &zwide, &[(2, 2)], &flags);
    // ---- diagonal inputs: the divisibility-chain normalisation on its own ------------------------------------
    {
        let dal: Vec<Z> = [0, 1, 2, 3, 4, 6, 8, 9, 12, 18].map(z).to_vec();
        let mut diags: Vec<(RMat<Z>, String)> = vec![];
        for (m, n, k) in [(3usize, 3usize, 3usize), (3, 4, 3), (4, 4, 4)] {
            let al: &[Z] = if k == 4 { &dal[1..7] } else { &dal };
            for idx in 0..al.len().pow(k as u32) {
                let mut x = idx;
                let mut a = RMat::<Z>::zero(m, n);
                let mut code = String::new();
                for i in 0..k {
                    a.set(i, i, al[x % al.len()].clone());
                    code.push_str(&format!("{},", al[x % al.len()]));
                    x /= al.len();
                }
                diags.push((a, format!("diag({code})")));
            }
        }
        run.add("inputs", diags.len() as u64);
        run.par_for(diags.len(), |i| {
            let (a, code) = &diags[i];
            if !a.is_zero() {
                run.add("nonzero_inputs", 1);
            }
            check_one::<i64>(&run, "i64/diag", a, code, &two_flags);
            check_one::<BigInt>(&run, "BigInt/diag", a, code, &[[true; 4]]);
        });
        // (1,2) and (2,1) are the two non-associate primes above the split prime 5: equal norms, neither
        // divides the other (seed `C15-quadint-divides-by-norm`: a norm-only divisibility test)
        let gd: Vec<Quad<-1>> = [(0, 0), (1, 0), (1, 1), (2, 0), (1, 2), (2, 1), (3, 0), (2, 2), (3, 3), (5, 0)].map(|(a, b)| Quad::of(a, b)).to_vec();
        let mut gdiags: Vec<(RMat<Quad<-1>>, String)> = vec![];
        for idx in 0..gd.len().pow(3) {
            let mut x = idx;
            let mut a = RMat::<Quad<-1>>::zero(3, 3);
            let mut code = String::new();
            for i in 0..3 {
                a.set(i, i, gd[x % gd.len()].clone());
                code.push_str(&format!("{:?},", gd[x % gd.len()]));
                x /= gd.len();
            }
            gdiags.push((a, format!("diag({code})")));
        }
        run.add("inputs", gdiags.len() as u64);
        run.par_for(gdiags.len(), |i| {
            let (a, code) = &gdiags[i];
            check_one::<GaussInt<i64>>(&run, "GaussInt<i64>/diag", a, code, &two_flags);
        });
    }
    {
        // Eisenstein diagonals; (3,1) and (2,-1) are the two primes above the split prime 7
        let ed: Vec<Quad<-3>> = [(0, 0), (1, 0), (1, 1), (2, 0), (2, 1), (3, 1), (2, -1), (3, 0), (7, 0)].map(|(a, b)| Quad::of(a, b)).to_vec();
        let mut ediags: Vec<(RMat<Quad<-3>>, String)> = vec![];
        for idx in 0..ed.len().pow(3) {
            let mut x = idx;
            let mut a = RMat::<Quad<-3>>::zero(3, 3);
            let mut code = String::new();
            for i in 0..3 {
                a.set(i, i, ed[x % ed.len()].clone());
                code.push_str(&format!("{:?},", ed[x % ed.len()]));
                x /= ed.len();
            }
            ediags.push((a, format!("diag({code})")));
        }
        run.add("inputs", ediags.len() as u64);
        run.par_for(ediags.len(), |i| {
            let (a, code) = &ediags[i];
            check_one::<EisenInt<i64>>(&run, "EisenInt<i64>/diag", a, code, &two_flags);
        });
    }
    // ---- finite fields ----------------------------------------------------------------------------------
    sweep::<FF2>(&run, "FF2", &Fp::<2>::all(), &[(1, 1), (2, 2), (2, 3), (3, 2), (3, 3)], &flags);
    sweep::<FF<3>>(&run, "FF<3>", &Fp::<3>::all(), &[(1, 1), (2, 2), (2, 3), (3, 2)], &flags);
    sweep::<FF<5>>(&run, "FF<5>", &Fp::<5>::all(), &[(1, 1), (1, 2), (2, 2)], &flags);
    // ---- Gaussian / Eisenstein ----------------------------------------------------------------------------
    let g9: Vec<Quad<-1>> = [(0, 0), (1, 0), (-1, 0), (0, 1), (0, -1), (1, 1), (2, 0), (1, 2), (3, 0)].map(|(a, b)| Quad::of(a, b)).to_vec();
    let e9: Vec<Quad<-3>> = [(0, 0), (1, 0), (-1, 0), (0, 1), (-1, 1), (1, 1), (2, 0), (1, -1), (3, 0)].map(|(a, b)| Quad::of(a, b)).to_vec();
    sweep::<GaussInt<i64>>(&run, "GaussInt<i64>", &g9, &[(1, 1), (1, 2), (2, 1), (2, 2)], &flags);
    sweep::<GaussInt<BigInt>>(&run, "GaussInt<BigInt>", &g9[..6], &[(2, 2)], &two_flags);
    sweep::<EisenInt<i64>>(&run, "EisenInt<i64>", &e9, &[(1, 1), (1, 2), (2, 1), (2, 2)], &flags);
    sweep::<EisenInt<BigInt>>(&run, "EisenInt<BigInt>", &e9[..6], &[(2, 2)], &two_flags);
    // ---- Q, Q[x], F_p[x] -------------------------------------------------------------------------------------
    let q5 = [Q::int(0), Q::int(1), Q::int(-1), Q::int(2), Q::new(z(1), z(2)), Q::new(z(-2), z(3))];
    sweep::<Ratio<i64>>(&run, "Ratio<i64>", &q5, &[(1, 1), (1, 2), (2, 1), (2, 2)], &flags);
    sweep::<Ratio<i64>>(&run, "Ratio<i64>", &q5[..4], &[(2, 3)], &two_flags);
    let x = |c: Vec<i64>| UPoly::<Q>::new(c.into_iter().map(Q::int).collect());
    let px = [x(vec![]), x(vec![1]), x(vec![0, 1]), x(vec![1, 1]), x(vec![0, 0, 1]), x(vec![0, 2]), x(vec![-1])];
    sweep::<Poly<'x', Ratio<i64>>>(&run, "Poly<x,Ratio<i64>>", &px, &[(1, 1), (1, 2), (2, 1)], &flags);
    sweep::<Poly<'x', Ratio<i64>>>(&run, "Poly<x,Ratio<i64>>", &px[..6], &[(2, 2)], &flags);
    let y = |c: Vec<u32>| UPoly::<Fp<3>>::new(c.into_iter().map(Fp).collect());
    let py = [y(vec![]), y(vec![1]), y(vec![0, 1]), y(vec![1, 1]), y(vec![0, 0, 1]), y(vec![0, 2]), y(vec![2])];
    sweep::<Poly<'x', FF<3>>>(&run, "Poly<x,FF<3>>", &py, &[(1, 1), (1, 2), (2, 1)], &flags);
    sweep::<Poly<'x', FF<3>>>(&run, "Poly<x,FF<3>>", &py[..6], &[(2, 2)], &flags);

    // ---- boundary alphabet: arbitrary precision must not panic ------------------------------------------------
    let big: Vec<Z> = vec![z(0), z(1), z(-1), pow2(31), pow2(53) - z(1), pow2(53), pow2(53) + z(1), pow2(64) + z(1), pow10(20), -pow10(40) - z(7), pow10(300)];
    sweep::<BigInt>(&run, "BigInt/boundary", &big, &[(1, 1), (1, 2), (2, 1)], &two_flags);
    sweep::<BigInt>(&run, "BigInt/boundary", &big[..8], &[(2, 2)], &two_flags);
    let gbig: Vec<Quad<-1>> = vec![
        Quad::of(0, 0),
        Quad::of(1, 0),
        Quad::of(0, 1),
        Quad::new(pow2(53) + z(1), z(1)),
        Quad::new(z(3), pow2(64) + z(1)),
        Quad::new(pow10(20), -pow10(20) + z(1)),
        Quad::new(pow10(150), z(7)),
    ];
    sweep::<GaussInt<BigInt>>(&run, "GaussInt<BigInt>/boundary", &gbig, &[(1, 1), (1, 2), (2, 1), (2, 2)], &two_flags);
    let ebig: Vec<Quad<-3>> = gbig.iter().map(|g| Quad::<-3>::new(g.a.clone(), g.b.clone())).collect();
    sweep::<EisenInt<BigInt>>(&run, "EisenInt<BigInt>/boundary", &ebig, &[(1, 1), (1, 2), (2, 1), (2, 2)], &two_flags);
    // machine types: entries up to 2^15 (i64) / 10^9 (i128) so that intermediates legitimately fit
    let mid: Vec<Z> = vec![z(0), z(1), z(-1), z(32767), z(-32768), z(12345), z(30030)];
    sweep::<i64>(&run, "i64/mid", &mid, &[(1, 2), (2, 2)], &two_flags);
    let mid128: Vec<Z> = vec![z(0), z(1), z(-1), z(1_000_000_007), z(-999_999_937), z(123_456_789), z(223_092_870)];
    sweep::<i128>(&run, "i128/mid", &mid128, &[(1, 2), (2, 2)], &two_flags);

    if th {
        let z6: Vec<Z> = (-2..=3).map(z).collect();
        sweep::<i64>(&run, "i64", &z6, &[(3, 3)], &two_flags);
        sweep::<i64>(&run, "i64", &z4, &[(3, 3), (2, 4), (4, 2)], &flags);
        sweep::<BigInt>(&run, "BigInt", &z4, &[(3, 3)], &flags);
        sweep::<i128>(&run, "i128", &z4, &[(3, 3)], &two_flags);
        sweep::<FF<3>>(&run, "FF<3>", &Fp::<3>::all(), &[(3, 3)], &flags);
        sweep::<FF<5>>(&run, "FF<5>", &Fp::<5>::all(), &[(2, 3), (3, 2)], &flags);
        sweep::<GaussInt<i64>>(&run, "GaussInt<i64>", &g9[..5], &[(2, 3), (3, 2)], &two_flags);
        sweep::<EisenInt<i64>>(&run, "EisenInt<i64>", &e9[..5], &[(2, 3), (3, 2)], &two_flags);
        sweep::<GaussInt<BigInt>>(&run, "GaussInt<BigInt>", &g9, &[(2, 2)], &flags);
        sweep::<EisenInt<BigInt>>(&run, "EisenInt<BigInt>", &e9, &[(2, 2)], &flags);
        sweep::<Ratio<i64>>(&run, "Ratio<i64>", &q5[..4], &[(3, 3)], &two_flags);
        sweep::<Poly<'x', Ratio<i64>>>(&run, "Poly<x,Ratio<i64>>", &px[..5], &[(2, 3), (3, 2)], &two_flags);
        sweep::<Poly<'x', FF<3>>>(&run, "Poly<x,FF<3>>", &py[..5], &[(2, 3), (3, 2)], &two_flags);
        sweep::<Poly<'x', FF2>>(&run, "Poly<x,FF2>", &[UPoly::<Fp<2>>::new(vec![]), UPoly::new(vec![Fp(1)]), UPoly::new(vec![Fp(0), Fp(1)]), UPoly::new(vec![Fp(1), Fp(1)]), UPoly::new(vec![Fp(1), Fp(1), Fp(1)])], &[(2, 2), (2, 3)], &flags);
        sweep::<BigInt>(&run, "BigInt/boundary", &big, &[(2, 2)], &two_flags);
    }

    let coverage = json!({
        "evaluations": run.get("evaluations"),
        "distinct_nontrivial": run.get("nonzero_inputs"),
        "rule": "all m x n matrices over a per-ring alphabet (each distinct by construction) x flag subsets; non-trivial = non-zero matrix; evaluations = snf calls judged",
        "inputs": run.get("inputs"),
        "exhaustive": true,
    });
    run.finish(
        coverage,
        &[
            "reference Smith invariants: vcore::refmat (pivot-and-clear and gcds of minors, cross-checked on every input)",
            "'normalised' uses the library's own normalisation, which C15 checks to be idempotent and constant on associates",
            "fixed-width types only get entries small enough that intermediates legitimately fit; the no-panic clause for large entries is exercised on the BigInt-based instances",
        ],
    );
}
