//! C07 — homology of any chain complex over a Euclidean domain is computed correctly.
//!
//! Input space (complete, never sampled): every pair (d_in in M_{b x a}, d_out in M_{c x b}) with
//! a,b,c in 0..=2 (thorough: additionally 0..=3 over a thinner alphabet), entries from a small
//! per-ring alphabet, kept iff d_out * d_in = 0 in the reference ring.  The kept set is produced
//! as  { (d_in, d_out) : every column of d_in lies in {v in alphabet^b : d_out v = 0} },  which is
//! the same set as "all pairs, filtered by the product", only cheaper to list.
//!
//! Configurations: scalar type (11) x entry point (HomologyCalc::calculate with/without
//! transforms; GenericChainComplex::generate(..).homology() for d_deg = -1 and +1, all three
//! degrees; homology_at; compute_homology_at / compute_homology without transforms).
//!
//! Oracle (reference arithmetic only, `vcore::refmat` / `vcore::refnum`):
//!   rank  = b - rank(d_in) - rank(d_out)                      (rank over the fraction field)
//!   tors  = non-unit invariant factors of d_in, as a multiset up to units
//!   for every generator g_k = backward(e_k):  d_out g_k = 0,  forward(g_k) = e_k
//!         (free coordinates exactly, torsion coordinate j modulo the reported t_j)
//!   for every column v of d_in:  forward(v) = 0 in free coordinates, = 0 mod t_j in torsion ones
//!   forward_mat / backward_mat agree with forward(..) / backward(..) on unit vectors.

use checks::bridge::Bridge;
use num_bigint::BigInt;
use std::sync::atomic::{AtomicU64, Ordering};
use vcore::refmat::{same_factor_multiset, same_factors, RMat};
use vcore::refnum::*;
use vcore::{catch, json, Run, Value};
use yui::poly::Poly;
use yui::{EisenInt, EucRing, EucRingOps, GaussInt, Ratio, FF, FF2};
use yui_homology::utils::HomologyCalc;
use yui_homology::{ChainComplexTrait, ComputeHomology, GenericChainComplex, GridTrait, SummandTrait};
use yui_matrix::sparse::{SpMat, SpVec};
use yui_matrix::MatTrait;

// ---------------------------------------------------------------------------------------------
// conversions through the public API
// ---------------------------------------------------------------------------------------------

fn to_sp<T>(m: &RMat<T::Ref>) -> SpMat<T>
where
    T: EucRing + Bridge,
    for<'x> &'x T: EucRingOps<T>,
{
    let mut entries = vec![];
    for i in 0..m.m {
        for j in 0..m.n {
            if !RefRing::is_zero(m.at(i, j)) {
                entries.push((i, j, T::from_ref(m.at(i, j))));
            }
        }
    }
    SpMat::from_entries((m.m, m.n), entries)
}

fn from_sp<T>(a: &SpMat<T>) -> RMat<T::Ref>
where
    T: EucRing + Bridge,
    for<'x> &'x T: EucRingOps<T>,
{
    let (m, n) = a.shape();
    let mut r = RMat::<T::Ref>::zero(m, n);
    for (i, j, x) in a.iter() {
        let v = r.at(i, j).add(&x.to_ref());
        r.set(i, j, v);
    }
    r
}

fn vec_to_sp<T>(v: &[T::Ref]) -> SpVec<T>
where
    T: EucRing + Bridge,
    for<'x> &'x T: EucRingOps<T>,
{
    SpVec::from_entries(v.len(), v.iter().enumerate().filter(|(_, x)| !RefRing::is_zero(*x)).map(|(i, x)| (i, T::from_ref(x))))
}

fn vec_from_sp<T>(v: &SpVec<T>) -> Vec<T::Ref>
where
    T: EucRing + Bridge,
    for<'x> &'x T: EucRingOps<T>,
{
    let mut r = vec![<T::Ref as RefRing>::zero(); v.dim()];
    for (i, x) in v.iter() {
        r[i] = r[i].add(&x.to_ref());
    }
    r
}

fn unit_vec<F: RefRing>(n: usize, k: usize) -> Vec<F> {
    (0..n).map(|i| if i == k { F::one() } else { F::zero() }).collect()
}

fn show_vec<F: RefRing>(v: &[F]) -> String {
    format!("[{}]", v.iter().map(|x| x.show()).collect::<Vec<_>>().join(","))
}

// ---------------------------------------------------------------------------------------------
// the oracle
// ---------------------------------------------------------------------------------------------

/// what the reference says about  . --inc--> M --out--> .
struct Expect<F: RefEuclid> {
    rank: usize,
    tors: Vec<F>,
}

fn expect<F: RefEuclid>(inc: &RMat<F>, out: &RMat<F>) -> Expect<F> {
    assert_eq!(inc.m, out.n);
    let rank = inc.m - inc.rank() - out.rank();
    let tors = inc.invariant_factors().into_iter().filter(|x| !x.is_unit()).collect();
    Expect { rank, tors }
}

/// what the library reported, converted to reference values
struct Observed<F: RefEuclid> {
    rank: usize,
    tors: Vec<F>,
    /// (chain coordinates of generator k for every k, homology coordinates of chain unit vector j
    /// for every j, homology coordinates of every column of the incoming differential)
    maps: Option<Maps<F>>,
}

struct Maps<F: RefEuclid> {
    gens: Vec<Vec<F>>,
    gens_coords: Vec<Vec<F>>,
    boundary_coords: Vec<Vec<F>>,
    /// optional consistency data: (forward_mat, backward_mat, forward(e_j) for all j)
    mats: Option<(RMat<F>, RMat<F>, Vec<Vec<F>>)>,
}

fn judge<F: RefEuclid>(inc: &RMat<F>, out: &RMat<F>, exp: &Expect<F>, obs: &Observed<F>) -> Result<(), String> {
    let n = inc.m;
    if obs.rank != exp.rank {
        return Err(format!("rank {} but n - rk(d_in) - rk(d_out) = {} - {} - {} = {}", obs.rank, n, inc.rank(), out.rank(), exp.rank));
    }
    if !same_factor_multiset(&obs.tors, &exp.tors) {
        return Err(format!(
            "torsion {} is not the list of non-unit invariant factors of d_in {} (up to units)",
            show_vec(&obs.tors),
            show_vec(&exp.tors)
        ));
    }
    let Some(mp) = &obs.maps else { return Ok(()) };
    let (r, t) = (obs.rank, obs.tors.len());
    let coord_ok = |got: &F, want: &F, j: usize| -> bool {
        if j < r {
            got == want
        } else {
            obs.tors[j - r].divides(&got.sub(want))
        }
    };
    if mp.gens.len() != r + t || mp.gens_coords.len() != r + t {
        return Err(format!("{} generators for rank {} + {} torsion summands", mp.gens.len(), r, t));
    }
    for k in 0..r + t {
        let g = &mp.gens[k];
        if g.len() != n {
            return Err(format!("generator {k} has {} chain coordinates, expected {n}", g.len()));
        }
        let dg = out.mul_vec(g);
        if dg.iter().any(|x| !x.is_zero()) {
            return Err(format!("generator {k} = {} is not a cycle: d_out g = {}", show_vec(g), show_vec(&dg)));
        }
        let co = &mp.gens_coords[k];
        if co.len() != r + t {
            return Err(format!("coordinates of generator {k} have length {}, expected {}", co.len(), r + t));
        }
        let e = unit_vec::<F>(r + t, k);
        for j in 0..r + t {
            if !coord_ok(&co[j], &e[j], j) {
                return Err(format!(
                    "coordinates of generator {k} = {} are {} ; expected the standard basis vector e_{k} (torsion coordinates modulo {})",
                    show_vec(g),
                    show_vec(co),
                    show_vec(&obs.tors)
                ));
            }
        }
    }
    if mp.boundary_coords.len() != inc.n {
        return Err(format!("{} boundary images for {} columns", mp.boundary_coords.len(), inc.n));
    }
    let zero = F::zero();
    for (c, co) in mp.boundary_coords.iter().enumerate() {
        if co.len() != r + t {
            return Err(format!("coordinates of boundary column {c} have length {}, expected {}", co.len(), r + t));
        }
        for j in 0..r + t {
            if !coord_ok(&co[j], &zero, j) {
                return Err(format!(
                    "boundary d_in e_{c} = {} has homology coordinates {} ; expected 0 (torsion coordinates modulo {})",
                    show_vec(&inc.col(c)),
                    show_vec(co),
                    show_vec(&obs.tors)
                ));
            }
        }
    }
    if let Some((fm, bm, fwd_units)) = &mp.mats {
        if (fm.m, fm.n) != (r + t, n) || (bm.m, bm.n) != (n, r + t) {
            return Err(format!("forward_mat is {}x{}, backward_mat is {}x{}; expected {}x{} and {}x{}", fm.m, fm.n, bm.m, bm.n, r + t, n, n, r + t));
        }
        for k in 0..r + t {
            if bm.col(k) != mp.gens[k] {
                return Err(format!("backward_mat column {k} = {} differs from backward(e_{k}) = {}", show_vec(&bm.col(k)), show_vec(&mp.gens[k])));
            }
        }
        for j in 0..n {
            if fm.col(j) != fwd_units[j] {
                return Err(format!("forward_mat column {j} = {} differs from forward(e_{j}) = {}", show_vec(&fm.col(j)), show_vec(&fwd_units[j])));
            }
        }
    }
    Ok(())
}

// ---------------------------------------------------------------------------------------------
// one kept pair, shared between all scalar types of the same reference ring
// ---------------------------------------------------------------------------------------------

static EVALS: AtomicU64 = AtomicU64::new(0);
static TORS_ORDER: AtomicU64 = AtomicU64::new(0);

struct Case<F: RefEuclid> {
    din: RMat<F>,
    dout: RMat<F>,
    /// position 0 = source end (rank a), 1 = middle (rank b), 2 = target end (rank c)
    inc: [RMat<F>; 3],
    out: [RMat<F>; 3],
    exp: [Expect<F>; 3],
    id: String,
}

impl<F: RefEuclid> Case<F> {
    fn new(din: RMat<F>, dout: RMat<F>) -> Self {
        let (a, c) = (din.n, dout.m);
        let inc = [RMat::zero(a, 0), din.clone(), dout.clone()];
        let out = [din.clone(), dout.clone(), RMat::zero(0, c)];
        let exp = [expect(&inc[0], &out[0]), expect(&inc[1], &out[1]), expect(&inc[2], &out[2])];
        let id = format!("{}|{}", din.show(), dout.show());
        Case { din, dout, inc, out, exp, id }
    }
}

fn fail_case<F: RefEuclid>(run: &Run, ty: &str, entry: &str, cs: &Case<F>, what: String) {
    run.fail(
        &format!("c07:{ty}:{entry}:{}", cs.id),
        &what,
        json!({"type": ty, "entry": entry, "d_in": cs.din.show(), "d_out": cs.dout.show(),
               "expected_rank": cs.exp[1].rank, "expected_torsion": show_vec(&cs.exp[1].tors)}),
    );
}

/// entry point 1: HomologyCalc::calculate
fn check_calc<T>(run: &Run, cs: &Case<T::Ref>, with_trans: bool)
where
    T: EucRing + Bridge,
    for<'x> &'x T: EucRingOps<T>,
    T::Ref: RefEuclid,
{
    let entry = if with_trans { "calculate(trans)" } else { "calculate" };
    EVALS.fetch_add(1, Ordering::Relaxed);
    let (b, a) = (cs.din.m, cs.din.n);
    let r = catch(|| {
        let (rank, tors, trans) = HomologyCalc::<T>::calculate(to_sp::<T>(&cs.din), to_sp::<T>(&cs.dout), with_trans);
        let tors: Vec<T::Ref> = tors.iter().map(|x| x.to_ref()).collect();
        if trans.is_some() != with_trans {
            return Err(format!("with_trans={with_trans} but transform present={}", trans.is_some()));
        }
        let maps = match trans {
            None => None,
            Some(t) => {
                let k = rank + tors.len();
                if t.src_dim() != b || t.tgt_dim() != k {
                    return Err(format!("transform has dimensions {} -> {}, expected {} -> {}", t.src_dim(), t.tgt_dim(), b, k));
                }
                let gens: Vec<Vec<T::Ref>> = (0..k).map(|i| vec_from_sp(&t.backward(&SpVec::<T>::unit(k, i)))).collect();
                let gens_coords = gens.iter().map(|g| vec_from_sp(&t.forward(&vec_to_sp::<T>(g)))).collect();
                let boundary_coords = (0..a).map(|j| vec_from_sp(&t.forward(&vec_to_sp::<T>(&cs.din.col(j))))).collect();
                let fwd_units = (0..b).map(|j| vec_from_sp(&t.forward(&SpVec::<T>::unit(b, j)))).collect();
                let mats = Some((from_sp(&t.forward_mat()), from_sp(&t.backward_mat()), fwd_units));
                Some(Maps { gens, gens_coords, boundary_coords, mats })
            }
        };
        Ok(Observed { rank, tors, maps })
    });
    match r {
        Ok(Ok(obs)) => {
            if !same_factors(&obs.tors, &cs.exp[1].tors) && same_factor_multiset(&obs.tors, &cs.exp[1].tors) {
                TORS_ORDER.fetch_add(1, Ordering::Relaxed);
            }
            if let Err(e) = judge(&cs.din, &cs.dout, &cs.exp[1], &obs) {
                fail_case(run, T::NAME, entry, cs, e);
            }
        }
        Ok(Err(e)) => fail_case(run, T::NAME, entry, cs, e),
        Err(p) => fail_case(run, T::NAME, entry, cs, format!("panicked: {p}")),
    }
}

fn build_complex<T>(cs: &Case<T::Ref>, up: bool) -> GenericChainComplex<T>
where
    T: EucRing + Bridge,
    for<'x> &'x T: EucRingOps<T>,
    T::Ref: RefEuclid,
{
    let c = cs.dout.m;
    let (din, dout) = (to_sp::<T>(&cs.din), to_sp::<T>(&cs.dout));
    // position p sits in degree p (d_deg = +1) or 2 - p (d_deg = -1)
    GenericChainComplex::generate(0..=2, if up { 1 } else { -1 }, move |i| {
        let p = if up { i } else { 2 - i };
        match p {
            0 => din.clone(),
            1 => dout.clone(),
            _ => SpMat::zero((0, c)),
        }
    })
}

/// entry point 2: chain complex -> homology() / homology_at / compute_homology(_at)
fn check_complex<T>(run: &Run, cs: &Case<T::Ref>, up: bool, accessors: bool)
where
    T: EucRing + Bridge,
    for<'x> &'x T: EucRingOps<T>,
    T::Ref: RefEuclid,
{
    let entry = if up { "complex(d_deg=+1).homology" } else { "complex(d_deg=-1).homology" };
    EVALS.fetch_add(1, Ordering::Relaxed);
    let deg = |p: usize| -> isize { (if up { p } else { 2 - p }) as isize };
    let built = catch(|| {
        let cx = build_complex::<T>(cs, up);
        let h = cx.homology();
        (cx, h)
    });
    let (cx, h) = match built {
        Ok(x) => x,
        Err(p) => return fail_case(run, T::NAME, entry, cs, format!("panicked: {p}")),
    };
    for p in 0..3usize {
        let i = deg(p);
        let (inc, out) = (&cs.inc[p], &cs.out[p]);
        let r = catch(|| {
            let hi = h.get(i);
            let ci = cx.get(i);
            let k = hi.rank() + hi.tors().len();
            if SummandTrait::dim(hi) != k {
                return Err(format!("dim() = {} but rank + #tors = {k}", SummandTrait::dim(hi)));
            }
            let tors: Vec<T::Ref> = hi.tors().iter().map(|x| x.to_ref()).collect();
            let mut gens = vec![];
            let mut gens_coords = vec![];
            for j in 0..k {
                let z = hi.gen(j);
                // the library's own differential on the library's own generator
                if !num_traits::Zero::is_zero(&cx.d(i, &z)) {
                    return Err(format!("d(gen({j})) is non-zero according to the complex itself"));
                }
                gens.push(vec_from_sp(&ci.vectorize(&z)));
                let co = vec_from_sp(&hi.vectorize(&z));
                // vectorize_euc: the same coordinates with torsion entries reduced
                let ce = vec_from_sp(&hi.vectorize_euc(&z));
                for (l, (x, y)) in co.iter().zip(&ce).enumerate() {
                    let ok = if l < hi.rank() { x == y } else { tors[l - hi.rank()].divides(&x.sub(y)) };
                    if !ok {
                        return Err(format!("vectorize_euc(gen({j})) = {} is not congruent to vectorize = {}", show_vec(&ce), show_vec(&co)));
                    }
                }
                gens_coords.push(co);
            }
            let mut boundary_coords = vec![];
            for j in 0..inc.n {
                let v = vec_to_sp::<T>(&inc.col(j));
                let z = ci.devectorize(&v);
                boundary_coords.push(vec_from_sp(&hi.vectorize(&z)));
            }
            Ok(Observed { rank: hi.rank(), tors, maps: Some(Maps { gens, gens_coords, boundary_coords, mats: None }) })
        });
        let sub = format!("{entry}[{i}]");
        match r {
            Ok(Ok(obs)) => {
                if let Err(e) = judge(inc, out, &cs.exp[p], &obs) {
                    fail_case(run, T::NAME, &sub, cs, e);
                }
            }
            Ok(Err(e)) => fail_case(run, T::NAME, &sub, cs, e),
            Err(pn) => fail_case(run, T::NAME, &sub, cs, format!("panicked: {pn}")),
        }
    }
    if !accessors {
        return;
    }
    // homology_at / compute_homology_at / compute_homology: rank and torsion, per degree
    EVALS.fetch_add(1, Ordering::Relaxed);
    for p in 0..3usize {
        let i = deg(p);
        let r = catch(|| {
            let a = cx.homology_at(i);
            let b = cx.compute_homology_at(i, false);
            let c = cx.compute_homology(false);
            let c = c.get(i);
            let conv = |t: &[T]| -> Vec<T::Ref> { t.iter().map(|x| x.to_ref()).collect() };
            [(a.rank(), conv(a.tors())), (b.rank(), conv(b.tors())), (c.rank(), conv(c.tors()))]
        });
        let sub = format!("{entry}_at[{i}]");
        match r {
            Ok(list) => {
                for (which, (rank, tors)) in ["homology_at", "compute_homology_at(false)", "compute_homology(false)"].iter().zip(list) {
                    let obs = Observed { rank, tors, maps: None };
                    if let Err(e) = judge(&cs.inc[p], &cs.out[p], &cs.exp[p], &obs) {
                        fail_case(run, T::NAME, &sub, cs, format!("{which}: {e}"));
                    }
                }
            }
            Err(pn) => fail_case(run, T::NAME, &sub, cs, format!("panicked: {pn}")),
        }
    }
}

fn reference_only() -> bool {
    static F: std::sync::OnceLock<bool> = std::sync::OnceLock::new();
    *F.get_or_init(|| std::env::var_os("VERIF_C07_REFERENCE_ONLY").is_some())
}

/// `light`: the 0..=3 sweep of the thorough tier runs calculate (with and without transforms) and
/// the d_deg = -1 complex only; the accessor and d_deg = +1 variants are covered by the 0..=2 sweep.
fn check_type<T>(run: &Run, cs: &Case<T::Ref>, light: bool)
where
    T: EucRing + Bridge,
    for<'x> &'x T: EucRingOps<T>,
    T::Ref: RefEuclid,
{
    if reference_only() {
        return; // development aid: cost of enumeration + reference alone (run is marked capped)
    }
    check_calc::<T>(run, cs, false);
    check_calc::<T>(run, cs, true);
    check_complex::<T>(run, cs, false, !light);
    if !light {
        check_complex::<T>(run, cs, true, false);
    }
}

// ---------------------------------------------------------------------------------------------
// enumeration
// ---------------------------------------------------------------------------------------------

fn tuples<F: Clone>(al: &[F], n: usize) -> Vec<Vec<F>> {
    let mut out = vec![vec![]];
    for _ in 0..n {
        let mut next = Vec::with_capacity(out.len() * al.len());
        for t in &out {
            for x in al {
                let mut u = t.clone();
                u.push(x.clone());
                next.push(u);
            }
        }
        out = next;
    }
    out
}

struct RingStats {
    name: &'static str,
    kept: u64,
    nontrivial: u64,
    with_torsion: u64,
    candidates: f64,
    alphabet: String,
}

/// All kept pairs with a,b,c in 0..=maxdim over `al`; `f` is called once per kept pair.
fn sweep_ring<F: RefEuclid>(run: &Run, name: &'static str, al: &[F], maxdim: usize, f: impl Fn(&Case<F>) + Sync) -> RingStats {
    assert!(al.iter().enumerate().all(|(i, x)| al[..i].iter().all(|y| y != x)), "alphabet has duplicates");
    // phase 1: for every (b, c, d_out): the alphabet vectors in its kernel
    struct Dout<F: RefRing> {
        dout: RMat<F>,
        ker: Vec<Vec<F>>,
    }
    let mut douts: Vec<Dout<F>> = vec![];
    let mut candidates = 0f64;
    for b in 0..=maxdim {
        let vecs = tuples(al, b);
        for c in 0..=maxdim {
            let mats = tuples(al, c * b);
            for a in 0..=maxdim {
                candidates += (mats.len() as f64) * (al.len() as f64).powi((a * b) as i32);
            }
            let local: std::sync::Mutex<Vec<(usize, Dout<F>)>> = std::sync::Mutex::new(vec![]);
            let chunk = 256;
            run.par_for(mats.len().div_ceil(chunk), |ch| {
                let mut mine = vec![];
                for idx in ch * chunk..((ch + 1) * chunk).min(mats.len()) {
                    let dout = RMat { m: c, n: b, e: mats[idx].clone() };
                    let ker: Vec<Vec<F>> = vecs.iter().filter(|v| dout.mul_vec(v).iter().all(|x| x.is_zero())).cloned().collect();
                    mine.push((idx, Dout { dout, ker }));
                }
                local.lock().unwrap().extend(mine);
            });
            let mut l = local.into_inner().unwrap();
            l.sort_by_key(|x| x.0);
            douts.extend(l.into_iter().map(|x| x.1));
        }
    }
    // phase 2: work items (d_out, a, first column of d_in)
    let mut items: Vec<(u32, u8, u32)> = vec![];
    for (di, d) in douts.iter().enumerate() {
        for a in 0..=maxdim {
            if a == 0 {
                items.push((di as u32, 0, 0));
            } else {
                for k0 in 0..d.ker.len() {
                    items.push((di as u32, a as u8, k0 as u32));
                }
            }
        }
    }
    let kept = AtomicU64::new(0);
    let nontrivial = AtomicU64::new(0);
    let with_torsion = AtomicU64::new(0);
    let stopped = std::sync::atomic::AtomicBool::new(false);
    run.par_for(items.len(), |it| {
        if stopped.load(Ordering::Relaxed) {
            return;
        }
        if run.over_budget() {
            stopped.store(true, Ordering::Relaxed);
            return;
        }
        let (di, a, k0) = items[it];
        let d = &douts[di as usize];
        let (a, b) = (a as usize, d.dout.n);
        let nk = d.ker.len();
        let rest = if a == 0 { 1 } else { nk.pow(a as u32 - 1) };
        for mut code in 0..rest {
            let mut cols: Vec<&Vec<F>> = vec![];
            if a > 0 {
                cols.push(&d.ker[k0 as usize]);
                for _ in 1..a {
                    cols.push(&d.ker[code % nk]);
                    code /= nk;
                }
            }
            let din = RMat::from_fn(b, a, |i, j| cols[j][i].clone());
            debug_assert!(d.dout.mul(&din).is_zero());
            let cs = Case::new(din, d.dout.clone());
            kept.fetch_add(1, Ordering::Relaxed);
            if !cs.din.is_zero() || !cs.dout.is_zero() {
                nontrivial.fetch_add(1, Ordering::Relaxed);
            }
            if cs.exp.iter().any(|e| !e.tors.is_empty()) {
                with_torsion.fetch_add(1, Ordering::Relaxed);
            }
            f(&cs);
        }
    });
    if stopped.load(Ordering::Relaxed) {
        run.cap(&format!("wall budget reached inside ring {name} (dims 0..={maxdim})"));
    }
    RingStats { name, kept: kept.into_inner(), nontrivial: nontrivial.into_inner(), with_torsion: with_torsion.into_inner(), candidates, alphabet: show_vec(al) }
}

/// Planted torsion: d_in = U * diag(d1,d2,d3) * V (optionally with an extra zero row / column, so
/// that a free part and a zero pivot occur), d_out = 0 or the row that kills the image, for every
/// triple over `dal` and a few unimodular U, V over {0, 1, -1}.  The alphabet sweep above cannot
/// produce three non-trivial, mutually non-dividing invariant factors in one degree; this family
/// does (seed `C07-snf-gcd-step-no-restart`).
fn planted_family<F: RefEuclid>(run: &Run, name: &'static str, dal: &[F], f: impl Fn(&Case<F>) + Sync) -> RingStats {
    let one = F::one();
    let e = |i: usize, j: usize, v: i64| -> RMat<F> {
        RMat::from_fn(3, 3, |r, c| if r == c { one.clone() } else if (r, c) == (i, j) { F::from_i64(v) } else { F::zero() })
    };
    let id = RMat::from_fn(3, 3, |r, c| if r == c { one.clone() } else { F::zero() });
    let us: Vec<RMat<F>> = vec![id.clone(), e(0, 1, 1), e(1, 0, 1).mul(&e(2, 1, -1)), e(0, 2, -1).mul(&e(1, 2, 1)).mul(&e(2, 0, 1))];
    let triples = tuples(dal, 3);
    let kept = AtomicU64::new(0);
    let with_torsion = AtomicU64::new(0);
    let stopped = std::sync::atomic::AtomicBool::new(false);
    run.par_for(triples.len(), |ti| {
        if stopped.load(Ordering::Relaxed) || run.over_budget() {
            stopped.store(true, Ordering::Relaxed);
            return;
        }
        let t = &triples[ti];
        let d = RMat::from_fn(3, 3, |r, c| if r == c { t[r].clone() } else { F::zero() });
        for (ui, u) in us.iter().enumerate() {
            for (vi, v) in us.iter().enumerate() {
                if (ui + vi) % 2 == 1 && ui != 0 && vi != 0 {
                    continue;
                }
                let core = u.mul(&d).mul(v);
                // shapes: 3x3, 4x3 (extra zero row: one more free generator), 3x4 (extra zero column)
                for shape in 0..3 {
                    let din = match shape {
                        0 => core.clone(),
                        1 => RMat::from_fn(4, 3, |r, c| if r < 3 { core.at(r, c).clone() } else { F::zero() }),
                        _ => RMat::from_fn(3, 4, |r, c| if c < 3 { core.at(r, c).clone() } else { F::zero() }),
                    };
                    let dout = RMat::zero(if shape == 1 { 1 } else { 0 }, din.m);
                    let cs = Case::new(din, dout);
                    kept.fetch_add(1, Ordering::Relaxed);
                    if cs.exp.iter().any(|e| !e.tors.is_empty()) {
                        with_torsion.fetch_add(1, Ordering::Relaxed);
                    }
                    f(&cs);
                }
            }
        }
    });
    if stopped.load(Ordering::Relaxed) {
        run.cap(&format!("wall budget reached inside the planted-torsion family of {name}"));
    }
    let k = kept.into_inner();
    RingStats { name, kept: k, nontrivial: k, with_torsion: with_torsion.into_inner(), candidates: k as f64, alphabet: format!("planted diag over {}", show_vec(dal)) }
}

fn qq(n: i64, d: i64) -> Q {
    Q::new(z(n), z(d))
}

fn sample_for<T>(run: &Run, din: RMat<T::Ref>, dout: RMat<T::Ref>)
where
    T: EucRing + Bridge,
    for<'x> &'x T: EucRingOps<T>,
    T::Ref: RefEuclid,
{
    let cs = Case::new(din, dout);
    let (rank, tors, t) = HomologyCalc::<T>::calculate(to_sp::<T>(&cs.din), to_sp::<T>(&cs.dout), true);
    let t = t.unwrap();
    run.sample(json!({
        "type": T::NAME, "d_in": cs.din.show(), "d_out": cs.dout.show(),
        "reference": {"rank": cs.exp[1].rank, "torsion": show_vec(&cs.exp[1].tors)},
        "library": {"rank": rank, "torsion": show_vec(&tors.iter().map(|x| x.to_ref()).collect::<Vec<_>>()),
                    "forward_mat": from_sp(&t.forward_mat()).show(), "backward_mat": from_sp(&t.backward_mat()).show()},
    }));
}

fn main() {
    let run = Run::new("C07", "exploration");
    let th = run.thorough();
    if reference_only() {
        run.cap("VERIF_C07_REFERENCE_ONLY set: no library call was made");
    }
    let mut stats: Vec<(RingStats, usize, usize)> = vec![];
    let mut sweep_all = |maxdim: usize, thin: bool| {
        macro_rules! ring {
            ($name:expr, $al:expr, [$($t:ty),+]) => {{
                let al = $al;
                let ntypes = [$(<$t as Bridge>::NAME),+].len();
                let st = sweep_ring(&run, $name, &al, maxdim, |cs| { $( check_type::<$t>(&run, cs, thin); )+ });
                eprintln!("[c07] dims 0..={maxdim} {:<8} alphabet {:>2}: kept {:>8} nontrivial {:>8} with torsion {:>8}  t={:.1}s",
                          $name, al.len(), st.kept, st.nontrivial, st.with_torsion, run.elapsed());
                stats.push((st, maxdim, ntypes));
            }};
        }
        // thin alphabets (0..=3 sweep of the thorough tier): three letters, except Z over i64 (four)
        let zal: Vec<Z> = [0, 1, -1, 2, 3, -2, 4, 6].iter().map(|&i| z(i)).collect();
        if thin {
            ring!("Z", vec![z(0), z(1), z(-1), z(2)], [i64]);
            ring!("Z", vec![z(0), z(1), z(2)], [i128, BigInt]);
        } else {
            ring!("Z", zal, [i64, i128, BigInt]);
        }
        let qal: Vec<Q> = if thin { vec![qq(0, 1), qq(1, 1), qq(1, 2)] } else { vec![qq(0, 1), qq(1, 1), qq(-1, 1), qq(1, 2), qq(2, 1), qq(2, 3)] };
        ring!("Q", qal, [Ratio<i64>]);
        ring!("F2", Fp::<2>::all(), [FF2]);
        ring!("F3", Fp::<3>::all(), [FF<3>]);
        let f5: Vec<Fp<5>> = if thin { vec![Fp(0), Fp(1), Fp(2)] } else { Fp::<5>::all() };
        ring!("F5", f5, [FF<5>]);
        let gal: Vec<Quad<-1>> = if thin {
            vec![Quad::of(0, 0), Quad::of(1, 0), Quad::of(1, 1)]
        } else {
            vec![Quad::of(0, 0), Quad::of(1, 0), Quad::of(0, 1), Quad::of(1, 1), Quad::of(2, 0), Quad::of(1, 2), Quad::of(3, 0)]
        };
        ring!("Z[i]", gal, [GaussInt<i64>]);
        let eal: Vec<Quad<-3>> = if thin {
            vec![Quad::of(0, 0), Quad::of(1, 0), Quad::of(1, 1)]
        } else {
            vec![Quad::of(0, 0), Quad::of(1, 0), Quad::of(0, 1), Quad::of(1, 1), Quad::of(2, 0), Quad::of(1, 2), Quad::of(3, 0)]
        };
        ring!("Z[w]", eal, [EisenInt<i64>]);
        let pq = |c: &[i64]| UPoly::<Q>::new(c.iter().map(|&i| Q::int(i)).collect());
        let pal: Vec<UPoly<Q>> = if thin { vec![pq(&[]), pq(&[1]), pq(&[0, 1])] } else { vec![pq(&[]), pq(&[1]), pq(&[0, 1]), pq(&[1, 1]), pq(&[0, 0, 1]), pq(&[0, 2])] };
        ring!("Q[x]", pal, [Poly<'x', Ratio<i64>>]);
        let p3 = |c: &[i64]| UPoly::<Fp<3>>::new(c.iter().map(|&i| Fp::<3>::new(i)).collect());
        let p3al: Vec<UPoly<Fp<3>>> = if thin { vec![p3(&[]), p3(&[1]), p3(&[0, 1])] } else { vec![p3(&[]), p3(&[1]), p3(&[0, 1]), p3(&[1, 1]), p3(&[0, 0, 1]), p3(&[0, 2])] };
        ring!("F3[x]", p3al, [Poly<'x', FF<3>>]);
    };
    sweep_all(2, false);
    // planted torsion (three invariant factors in one degree), see `planted_family`
    let mut stats2: Vec<(RingStats, usize, usize)> = vec![];
    {
        macro_rules! planted {
            ($name:expr, $al:expr, [$($t:ty),+]) => {{
                let al = $al;
                let ntypes = [$(<$t as Bridge>::NAME),+].len();
                let st = planted_family(&run, $name, &al, |cs| { $( check_type::<$t>(&run, cs, true); )+ });
                eprintln!("[c07] planted {:<8} diag alphabet {:>2}: cases {:>8} with torsion {:>8}  t={:.1}s", $name, al.len(), st.kept, st.with_torsion, run.elapsed());
                stats2.push((st, 4, ntypes));
            }};
        }
        let zd: Vec<Z> = if th { vec![0, 1, 2, 3, 4, 6, 9, 12, 18, -2, 5, 10] } else { vec![0, 1, 2, 3, 4, 6, 12, 18] }.into_iter().map(z).collect();
        planted!("Z", zd, [i64, BigInt]);
        let gd: Vec<Quad<-1>> = vec![Quad::of(0, 0), Quad::of(1, 0), Quad::of(1, 1), Quad::of(2, 0), Quad::of(1, 2), Quad::of(2, 1), Quad::of(3, 0), Quad::of(3, 1)];
        planted!("Z[i]", if th { gd.clone() } else { gd[..6].to_vec() }, [GaussInt<i64>]);
        let pq = |c: &[i64]| UPoly::<Q>::new(c.iter().map(|&i| Q::int(i)).collect());
        let pd: Vec<UPoly<Q>> = vec![pq(&[]), pq(&[1]), pq(&[0, 1]), pq(&[1, 1]), pq(&[0, 0, 1]), pq(&[0, 1, 1]), pq(&[-1, 0, 1]), pq(&[2])];
        planted!("Q[x]", if th { pd.clone() } else { pd[..6].to_vec() }, [Poly<'x', Ratio<i64>>]);
        let p3 = |c: &[i64]| UPoly::<Fp<3>>::new(c.iter().map(|&i| Fp::<3>::new(i)).collect());
        let p3d: Vec<UPoly<Fp<3>>> = vec![p3(&[]), p3(&[1]), p3(&[0, 1]), p3(&[1, 1]), p3(&[0, 0, 1]), p3(&[0, 1, 1]), p3(&[2, 1])];
        planted!("F3[x]", if th { p3d.clone() } else { p3d[..6].to_vec() }, [Poly<'x', FF<3>>]);
    }
    if th {
        sweep_all(3, true);
    }
    stats.extend(stats2);

    // written-out samples (planted torsion; rectangular; polynomial ring)
    sample_for::<i64>(&run, RMat::from_rows(2, 2, vec![vec![z(2), z(4)], vec![z(6), z(0)]]), RMat::zero(1, 2));
    sample_for::<GaussInt<i64>>(&run, RMat::from_rows(2, 1, vec![vec![Quad::of(1, 1)], vec![Quad::of(2, 0)]]), RMat::zero(0, 2));
    {
        let p3 = |c: &[i64]| UPoly::<Fp<3>>::new(c.iter().map(|&i| Fp::<3>::new(i)).collect());
        sample_for::<Poly<'x', FF<3>>>(&run, RMat::from_rows(2, 2, vec![vec![p3(&[0, 1]), p3(&[])], vec![p3(&[]), p3(&[0, 0, 1])]]), RMat::zero(1, 2));
    }

    let per_ring: Vec<Value> = stats
        .iter()
        .map(|(s, d, nt)| json!({"ring": s.name, "dims": format!("0..={d}"), "scalar_types": nt, "alphabet": s.alphabet, "candidate_pairs": s.candidates,
                                  "kept_pairs": s.kept, "kept_with_nonzero_differential": s.nontrivial, "kept_with_torsion_somewhere": s.with_torsion}))
        .collect();
    // the same ring may be swept twice over nested alphabets (Z, 0..=3): count the larger one only
    let mut best: std::collections::BTreeMap<(&str, usize), u64> = Default::default();
    for (s, d, _) in &stats {
        let e = best.entry((s.name, *d)).or_insert(0);
        *e = (*e).max(s.nontrivial);
    }
    let distinct: u64 = best.values().sum();
    let inputs_x_types: u64 = stats.iter().map(|(s, _, nt)| s.kept * *nt as u64).sum();
    let coverage = json!({
        "evaluations": EVALS.load(Ordering::Relaxed),
        "torsion_listed_in_other_order_than_divisibility": TORS_ORDER.load(Ordering::Relaxed),
        "distinct_nontrivial": distinct,
        "rule": "all pairs (d_in b x a, d_out c x b), a,b,c in 0..=2 (thorough: also 0..=3 over a 3-4 letter alphabet), entries from the per-ring alphabet, kept iff d_out*d_in = 0 in the reference ring; distinct_nontrivial = kept pairs with a non-zero differential, counted once per reference ring and dimension sweep (pairs are distinct by construction; the 0..=3 sweep over the thin alphabet re-visits some pairs of the 0..=2 sweep); evaluations = library entry-point calls judged (4 per pair and scalar type: calculate, calculate+transforms, complex d_deg=-1 (3 degrees + accessors), complex d_deg=+1 (3 degrees))",
        "inputs_x_scalar_types": inputs_x_types,
        "per_ring": per_ring,
        "exhaustive": true,
    });
    run.finish(
        coverage,
        &[
            "reference: vcore::refmat (rank by fraction-free elimination; Smith invariants by pivot-and-clear AND by gcds of minors, cross-checked on every use) over vcore::refnum rings",
            "torsion is compared as a multiset up to units (the property does not fix an order); deviations from divisibility order are only counted",
            "fixed-width scalar types only see entries of absolute value <= 6 in matrices of size <= 3, far from overflow; large coefficients are the subject of C09/C15",
            "hash-order nondeterminism inside the library is not controlled; every comparison is up to the isomorphism the property states",
        ],
    );
}
