//! C01, sub-run "old-engine": part 1 of C01 (inputs x configurations vs. the reference cube)
//! against yui-kh built with the cargo feature `old` (the explicit-cube engine, kh/internal/v1).
//! Started by `c01` through `Run::run_subpart`; writes evidence/parts/C01.old-engine.json.

use vcore::{json, Run};

#[path = "../c01/part1.rs"]
mod part1;

fn main() {
    if std::env::var("VERIF_SUBPART").is_err() {
        eprintln!("c01old is a sub-run of c01 (VERIF_SUBPART not set)");
        std::process::exit(2);
    }
    let run = Run::new("C01", "model_checking");
    let n = part1::run_part1(&run, 0.9);
    let coverage = json!({
        "evaluations": n,
        "distinct_nontrivial": run.get("diagrams"),
        "rule": "part 1 of C01 (same enumeration, same reference, same oracle) against the second engine: yui-kh built with feature `old`",
        "exhaustive": true,
    });
    run.finish(coverage, &["see evidence/C01.json"]);
}
