use vcore::{json, Run};
fn main() {
    let run = Run::new("C12S", "model_checking");
    let o = checks::c12sched::schedule_part(&run);
    println!("{}", o.json);
    run.sample(json!({"x": 1}));
    run.finish(json!({"states": o.points + 1, "transitions": o.points + 1, "traces_validated_against_impl": o.executions}), &[]);
}
