//! C12 — sparse kernels (triangular solve, Schur complement, direct-sum splitting) are exact.
//!
//! `sequential_part`: bounded-exhaustive input sweep on one thread (the build's rayon stand-in
//! runs parallel items in index order on the calling thread, so consecutive columns reuse the
//! same thread-local scratch buffer).
//! `schedule_part` (thread-schedule exploration) is added in `main` below.

use checks::bridge::Bridge;
use std::cell::Cell;
use std::fmt::Debug;
use vcore::refmat::RMat;
use vcore::refnum::{RefEuclid, RefRing};
use vcore::{catch, json, Run, Value};
use yui::{GaussInt, Ratio, Ring, RingOps, FF};
use yui_matrix::sparse::decomp::dir_sum_decomp;
use yui_matrix::sparse::schur::Schur;
use yui_matrix::sparse::triang::{inv_triangular, solve_triangular, solve_triangular_left, solve_triangular_vec, TriangularType};
use yui_matrix::sparse::{MatTrait, SpMat, SpVec};

// ------------------------------------------------------------------------------------------
// operands (position = not stored / stored value, possibly an explicitly stored zero)
// ------------------------------------------------------------------------------------------

type Sym<T> = Option<T>;

#[derive(Clone, Debug)]
struct Opd<T: RefRing> {
    m: usize,
    n: usize,
    c: Vec<Sym<T>>, // row major
}

impl<T: RefRing> Opd<T> {
    fn dense(&self) -> RMat<T> {
        RMat::from_fn(self.m, self.n, |i, j| self.c[i * self.n + j].clone().unwrap_or_else(T::zero))
    }
    /// `.` = zero that is not stored, `0` = explicitly stored zero
    fn show(&self) -> String {
        let rows: Vec<String> = (0..self.m)
            .map(|i| (0..self.n).map(|j| self.c[i * self.n + j].as_ref().map(|v| v.show()).unwrap_or(".".into())).collect::<Vec<_>>().join(" "))
            .collect();
        format!("{}x{}[{}]", self.m, self.n, rows.join(";"))
    }
    fn stored_zeros(&self) -> usize {
        self.c.iter().filter(|x| matches!(x, Some(v) if v.is_zero())).count()
    }
    fn at(&self, i: usize, j: usize) -> &Sym<T> {
        &self.c[i * self.n + j]
    }
    fn col(&self, j: usize) -> Vec<Sym<T>> {
        (0..self.m).map(|i| self.at(i, j).clone()).collect()
    }
}

fn symbols<T: RefRing>(unstored: bool, stored0: bool, vals: &[i64]) -> Vec<Sym<T>> {
    let mut v: Vec<Sym<T>> = vec![];
    if unstored {
        v.push(None);
    }
    if stored0 {
        v.push(Some(T::zero()));
    }
    for &x in vals {
        let t = T::from_i64(x);
        if !t.is_zero() && !v.iter().any(|y| y.as_ref() == Some(&t)) {
            v.push(Some(t));
        }
    }
    v
}

fn count(syms: usize, cells: usize) -> usize {
    syms.checked_pow(cells as u32).unwrap_or(usize::MAX)
}

fn nth_cells<T: RefRing>(cells: usize, syms: &[Sym<T>], mut idx: usize) -> Vec<Sym<T>> {
    let mut c = Vec::with_capacity(cells);
    for _ in 0..cells {
        c.push(syms[idx % syms.len()].clone());
        idx /= syms.len();
    }
    c
}

/// candidate cell alphabets, largest first; `pick` takes the largest one whose enumeration
/// (times `mult` other choices) stays below `limit`
struct Alph<T: RefRing> {
    name: &'static str,
    syms: Vec<Sym<T>>,
}

fn alphabets<T: RefRing>() -> Vec<Alph<T>> {
    vec![
        Alph { name: "{., 0, 1, -1, 2}", syms: symbols::<T>(true, true, &[1, -1, 2]) },
        Alph { name: "{., 0, 1, -1}", syms: symbols::<T>(true, true, &[1, -1]) },
        Alph { name: "{., 1, 2}", syms: symbols::<T>(true, false, &[1, 2]) },
        Alph { name: "{., 1}", syms: symbols::<T>(true, false, &[1]) },
    ]
}

/// the largest alphabet that fits; the smallest one ({., 1}) if none does
fn pick<T: RefRing>(al: &[Alph<T>], cells: usize, mult: usize, limit: usize) -> &Alph<T> {
    al.iter().find(|a| count(a.syms.len(), cells).saturating_mul(mult) <= limit).unwrap_or(&al[al.len() - 1])
}

// ------------------------------------------------------------------------------------------
// library <-> reference
// ------------------------------------------------------------------------------------------

fn sp_r<R: Bridge>(a: &SpMat<R>) -> RMat<R::Ref> {
    let (m, n) = a.shape();
    let mut r = RMat::zero(m, n);
    let (offs, rows, vals) = a.data();
    assert!(offs.len() == n + 1, "col_offsets has length {} for {} columns", offs.len(), n);
    assert!(rows.len() == vals.len() && offs[n] == vals.len(), "inconsistent CSC array lengths");
    for j in 0..n {
        for k in offs[j]..offs[j + 1] {
            let i = rows[k];
            assert!(i < m, "row index {i} out of range in a matrix with {m} rows");
            assert!(k == offs[j] || rows[k - 1] < i, "row indices of column {j} not strictly increasing");
            r.set(i, j, vals[k].to_ref());
        }
    }
    r
}

fn spv_r<R: Bridge>(v: &SpVec<R>) -> Vec<R::Ref> {
    let n = v.dim();
    let mut out = vec![<R::Ref as RefRing>::zero(); n];
    let (ix, vals) = v.data();
    assert!(ix.len() == vals.len(), "inconsistent index/value lengths");
    for k in 0..ix.len() {
        assert!(ix[k] < n, "index {} out of range in a vector of dimension {n}", ix[k]);
        assert!(k == 0 || ix[k - 1] < ix[k], "indices not strictly increasing");
        out[ix[k]] = vals[k].to_ref();
    }
    out
}

/// keeps explicitly stored zeros
fn build_spvec<R>(cells: &[Sym<R::Ref>]) -> SpVec<R>
where
    R: Ring + Bridge,
    for<'x> &'x R: RingOps<R>,
{
    SpVec::from_sorted_entries(cells.len(), cells.iter().enumerate().filter_map(|(i, c)| c.as_ref().map(|v| (i, R::from_ref(v)))))
}

/// keeps explicitly stored zeros
fn build_sp<R>(o: &Opd<R::Ref>) -> SpMat<R>
where
    R: Ring + Bridge,
    for<'x> &'x R: RingOps<R>,
{
    SpMat::from_col_vecs(o.m, (0..o.n).map(|j| build_spvec::<R>(&o.col(j))))
}

fn pattern_kept<R: Bridge>(a: &SpMat<R>, o: &Opd<R::Ref>) -> bool {
    let (offs, rows, _) = a.data();
    offs.len() == o.n + 1
        && (0..o.n).all(|j| {
            let want: Vec<usize> = (0..o.m).filter(|&i| o.at(i, j).is_some()).collect();
            rows[offs[j]..offs[j + 1]] == want[..]
        })
}

fn show_vec<T: RefRing>(v: &[T]) -> String {
    format!("[{}]", v.iter().map(|x| x.show()).collect::<Vec<_>>().join(","))
}

fn show_cells<T: RefRing>(v: &[Sym<T>]) -> String {
    format!("[{}]", v.iter().map(|x| x.as_ref().map(|y| y.show()).unwrap_or(".".into())).collect::<Vec<_>>().join(" "))
}

fn dense_cells<T: RefRing>(v: &[Sym<T>]) -> Vec<T> {
    v.iter().map(|c| c.clone().unwrap_or_else(T::zero)).collect()
}

// ------------------------------------------------------------------------------------------
// bookkeeping
// ------------------------------------------------------------------------------------------

struct Ck<'a> {
    run: &'a Run,
    ring: &'static str,
    evals: Cell<u64>,
    nontrivial: Cell<u64>,
    stored_zero: Cell<u64>,
    /// informational (not part of the verdict): the commuting squares of the Schur diagram
    chain_checked: Cell<u64>,
    chain_failed: Cell<u64>,
}

impl<'a> Ck<'a> {
    fn new(run: &'a Run, ring: &'static str) -> Self {
        Ck { run, ring, evals: Cell::new(0), nontrivial: Cell::new(0), stored_zero: Cell::new(0), chain_checked: Cell::new(0), chain_failed: Cell::new(0) }
    }
    fn eval(&self, nontrivial: bool, stored_zero: bool) {
        self.evals.set(self.evals.get() + 1);
        if nontrivial {
            self.nontrivial.set(self.nontrivial.get() + 1);
        }
        if stored_zero {
            self.stored_zero.set(self.stored_zero.get() + 1);
        }
    }
    fn fail(&self, op: &str, args: &str, what: String) {
        self.run.fail(&format!("c12:{op}:{}:{args}", self.ring), &what, json!({"op": op, "ring": self.ring, "args": args}));
    }
}

impl<'a> Drop for Ck<'a> {
    fn drop(&mut self) {
        self.run.add("evaluations", self.evals.get());
        self.run.add("inputs_nontrivial", self.nontrivial.get());
        self.run.add("inputs_with_stored_zero", self.stored_zero.get());
        if self.chain_checked.get() > 0 {
            self.run.add("schur_commuting_squares_checked", self.chain_checked.get());
            self.run.add("schur_commuting_squares_failed", self.chain_failed.get());
        }
    }
}

// ------------------------------------------------------------------------------------------
// triangular matrices
// ------------------------------------------------------------------------------------------

#[derive(Clone, Copy, PartialEq, Eq, Debug)]
enum Tri {
    Upper,
    Lower,
}

impl Tri {
    fn lib(self) -> TriangularType {
        match self {
            Tri::Upper => TriangularType::Upper,
            Tri::Lower => TriangularType::Lower,
        }
    }
    fn flip(self) -> Tri {
        match self {
            Tri::Upper => Tri::Lower,
            Tri::Lower => Tri::Upper,
        }
    }
    fn inside(self, i: usize, j: usize) -> bool {
        match self {
            Tri::Upper => i < j,
            Tri::Lower => i > j,
        }
    }
}

/// Number of triangular operands of size n: diagonal from `units`, strict triangle from `off`,
/// the other strict triangle either not stored or (second variant, n >= 2) all explicitly
/// stored zeros.
fn tri_count(n: usize, units: usize, off: usize, wrong: bool) -> usize {
    let t = n * n.saturating_sub(1) / 2;
    count(units, n) * count(off, t) * if n >= 2 && wrong { 2 } else { 1 }
}

fn nth_tri<T: RefRing>(t: Tri, n: usize, units: &[T], off: &[Sym<T>], wrong: bool, mut idx: usize) -> Opd<T> {
    let wrong_side_stored = if n >= 2 && wrong {
        let b = idx % 2 == 1;
        idx /= 2;
        b
    } else {
        false
    };
    let mut c = vec![None; n * n];
    for i in 0..n {
        c[i * n + i] = Some(units[idx % units.len()].clone());
        idx /= units.len();
    }
    for i in 0..n {
        for j in 0..n {
            if t.inside(i, j) {
                c[i * n + j] = off[idx % off.len()].clone();
                idx /= off.len();
            } else if i != j && wrong_side_stored {
                c[i * n + j] = Some(T::zero());
            }
        }
    }
    Opd { m: n, n, c }
}

/// reference substitution: the x with A x = y for triangular A with unit diagonal entries
fn ref_solve<T: RefEuclid>(t: Tri, a: &RMat<T>, y: &[T]) -> Vec<T> {
    let n = a.n;
    let mut x = vec![T::zero(); n];
    let order: Vec<usize> = if t == Tri::Upper { (0..n).rev().collect() } else { (0..n).collect() };
    for &i in &order {
        let mut acc = y[i].clone();
        for j in 0..n {
            if j != i {
                acc = acc.sub(&a.at(i, j).mul(&x[j]));
            }
        }
        let inv = a.at(i, i).inverse().expect("diagonal entry is a unit");
        x[i] = acc.mul(&inv);
    }
    assert!(a.mul_vec(&x) == y, "reference substitution is wrong");
    x
}

/// `maxk` / `left_maxk`: number of right-hand-side columns (rows for the left solve);
/// `limit`: bound on (matrices) x (right-hand sides) per size and column count;
/// `wrong3`: whether size 3 also gets the "opposite triangle explicitly zero" variant
fn tri_sweep<R>(run: &Run, units: &[R::Ref], maxk: usize, left_maxk: usize, limit: usize, wrong3: bool) -> Vec<Value>
where
    R: Ring + Bridge,
    R::Ref: RefEuclid,
    for<'x> &'x R: RingOps<R>,
{
    let al = alphabets::<R::Ref>();
    let off = &al[0].syms;
    let mut plan = vec![];
    for n in 0..=3usize {
        let wrong = n < 3 || wrong3;
        let na = tri_count(n, units.len(), off.len(), wrong);
        // right-hand-side alphabets per number of columns
        let vec_alph = pick(&al, n, 2 * na, limit);
        let mut rhs: Vec<(usize, &Alph<R::Ref>)> = vec![];
        for k in 1..=maxk {
            rhs.push((k, pick(&al, n * k, 2 * na, limit)));
        }
        plan.push(json!({"n": n, "triangular_matrices": 2 * na, "opposite_triangle_stored_zero_variant": wrong && n >= 2,
            "vector_rhs": {"cells": vec_alph.name, "count": count(vec_alph.syms.len(), n)}, "left_solve_max_rows": left_maxk,
            "rhs_alphabet_by_columns": rhs.iter().map(|(k, a)| json!({"k": k, "cells": a.name, "count": count(a.syms.len(), n * k)})).collect::<Vec<_>>()}));
        let cols1: Vec<Vec<Sym<R::Ref>>> = (0..count(off.len(), n)).map(|i| nth_cells(n, off, i)).collect();
        for t in [Tri::Upper, Tri::Lower] {
            let chunk = 8;
            run.par_for(na.div_ceil(chunk), |c| {
                let ck = Ck::new(run, R::NAME);
                for idx in c * chunk..((c + 1) * chunk).min(na) {
                    tri_case::<R>(&ck, t, &nth_tri(t, n, units, off, wrong, idx), &cols1, vec_alph, &rhs, left_maxk);
                }
            });
            if run.over_budget() {
                run.cap("wall budget reached in the triangular sweep");
                return plan;
            }
        }
    }
    plan
}

/// everything for one triangular matrix
fn tri_case<R>(ck: &Ck, t: Tri, ao: &Opd<R::Ref>, cols1: &[Vec<Sym<R::Ref>>], vec_alph: &Alph<R::Ref>, rhs: &[(usize, &Alph<R::Ref>)], left_maxk: usize)
where
    R: Ring + Bridge,
    R::Ref: RefEuclid,
    for<'x> &'x R: RingOps<R>,
{
    let n = ao.n;
    let da = ao.dense();
    let dat = da.transpose();
    let a: SpMat<R> = match catch(|| build_sp::<R>(ao)) {
        Ok(a) => a,
        Err(p) => {
            ck.fail("build", &ao.show(), format!("building the operand panicked: {p}"));
            return;
        }
    };
    let a_sz = ao.stored_zeros() > 0 && pattern_kept(&a, ao);
    let tl = t.lib();
    let tn = if t == Tri::Upper { "U" } else { "L" };

    // ---- inverse ------------------------------------------------------------------------------------
    ck.eval(n > 0, a_sz);
    match catch(|| sp_r(&inv_triangular(tl, &a))) {
        Ok(x) => {
            if !(x.m == n && x.n == n && da.mul(&x).is_id() && x.mul(&da).is_id()) {
                ck.fail("inv_triangular", &format!("{tn}:{}", ao.show()), format!("A*X = {} for X = {}", if x.m == n && x.n == n { da.mul(&x).show() } else { "?".into() }, x.show()));
            }
        }
        Err(p) => ck.fail("inv_triangular", &format!("{tn}:{}", ao.show()), format!("panicked: {p}")),
    }

    // ---- one right-hand side: vector solve, one-column solve, one-row left solve -------------------------
    // reference solutions by column (A x = y) and by row (x A = y  <=>  A^T x^T = y^T)
    let mut xs: Vec<Vec<R::Ref>> = Vec::with_capacity(cols1.len());
    let mut xls: Vec<Vec<R::Ref>> = Vec::with_capacity(cols1.len());
    for c in cols1 {
        let y = dense_cells(c);
        xs.push(ref_solve(t, &da, &y));
        xls.push(ref_solve(t.flip(), &dat, &y));
    }
    let in_vec_alph = |c: &Vec<Sym<R::Ref>>| c.iter().all(|s| vec_alph.syms.contains(s));
    for (ci, c) in cols1.iter().enumerate().filter(|(_, c)| in_vec_alph(c)) {
        let nontriv = c.iter().any(|s| matches!(s, Some(v) if !v.is_zero()));
        let sz = a_sz || c.iter().any(|s| matches!(s, Some(v) if v.is_zero()));
        let args = || format!("{tn}:{}|y={}", ao.show(), show_cells(c));
        ck.eval(nontriv, sz);
        match catch(|| spv_r(&solve_triangular_vec(tl, &a, &build_spvec::<R>(c)))) {
            Ok(x) if x == xs[ci] => {}
            Ok(x) => ck.fail("solve_triangular_vec", &args(), format!("x = {} but A*x = y needs x = {}", show_vec(&x), show_vec(&xs[ci]))),
            Err(p) => ck.fail("solve_triangular_vec", &args(), format!("panicked: {p}")),
        }
    }

    // ---- k right-hand sides ------------------------------------------------------------------------------
    // k = 0
    for (op, shape) in [("solve_triangular", (n, 0)), ("solve_triangular_left", (0, n))] {
        ck.eval(false, a_sz);
        let y = SpMat::<R>::zero(shape);
        let r = catch(|| if op == "solve_triangular" { solve_triangular(tl, &a, &y).shape() } else { solve_triangular_left(tl, &a, &y).shape() });
        if r != Ok(shape) {
            ck.fail(op, &format!("{tn}:{}|Y={}x{}", ao.show(), shape.0, shape.1), format!("expected an empty {}x{} result, got {r:?}", shape.0, shape.1));
        }
    }
    for &(k, alph) in rhs {
        let syms = &alph.syms;
        let ncols = count(syms.len(), n);
        // index of a column of this alphabet within cols1 (alphabets are sub-alphabets of the full one)
        let full = &alphabets::<R::Ref>()[0].syms;
        let pos: Vec<usize> = syms.iter().map(|s| full.iter().position(|f| f == s).expect("sub-alphabet")).collect();
        let to_full = |mut ci: usize| -> usize {
            let mut out = 0;
            let mut mul = 1;
            for _ in 0..n {
                out += pos[ci % syms.len()] * mul;
                mul *= full.len();
                ci /= syms.len();
            }
            out
        };
        let fulls: Vec<usize> = (0..ncols).map(to_full).collect();
        let vecs: Vec<SpVec<R>> = fulls.iter().map(|&f| build_spvec::<R>(&cols1[f])).collect();
        let total = count(ncols, k);
        let mut sel = vec![0usize; k];
        for code in 0..total {
            let mut c = code;
            for s in sel.iter_mut() {
                *s = c % ncols;
                c /= ncols;
            }
            let nontriv = n > 0 && sel.iter().all(|&s| cols1[fulls[s]].iter().any(|x| matches!(x, Some(v) if !v.is_zero())));
            let sz = a_sz || sel.iter().any(|&s| cols1[fulls[s]].iter().any(|x| matches!(x, Some(v) if v.is_zero())));
            let args = || format!("{tn}:{}|Y={}", ao.show(), sel.iter().map(|&s| show_cells(&cols1[fulls[s]])).collect::<Vec<_>>().join(""));
            // A X = Y, Y given by its columns
            ck.eval(nontriv, sz);
            match catch(|| sp_r(&solve_triangular(tl, &a, &SpMat::from_col_vecs(n, sel.iter().map(|&s| vecs[s].clone()))))) {
                Ok(x) => {
                    let ok = x.m == n && x.n == k && (0..k).all(|j| x.col(j) == xs[fulls[sel[j]]]);
                    if !ok {
                        let exp = RMat::from_fn(n, k, |i, j| xs[fulls[sel[j]]][i].clone());
                        ck.fail("solve_triangular", &args(), format!("X = {} but A*X = Y needs X = {}", x.show(), exp.show()));
                    }
                }
                Err(p) => ck.fail("solve_triangular", &args(), format!("panicked: {p}")),
            }
            // X A = Y, Y given by its rows (same cell vectors)
            if k > left_maxk {
                continue;
            }
            ck.eval(nontriv, sz);
            match catch(|| sp_r(&solve_triangular_left(tl, &a, &SpMat::from_col_vecs(n, sel.iter().map(|&s| vecs[s].clone())).transpose()))) {
                Ok(x) => {
                    let ok = x.m == k && x.n == n && (0..k).all(|i| (0..n).all(|j| *x.at(i, j) == xls[fulls[sel[i]]][j]));
                    if !ok {
                        let exp = RMat::from_fn(k, n, |i, j| xls[fulls[sel[i]]][j].clone());
                        ck.fail("solve_triangular_left", &args(), format!("X = {} but X*A = Y needs X = {}", x.show(), exp.show()));
                    }
                }
                Err(p) => ck.fail("solve_triangular_left", &args(), format!("panicked: {p}")),
            }
        }
    }
}

// ------------------------------------------------------------------------------------------
// Schur complement
// ------------------------------------------------------------------------------------------

fn schur_sweep<R>(run: &Run, units: &[R::Ref], limit: usize) -> Vec<Value>
where
    R: Ring + Bridge,
    R::Ref: RefEuclid,
    for<'x> &'x R: RingOps<R>,
{
    let al = alphabets::<R::Ref>();
    let off = &al[0].syms;
    let mut plan = vec![];
    for m in 0..=3usize {
        for n in 0..=3usize {
            for r in 0..=m.min(n) {
                let free = m * n - r * r;
                let na = tri_count(r, units.len(), off.len(), true);
                let alph = pick(&al, free, 2 * na, limit);
                let nfree = count(alph.syms.len(), free);
                plan.push(json!({"shape": format!("{m}x{n}"), "r": r, "leading_blocks": 2 * na, "other_cells": alph.name, "matrices": 2 * na * nfree}));
                for t in [Tri::Upper, Tri::Lower] {
                    let total = na * nfree;
                    let chunk = 64;
                    run.par_for(total.div_ceil(chunk), |c| {
                        let ck = Ck::new(run, R::NAME);
                        for idx in c * chunk..((c + 1) * chunk).min(total) {
                            let ao = nth_tri(t, r, units, off, true, idx % na);
                            let rest = nth_cells(free, &alph.syms, idx / na);
                            let mut cells = Vec::with_capacity(m * n);
                            let mut k = 0;
                            for i in 0..m {
                                for j in 0..n {
                                    if i < r && j < r {
                                        cells.push(ao.at(i, j).clone());
                                    } else {
                                        cells.push(rest[k].clone());
                                        k += 1;
                                    }
                                }
                            }
                            schur_case::<R>(&ck, t, &Opd { m, n, c: cells }, r);
                        }
                    });
                    if run.over_budget() {
                        run.cap("wall budget reached in the Schur sweep");
                        return plan;
                    }
                }
            }
        }
    }
    plan
}

fn schur_case<R>(ck: &Ck, t: Tri, mo: &Opd<R::Ref>, r: usize)
where
    R: Ring + Bridge,
    R::Ref: RefEuclid,
    for<'x> &'x R: RingOps<R>,
{
    let (m, n) = (mo.m, mo.n);
    let dm = mo.dense();
    let tn = if t == Tri::Upper { "U" } else { "L" };
    let args = || format!("{tn}:r={r}:{}", mo.show());
    let msp: SpMat<R> = match catch(|| build_sp::<R>(mo)) {
        Ok(a) => a,
        Err(p) => {
            ck.fail("build", &args(), format!("building the operand panicked: {p}"));
            return;
        }
    };
    let sz = mo.stored_zeros() > 0 && pattern_kept(&msp, mo);
    // reference: S = D - C A^-1 B
    let (ra, rb): (Vec<usize>, Vec<usize>) = ((0..r).collect(), (r..m).collect());
    let (ca, cb): (Vec<usize>, Vec<usize>) = ((0..r).collect(), (r..n).collect());
    let (a, b, c, d) = (dm.submat(&ra, &ca), dm.submat(&ra, &cb), dm.submat(&rb, &ca), dm.submat(&rb, &cb));
    let mut x = RMat::zero(r, n - r);
    for j in 0..n - r {
        let col = ref_solve(t, &a, &b.col(j));
        for i in 0..r {
            x.set(i, j, col[i].clone());
        }
    }
    assert!(a.mul(&x) == b);
    let s_exp = d.sub(&c.mul(&x));
    let nontriv = r > 0 && r < m && r < n && !b.is_zero() && !c.is_zero();

    for with_trans in [false, true] {
        ck.eval(nontriv, sz);
        let op = if with_trans { "Schur(with_trans)" } else { "Schur" };
        let res = catch(|| {
            let sch = Schur::from_partial_triangular(t.lib(), &msp, r, with_trans);
            let s = sp_r(sch.complement());
            if s != s_exp {
                return Err(format!("complement = {} expected D - C A^-1 B = {}", s.show(), s_exp.show()));
            }
            match (sch.trans_src(), sch.trans_tgt()) {
                (None, None) if !with_trans => Ok(()),
                (Some(ts), Some(tt)) if with_trans => {
                    if (ts.src_dim(), ts.tgt_dim(), tt.src_dim(), tt.tgt_dim()) != (n, n - r, m, m - r) {
                        return Err(format!("transform dimensions src {}->{}, tgt {}->{}", ts.src_dim(), ts.tgt_dim(), tt.src_dim(), tt.tgt_dim()));
                    }
                    let (fs, bs) = (sp_r(&ts.forward_mat()), sp_r(&ts.backward_mat()));
                    let (ft, bt) = (sp_r(&tt.forward_mat()), sp_r(&tt.backward_mat()));
                    if (fs.m, fs.n, bs.m, bs.n) != (n - r, n, n, n - r) || (ft.m, ft.n, bt.m, bt.n) != (m - r, m, m, m - r) {
                        return Err(format!("transfer map shapes: F_src {} B_src {} F_tgt {} B_tgt {}", fs.show(), bs.show(), ft.show(), bt.show()));
                    }
                    let fmb = ft.mul(&dm).mul(&bs);
                    if fmb != s_exp {
                        return Err(format!("F_tgt*M*B_src = {} expected S = {} (F_tgt = {}, B_src = {})", fmb.show(), s_exp.show(), ft.show(), bs.show()));
                    }
                    if !fs.mul(&bs).is_id() {
                        return Err(format!("source transform: F*B = {} is not the identity", fs.mul(&bs).show()));
                    }
                    if !ft.mul(&bt).is_id() {
                        return Err(format!("target transform: F*B = {} is not the identity", ft.mul(&bt).show()));
                    }
                    // Not stated by the property, recorded only: F_tgt*M = S*F_src and M*B_src = B_tgt*S
                    // (the two identities above hold as soon as ONE of F_tgt, B_src is right).
                    ck.chain_checked.set(ck.chain_checked.get() + 1);
                    if ft.mul(&dm) != s_exp.mul(&fs) || dm.mul(&bs) != bt.mul(&s_exp) {
                        ck.chain_failed.set(ck.chain_failed.get() + 1);
                    }
                    Ok(())
                }
                (s, u) => Err(format!("with_trans={with_trans} but trans_src is {} and trans_tgt is {}", if s.is_some() { "Some" } else { "None" }, if u.is_some() { "Some" } else { "None" })),
            }
        });
        match res {
            Ok(Ok(())) => {}
            Ok(Err(w)) => ck.fail(op, &args(), w),
            Err(p) => ck.fail(op, &args(), format!("panicked: {p}")),
        }
    }
}

// ------------------------------------------------------------------------------------------
// direct-sum decomposition
// ------------------------------------------------------------------------------------------

/// connected components (with at least one edge) of the bipartite row/column graph of the
/// non-zero entries: sorted list of (rows, cols) sizes
fn ref_components<T: RefRing>(d: &RMat<T>) -> Vec<(usize, usize)> {
    let (m, n) = (d.m, d.n);
    let mut comp: Vec<usize> = (0..m + n).collect(); // naive labels
    loop {
        let mut changed = false;
        for i in 0..m {
            for j in 0..n {
                if !d.at(i, j).is_zero() && comp[i] != comp[m + j] {
                    let (lo, hi) = (comp[i].min(comp[m + j]), comp[i].max(comp[m + j]));
                    for c in comp.iter_mut() {
                        if *c == hi {
                            *c = lo;
                        }
                    }
                    changed = true;
                }
            }
        }
        if !changed {
            break;
        }
    }
    let mut out = vec![];
    for l in 0..m + n {
        let rows = (0..m).filter(|&i| comp[i] == l).count();
        let cols = (0..n).filter(|&j| comp[m + j] == l).count();
        if rows > 0 && cols > 0 {
            out.push((rows, cols));
        }
    }
    out.sort();
    out
}

fn decomp_case<R>(ck: &Ck, o: &Opd<R::Ref>)
where
    R: Ring + Bridge + std::fmt::Display,
    for<'x> &'x R: RingOps<R>,
{
    let (m, n) = (o.m, o.n);
    let d = o.dense();
    let args = || o.show();
    let a: SpMat<R> = match catch(|| build_sp::<R>(o)) {
        Ok(a) => a,
        Err(p) => {
            ck.fail("build", &args(), format!("building the operand panicked: {p}"));
            return;
        }
    };
    let has_sz = o.stored_zeros() > 0;
    let comps = ref_components(&d);
    ck.eval(comps.len() >= 2 || (comps.len() == 1 && comps[0] != (m, n)), has_sz && pattern_kept(&a, o));
    let res = catch(|| {
        let (p, q, blocks) = dir_sum_decomp(a.clone());
        let pv: Vec<usize> = (0..m).map(|i| p.at(i)).collect();
        let qv: Vec<usize> = (0..n).map(|j| q.at(j)).collect();
        let is_perm = |v: &[usize]| {
            let mut s = v.to_vec();
            s.sort();
            s == (0..v.len()).collect::<Vec<_>>()
        };
        if p.dim() != m || q.dim() != n || !is_perm(&pv) || !is_perm(&qv) {
            return Err(format!("p = {pv:?} (dim {}), q = {qv:?} (dim {}) are not permutations of the rows/columns", p.dim(), q.dim()));
        }
        // permuted matrix: entry (i,j) goes to (p(i), q(j))
        let mut perm = RMat::zero(m, n);
        for i in 0..m {
            for j in 0..n {
                perm.set(pv[i], qv[j], d.at(i, j).clone());
            }
        }
        let bl: Vec<RMat<R::Ref>> = blocks.iter().map(|b| sp_r(b)).collect();
        let (tr, tc) = (bl.iter().map(|b| b.m).sum::<usize>(), bl.iter().map(|b| b.n).sum::<usize>());
        let shown = || bl.iter().map(|b| b.show()).collect::<Vec<_>>().join(" (+) ");
        if tr > m || tc > n {
            return Err(format!("blocks {} do not fit into {m}x{n}", shown()));
        }
        let mut exp = RMat::zero(m, n);
        let (mut r0, mut c0) = (0, 0);
        for b in &bl {
            for i in 0..b.m {
                for j in 0..b.n {
                    exp.set(r0 + i, c0 + j, b.at(i, j).clone());
                }
            }
            r0 += b.m;
            c0 += b.n;
        }
        if perm != exp {
            return Err(format!("permuted matrix {} (p = {pv:?}, q = {qv:?}) is not the block sum {} = {}", perm.show(), shown(), exp.show()));
        }
        if !has_sz {
            // no block may split further: every block is one connected component on all its rows/columns
            for b in &bl {
                if ref_components(b) != vec![(b.m, b.n)] {
                    return Err(format!("block {} of {} splits further", b.show(), shown()));
                }
            }
            let mut shapes: Vec<(usize, usize)> = bl.iter().map(|b| (b.m, b.n)).collect();
            shapes.sort();
            if shapes != comps {
                return Err(format!("block shapes {shapes:?} differ from the connected components {comps:?}"));
            }
        }
        Ok(())
    });
    match res {
        Ok(Ok(())) => {}
        Ok(Err(w)) => ck.fail("dir_sum_decomp", &args(), w),
        Err(p) => ck.fail("dir_sum_decomp", &args(), format!("panicked: {p}")),
    }
}

fn decomp_sweep<R>(run: &Run, shapes: &[(usize, usize)], syms: &[Sym<R::Ref>], name: &str) -> Value
where
    R: Ring + Bridge + std::fmt::Display,
    for<'x> &'x R: RingOps<R>,
{
    let mut total = 0usize;
    for &(m, n) in shapes {
        let cnt = count(syms.len(), m * n);
        total += cnt;
        let chunk = 256;
        run.par_for(cnt.div_ceil(chunk), |c| {
            let ck = Ck::new(run, R::NAME);
            for idx in c * chunk..((c + 1) * chunk).min(cnt) {
                decomp_case::<R>(&ck, &Opd { m, n, c: nth_cells(m * n, syms, idx) });
            }
        });
        if run.over_budget() {
            run.cap("wall budget reached in the dir_sum_decomp sweep");
            break;
        }
    }
    json!({"ring": R::NAME, "cells": name, "shapes": shapes.iter().map(|(m, n)| format!("{m}x{n}")).collect::<Vec<_>>(), "matrices": total})
}

// ------------------------------------------------------------------------------------------

fn sequential_part(run: &Run) -> Value {
    let th = run.thorough();
    let mut timing = vec![];
    let mut t0 = run.elapsed();
    let mut lap = |run: &Run, what: &str| {
        let now = run.elapsed();
        timing.push(json!({"part": what, "wall_s": ((now - t0) * 10.0).round() / 10.0}));
        t0 = now;
    };
    use vcore::refnum::{Fp, Quad, Q};
    let z = |i: i64| <vcore::refnum::Z as RefRing>::from_i64(i);
    let uz = vec![z(1), z(-1)];
    let uq = vec![Q::int(1), Q::int(-1), Q::int(2), Q::new(z(1), z(2))];
    let uf: Vec<Fp<5>> = (1..5).map(Fp).collect();
    let ug: Vec<Quad<-1>> = vec![Quad::of(1, 0), Quad::of(-1, 0), Quad::of(0, 1), Quad::of(0, -1)];

    // triangular solves: (number of matrices) x (right-hand sides) per (n, k) stays below `lim`
    // quick: i64 complete; the rings with 4 diagonal units get size 3 without the
    // "opposite triangle explicitly zero" variant, smaller right-hand-side alphabets and the
    // left solve with one row only
    let (maxk, lim_z, lim, left, wrong3) = if th { (3, 60_000_000, 60_000_000, 3, true) } else { (2, 2_500_000, 600_000, 1, false) };
    let mut tri = vec![];
    tri.push(json!({"ring": "i64", "plan": tri_sweep::<i64>(run, &uz, maxk, maxk, lim_z, true)}));
    lap(run, "triangular i64");
    tri.push(json!({"ring": "Ratio<i64>", "plan": tri_sweep::<Ratio<i64>>(run, &uq, maxk, left, lim, wrong3)}));
    lap(run, "triangular Ratio<i64>");
    tri.push(json!({"ring": "FF<5>", "plan": tri_sweep::<FF<5>>(run, &uf, maxk, left, lim, wrong3)}));
    lap(run, "triangular FF<5>");
    tri.push(json!({"ring": "GaussInt<i64>", "plan": tri_sweep::<GaussInt<i64>>(run, &ug, maxk, left, lim, wrong3)}));
    lap(run, "triangular GaussInt<i64>");

    let slim = if th { 8_000_000 } else { 30_000 };
    let mut sch = vec![];
    sch.push(json!({"ring": "i64", "plan": schur_sweep::<i64>(run, &uz, slim)}));
    sch.push(json!({"ring": "Ratio<i64>", "plan": schur_sweep::<Ratio<i64>>(run, &uq, slim)}));
    sch.push(json!({"ring": "FF<5>", "plan": schur_sweep::<FF<5>>(run, &uf, slim)}));
    sch.push(json!({"ring": "GaussInt<i64>", "plan": schur_sweep::<GaussInt<i64>>(run, &ug, slim)}));
    lap(run, "Schur");

    let mut shapes = vec![];
    for m in 0..=3usize {
        for n in 0..=4usize {
            shapes.push((m, n));
        }
    }
    let mut dec = vec![];
    dec.push(decomp_sweep::<i64>(run, &shapes, &symbols::<vcore::refnum::Z>(true, true, &[1]), "{., 0, 1}"));
    if th {
        let tall: Vec<(usize, usize)> = (0..=4usize).map(|n| (4, n)).collect();
        dec.push(decomp_sweep::<i64>(run, &tall[..4], &symbols::<vcore::refnum::Z>(true, true, &[1]), "{., 0, 1}"));
        dec.push(decomp_sweep::<i64>(run, &[(4, 4)], &symbols::<vcore::refnum::Z>(true, false, &[1]), "{., 1}"));
        let small: Vec<(usize, usize)> = shapes.iter().cloned().filter(|(m, n)| m * n <= 9).collect();
        dec.push(decomp_sweep::<Ratio<i64>>(run, &small, &symbols::<Q>(true, true, &[1, -1]), "{., 0, 1, -1}"));
        dec.push(decomp_sweep::<FF<5>>(run, &small, &symbols::<Fp<5>>(true, true, &[1, 2]), "{., 0, 1, 2}"));
    }
    lap(run, "dir_sum_decomp");

    run.sample(json!({"op": "solve_triangular", "ring": "Ratio<i64>", "type": "Upper", "A": "3x3[1/2 2 .;. -1 0;0 0 2]", "Y": "[1 . 0][. -1 2]",
        "meaning": "'.' = zero not stored, '0' = explicitly stored zero; checked: A*X = Y (X compared with the unique reference solution)"}));
    run.sample(json!({"op": "Schur::from_partial_triangular", "ring": "i64", "type": "Lower", "r": 2, "M": "3x3[1 0 2;-1 -1 .;2 0 1]",
        "checked": "complement = D - C A^-1 B; F_tgt*M*B_src = S; F*B = I for the source and the target transform; None/None without transforms"}));
    run.sample(json!({"op": "dir_sum_decomp", "ring": "i64", "M": "3x4[1 . . .;. . 1 0;. 1 . .]",
        "checked": "p, q permutations; permuted matrix = block sum (+ zero rows/columns last); without stored zeros: every block connected, block shapes = connected components"}));

    json!({
        "triangular": tri,
        "schur": sch,
        "dir_sum_decomp": dec,
        "timing": timing,
    })
}

fn main() {
    let run = Run::new("C12", "model_checking");

    let sequential = sequential_part(&run);

    // ---- thread-schedule exploration ---------------------------------------------------------
    let schedules = checks::c12sched::schedule_part(&run);
    // ------------------------------------------------------------------------------------------

    if run.get("schur_commuting_squares_failed") > 0 {
        println!("NOTE property=C12 (not a verdict): {} of {} Schur transfer-map pairs violate F_tgt*M = S*F_src / M*B_src = B_tgt*S", run.get("schur_commuting_squares_failed"), run.get("schur_commuting_squares_checked"));
    }
    if run.get("inputs_with_stored_zero") == 0 {
        run.cap("no operand with an explicitly stored zero could be constructed");
    }
    let coverage = json!({
        "evaluations": run.get("evaluations"),
        "distinct_nontrivial": run.get("inputs_nontrivial"),
        "inputs_with_stored_zero": run.get("inputs_with_stored_zero"),
        "rule": "one evaluation = one call of a kernel (solve_triangular, _left, _vec, inv_triangular, Schur::from_partial_triangular with/without transforms, dir_sum_decomp) on one input tuple, judged with reference arithmetic; inputs are enumerated completely as cell assignments (not stored / stored 0 / values) within the bounds listed under 'sequential', hence pairwise distinct; nontrivial = size > 0 and every right-hand-side column non-zero (solves), 0 < r < min(m,n) with B, C non-zero (Schur), a matrix that really splits (decomposition)",
        "sequential": sequential,
        "schedules": schedules.json,
        "states": schedules.points + schedules.executions,
        "transitions": schedules.points + schedules.executions,
        "traces_validated_against_impl": schedules.executions,
        "informational_not_in_verdict": {
            "schur_commuting_squares_checked": run.get("schur_commuting_squares_checked"),
            "schur_commuting_squares_failed": run.get("schur_commuting_squares_failed"),
            "what": "F_tgt*M = S*F_src and M*B_src = B_tgt*S; the property only states F_tgt*M*B_src = S and F*B = I, which a sign error in exactly one of F_tgt / B_src does not violate",
        },
        "exhaustive": true,
    });
    run.finish(
        coverage,
        &[
            "triangular matrices: size 0..=3, upper and lower, diagonal over the listed units of the ring, strict triangle over {not stored, stored 0, 1, -1, 2}, opposite triangle not stored or entirely explicit zeros",
            "right-hand sides / free Schur cells: the largest cell alphabet of {., 0, 1, -1, 2} > {., 0, 1, -1} > {., 1, 2} > {., 1} whose complete enumeration fits the per-shape budget; one-column right-hand sides always use the full alphabet",
            "A is invertible (unit diagonal), so 'A*X = Y' is checked by comparing X with the unique reference solution obtained by substitution in vcore::refnum arithmetic (self-checked: A*x = y)",
            "operands with explicitly stored zeros are built with SpVec::from_sorted_entries + SpMat::from_col_vecs",
            "sequential part: the rayon stand-in executes parallel items in index order on the calling thread; consecutive columns therefore share one thread-local scratch vector",
            "schedule part: the same kernels under the shim-rayon explorer: every assignment of the right-hand-side columns to W in {1,2} (thorough 3) persistent workers in every per-worker order, two consecutive solves per execution; Schur with W = 2; dir_sum_decomp: all interleavings of the Mutex acquisitions within preemption bound 2 (thorough 3); every schedule's value must equal the exact value",
            "zero rows/columns of a decomposition are expected after the blocks (as perm_for_indices places them)",
        ],
    );
}
