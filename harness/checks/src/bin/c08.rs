//! C08 — chain reduction is a homotopy equivalence with correct transfer maps.
//!
//! SEQUENTIAL PART (this file, `sequential_part`): operation-sequence exploration of `ChainReducer`.
//!
//! Inputs (complete, never sampled): every chain complex  C_{L-1} -> ... -> C_1 -> C_0  with
//! L in 1..=3 modules of rank 0..=2 and entries in {0,1,-1,2} (Z[H]: {0,1,H,-1}), kept iff all
//! consecutive products vanish in the reference ring; quick also runs L = 4, ranks <= 2 over
//! {0,1}; thorough adds L = 4 (ranks <= 2, alphabet {0,1,-1}, Z[H]: {0,1,H}), L <= 3 with
//! ranks <= 3 over the two-letter alphabet {0,1}, and for Z[H] L <= 2, ranks <= 3 over {0,1,H}.
//! (L = 4 together with rank 3 is not run: 6*10^5 .. 10^6 complexes per ring.)  Rings: Z (i64),
//! Q (Ratio<i64>), F2, F3, Z[H] (Poly<'H', i64>).  Plus the repository's own d3, s2, t2, rp2.
//!
//! Exploration: explicit-state BFS (`vcore::bfs`).  A state is the full observable content of a
//! `ChainReducer` (all current differentials, forward/backward transfer matrices, tracked vectors)
//! in canonical reference form.  `ChainReducer` is not `Clone`; a state is re-instantiated through
//! the public API (`new`, `set_matrix`, `trans_mut`, `add_vec`), which restores every field of the
//! struct exactly, and additionally every discovered state's history is replayed from
//! `ChainReducer::from(&complex, true)` and judged again.  Actions: `reduce_at_spec(i, Rows|Cols,
//! One|AnyUnit|Weight(1)|Weight(2))`, `reduce_at(i, shallow|deep)` for every i in the support,
//! `reduce_all(shallow|deep)`.  Depth 3 (quick) / until no action changes any state (thorough).
//!
//! Oracle in EVERY state, all products in `vcore::refmat::RMat`:
//!   d'd' = 0;  F_{i-1} d_i = d'_i F_i;  d_i B_i = B_{i-1} d'_i;  F_i B_i = I;
//!   reference homology (rank over the fraction field + non-unit Smith invariants) of (C',d')
//!   equals that of (C,d);  tracked vector = F (original vector);
//! one-shot entry points per complex: `ChainReducer::reduce(c, true|false)` for d_deg = -1 and +1,
//! `into_complex()`, a transform-less run whose tracked unit vectors must assemble to a chain map,
//! `ChainComplexBase::reduced()` (d_matrix, ranks and the summands' transforms).
//!
//! Z[H] is not a PID.  All identities are checked as polynomial identities (reference ring Q[H],
//! which contains Z[H]); "same homology" is checked after base change to Q[H] (rank + invariant
//! factors) and after the specialisations H -> 0, 1, 2, -1 into Z (rank + invariant factors) —
//! necessary consequences of a homotopy equivalence over Z[H], not the Z[H]-module itself.

use checks::bridge::Bridge;
use std::hash::{Hash, Hasher};
use std::sync::atomic::{AtomicU64, Ordering};
use vcore::bfs::bfs;
use vcore::refmat::{same_factor_multiset, RMat};
use vcore::refnum::*;
use vcore::{catch, json, Run, Value};
use yui::poly::{Mono, Poly, Var};
use yui::{Ratio, Ring, RingOps, FF, FF2};
use yui_homology::utils::ChainReducer;
use yui_homology::{ChainComplexTrait, GenericChainComplex, GridTrait};
use yui_matrix::sparse::pivot::{PivotCondition, PivotType};
use yui_matrix::sparse::{SpMat, SpVec, Trans};
use yui_matrix::MatTrait;

// ---------------------------------------------------------------------------------------------
// scalars (local trait: Bridge has no Poly<'H', i64>)
// ---------------------------------------------------------------------------------------------

trait Sc: Ring + Send + Sync + 'static
where
    for<'x> &'x Self: RingOps<Self>,
{
    type Ref: RefEuclid;
    const NAME: &'static str;
    fn to_r(&self) -> Self::Ref;
    fn from_r(r: &Self::Ref) -> Self;
    /// points h at which Ref -> Z, H |-> h is used for an additional homology comparison
    fn points() -> Vec<i64> {
        vec![]
    }
    fn specialise(_r: &Self::Ref, _h: i64) -> Z {
        unreachable!()
    }
}

macro_rules! sc_via_bridge {
    ($t:ty) => {
        impl Sc for $t {
            type Ref = <$t as Bridge>::Ref;
            const NAME: &'static str = <$t as Bridge>::NAME;
            fn to_r(&self) -> Self::Ref {
                Bridge::to_ref(self)
            }
            fn from_r(r: &Self::Ref) -> Self {
                <$t as Bridge>::from_ref(r)
            }
        }
    };
}
sc_via_bridge!(i64);
sc_via_bridge!(Ratio<i64>);
sc_via_bridge!(FF2);
sc_via_bridge!(FF<3>);

type ZH = Poly<'H', i64>;

impl Sc for ZH {
    /// Z[H] inside Q[H]
    type Ref = UPoly<Q>;
    const NAME: &'static str = "Poly<H,i64>";
    fn to_r(&self) -> UPoly<Q> {
        let mut c: Vec<Q> = vec![];
        for (x, a) in self.iter() {
            let d: usize = x.deg();
            if c.len() <= d {
                c.resize(d + 1, Q::int(0));
            }
            c[d] = c[d].add(&Q::int(*a));
        }
        UPoly::new(c)
    }
    fn from_r(r: &UPoly<Q>) -> Self {
        use num_traits::ToPrimitive;
        r.c.iter()
            .enumerate()
            .filter(|(_, a)| !RefRing::is_zero(*a))
            .map(|(i, a)| {
                assert!(RefRing::is_one(&a.d), "non-integral coefficient for Z[H]");
                (Var::<'H', usize>::from(i), a.n.to_i64().expect("coefficient fits i64"))
            })
            .collect()
    }
    fn points() -> Vec<i64> {
        vec![0, 1, 2, -1]
    }
    fn specialise(r: &UPoly<Q>, h: i64) -> Z {
        let v = r.eval(&Q::int(h));
        assert!(RefRing::is_one(&v.d));
        v.n
    }
}

fn to_sp<T: Sc>(m: &RMat<T::Ref>) -> SpMat<T>
where
    for<'x> &'x T: RingOps<T>,
{
    let mut e = vec![];
    for i in 0..m.m {
        for j in 0..m.n {
            if !RefRing::is_zero(m.at(i, j)) {
                e.push((i, j, T::from_r(m.at(i, j))));
            }
        }
    }
    SpMat::from_entries((m.m, m.n), e)
}

fn from_sp<T: Sc>(a: &SpMat<T>) -> RMat<T::Ref>
where
    for<'x> &'x T: RingOps<T>,
{
    let (m, n) = a.shape();
    let mut r = RMat::<T::Ref>::zero(m, n);
    for (i, j, x) in a.iter() {
        let v = r.at(i, j).add(&x.to_r());
        r.set(i, j, v);
    }
    r
}

fn vec_to_sp<T: Sc>(v: &[T::Ref]) -> SpVec<T>
where
    for<'x> &'x T: RingOps<T>,
{
    SpVec::from_entries(v.len(), v.iter().enumerate().filter(|(_, x)| !RefRing::is_zero(*x)).map(|(i, x)| (i, T::from_r(x))))
}

fn vec_from_sp<T: Sc>(v: &SpVec<T>) -> Vec<T::Ref>
where
    for<'x> &'x T: RingOps<T>,
{
    let mut r = vec![<T::Ref as RefRing>::zero(); v.dim()];
    for (i, x) in v.iter() {
        r[i] = r[i].add(&x.to_r());
    }
    r
}

fn show_vec<F: RefRing>(v: &[F]) -> String {
    format!("[{}]", v.iter().map(|x| x.show()).collect::<Vec<_>>().join(","))
}

// ---------------------------------------------------------------------------------------------
// reference side: complexes, homology signature, the oracle
// ---------------------------------------------------------------------------------------------

type Sig<F> = Vec<(usize, Vec<F>)>;

/// (free rank, non-unit invariant factors) of H_k for k = 0..L-1;  d[k]: C_k -> C_{k-1}
fn homology_sig<F: RefEuclid>(d: &[RMat<F>]) -> Sig<F> {
    let l = d.len();
    (0..l)
        .map(|k| {
            let n = d[k].n;
            let rk_out = d[k].rank();
            let (rk_in, tors) = if k + 1 < l {
                (d[k + 1].rank(), d[k + 1].invariant_factors().into_iter().filter(|x| !x.is_unit()).collect())
            } else {
                (0, vec![])
            };
            assert!(n >= rk_out + rk_in, "reference: not a complex");
            (n - rk_out - rk_in, tors)
        })
        .collect()
}

fn same_sig<F: RefEuclid>(a: &Sig<F>, b: &Sig<F>) -> bool {
    a.len() == b.len() && a.iter().zip(b).all(|(x, y)| x.0 == y.0 && same_factor_multiset(&x.1, &y.1))
}

fn show_sig<F: RefEuclid>(a: &Sig<F>) -> String {
    a.iter().map(|(r, t)| format!("(rank {r}, torsion {})", show_vec(t))).collect::<Vec<_>>().join(" ")
}

struct Cx<T: Sc>
where
    for<'x> &'x T: RingOps<T>,
{
    /// d[k]: C_k -> C_{k-1}, shape n_{k-1} x n_k; d[0] has 0 rows
    d: Vec<RMat<T::Ref>>,
    sig: Sig<T::Ref>,
    /// per specialisation point: the specialised signature over Z
    spec_sigs: Vec<Sig<Z>>,
    /// tracked vectors per degree: all unit vectors of C_k, then the columns of d[k+1]
    tracked: Vec<Vec<Vec<T::Ref>>>,
    id: String,
}

fn specialised<T: Sc>(d: &[RMat<T::Ref>], h: i64) -> Vec<RMat<Z>>
where
    for<'x> &'x T: RingOps<T>,
{
    d.iter().map(|m| RMat::from_fn(m.m, m.n, |i, j| T::specialise(m.at(i, j), h))).collect()
}

impl<T: Sc> Cx<T>
where
    for<'x> &'x T: RingOps<T>,
{
    fn new(d: Vec<RMat<T::Ref>>, name: Option<&str>) -> Self {
        let l = d.len();
        assert!(l >= 1 && d[0].m == 0);
        for k in 1..l {
            assert_eq!(d[k].m, d[k - 1].n);
            assert!(d[k - 1].mul(&d[k]).is_zero());
        }
        let sig = homology_sig(&d);
        let spec_sigs = T::points().iter().map(|&h| homology_sig(&specialised::<T>(&d, h))).collect();
        let tracked = (0..l)
            .map(|k| {
                let n = d[k].n;
                let mut v: Vec<Vec<T::Ref>> = (0..n).map(|j| (0..n).map(|i| if i == j { <T::Ref>::one() } else { <T::Ref>::zero() }).collect()).collect();
                if k + 1 < l {
                    for j in 0..d[k + 1].n {
                        v.push(d[k + 1].col(j));
                    }
                }
                v
            })
            .collect();
        let id = match name {
            Some(s) => s.to_string(),
            None => d.iter().skip(1).map(|m| m.show()).collect::<Vec<_>>().join(";") + &format!(";n0={}", d[0].n),
        };
        Cx { d, sig, spec_sigs, tracked, id }
    }
    fn len(&self) -> usize {
        self.d.len()
    }
    /// the library complex; `up`: module k sits in degree L-1-k and d_deg = +1
    fn build(&self, up: bool) -> GenericChainComplex<T> {
        let l = self.len() as isize;
        let mats: Vec<SpMat<T>> = self.d.iter().map(|m| to_sp::<T>(m)).collect();
        GenericChainComplex::generate(0..l, if up { 1 } else { -1 }, move |g| {
            let k = if up { l - 1 - g } else { g };
            mats[k as usize].clone()
        })
    }
}

/// what is observed of a reducer (or of `reduced()`), module-indexed
#[derive(Clone, PartialEq, Eq, Hash)]
struct Obs<F: RefEuclid> {
    d: Vec<RMat<F>>,
    f: Option<Vec<RMat<F>>>,
    b: Option<Vec<RMat<F>>>,
    vecs: Option<Vec<Vec<Vec<F>>>>,
}

fn check_state<T: Sc>(cx: &Cx<T>, o: &Obs<T::Ref>) -> Result<(), String>
where
    for<'x> &'x T: RingOps<T>,
{
    let l = cx.len();
    if o.d.len() != l {
        return Err(format!("{} differentials observed, expected {l}", o.d.len()));
    }
    // shapes
    if o.d[0].m != 0 {
        return Err(format!("d'_0 has {} rows, expected 0", o.d[0].m));
    }
    for k in 1..l {
        if o.d[k].m != o.d[k - 1].n {
            return Err(format!("d'_{k} is {}x{} but C'_{} has rank {}", o.d[k].m, o.d[k].n, k - 1, o.d[k - 1].n));
        }
    }
    for k in 1..l {
        let p = o.d[k - 1].mul(&o.d[k]);
        if !p.is_zero() {
            return Err(format!("d'_{} d'_{k} = {} is non-zero (d'_{} = {}, d'_{k} = {})", k - 1, p.show(), k - 1, o.d[k - 1].show(), o.d[k].show()));
        }
    }
    if let Some(f) = &o.f {
        for k in 0..l {
            if (f[k].m, f[k].n) != (o.d[k].n, cx.d[k].n) {
                return Err(format!("F_{k} is {}x{}, expected {}x{}", f[k].m, f[k].n, o.d[k].n, cx.d[k].n));
            }
        }
        for k in 1..l {
            let (lhs, rhs) = (f[k - 1].mul(&cx.d[k]), o.d[k].mul(&f[k]));
            if lhs != rhs {
                return Err(format!(
                    "forward map is not a chain map at degree {k}: F_{} d_{k} = {} but d'_{k} F_{k} = {}  (F_{} = {}, F_{k} = {}, d'_{k} = {})",
                    k - 1, lhs.show(), rhs.show(), k - 1, f[k - 1].show(), f[k].show(), o.d[k].show()
                ));
            }
        }
    }
    if let Some(b) = &o.b {
        for k in 0..l {
            if (b[k].m, b[k].n) != (cx.d[k].n, o.d[k].n) {
                return Err(format!("B_{k} is {}x{}, expected {}x{}", b[k].m, b[k].n, cx.d[k].n, o.d[k].n));
            }
        }
        for k in 1..l {
            let (lhs, rhs) = (cx.d[k].mul(&b[k]), b[k - 1].mul(&o.d[k]));
            if lhs != rhs {
                return Err(format!(
                    "backward map is not a chain map at degree {k}: d_{k} B_{k} = {} but B_{} d'_{k} = {}  (B_{} = {}, B_{k} = {}, d'_{k} = {})",
                    lhs.show(), k - 1, rhs.show(), k - 1, b[k - 1].show(), b[k].show(), o.d[k].show()
                ));
            }
        }
    }
    if let (Some(f), Some(b)) = (&o.f, &o.b) {
        for k in 0..l {
            let p = f[k].mul(&b[k]);
            if !p.is_id() {
                return Err(format!("F_{k} B_{k} = {} is not the identity", p.show()));
            }
        }
    }
    // homology
    let sig = homology_sig(&o.d);
    if !same_sig(&sig, &cx.sig) {
        return Err(format!("homology changed: original {} ; reduced {}", show_sig(&cx.sig), show_sig(&sig)));
    }
    for (pi, h) in T::points().iter().enumerate() {
        let s = homology_sig(&specialised::<T>(&o.d, *h));
        if !same_sig(&s, &cx.spec_sigs[pi]) {
            return Err(format!("homology over Z after H -> {h} changed: original {} ; reduced {}", show_sig(&cx.spec_sigs[pi]), show_sig(&s)));
        }
    }
    // tracked vectors
    if let (Some(f), Some(vs)) = (&o.f, &o.vecs) {
        for k in 0..l {
            if vs[k].len() != cx.tracked[k].len() {
                return Err(format!("{} tracked vectors in degree {k}, {} were added", vs[k].len(), cx.tracked[k].len()));
            }
            for (j, v) in vs[k].iter().enumerate() {
                let want = f[k].mul_vec(&cx.tracked[k][j]);
                if *v != want {
                    return Err(format!(
                        "tracked vector {} in degree {k} became {} but F_{k} v = {}",
                        show_vec(&cx.tracked[k][j]), show_vec(v), show_vec(&want)
                    ));
                }
            }
        }
    }
    Ok(())
}

// ---------------------------------------------------------------------------------------------
// implementation side
// ---------------------------------------------------------------------------------------------

#[derive(Clone, Copy, Debug)]
enum Act {
    Spec(usize, PivotType, PivotCondition),
    At(usize, bool),
    All(bool),
}

fn actions(l: usize) -> Vec<Act> {
    let mut v = vec![];
    for k in 0..l {
        for t in [PivotType::Rows, PivotType::Cols] {
            for c in [PivotCondition::One, PivotCondition::AnyUnit, PivotCondition::Weight(1.0), PivotCondition::Weight(2.0)] {
                v.push(Act::Spec(k, t, c));
            }
        }
        v.push(Act::At(k, false));
        v.push(Act::At(k, true));
    }
    v.push(Act::All(false));
    v.push(Act::All(true));
    v
}

fn show_hist(l: usize, h: &[u8]) -> String {
    let a = actions(l);
    h.iter()
        .map(|&i| match a[i as usize] {
            Act::Spec(k, t, c) => format!("spec({k},{t:?},{c:?})"),
            Act::At(k, deep) => format!("at({k},{})", if deep { "deep" } else { "shallow" }),
            Act::All(deep) => format!("all({})", if deep { "deep" } else { "shallow" }),
        })
        .collect::<Vec<_>>()
        .join(">")
}

fn apply<T: Sc>(r: &mut ChainReducer<isize, T>, a: Act)
where
    for<'x> &'x T: RingOps<T>,
{
    match a {
        Act::Spec(k, t, c) => {
            r.reduce_at_spec(k as isize, t, c);
        }
        Act::At(k, deep) => r.reduce_at(k as isize, deep),
        Act::All(deep) => r.reduce_all(deep),
    }
}

/// the library objects of a reducer state, degree g in -1..L-1 stored at g+1
#[derive(Clone)]
struct Payload<T: Sc>
where
    for<'x> &'x T: RingOps<T>,
{
    mats: Vec<SpMat<T>>,
    trans: Vec<Trans<T>>,
    /// forward_mat() / backward_mat() of `trans`, as computed by the library
    fwd: Vec<SpMat<T>>,
    bwd: Vec<SpMat<T>>,
    vecs: Vec<Vec<SpVec<T>>>,
}

/// true iff every observable of the reducer equals the payload it was instantiated from
/// (library-level equality of all matrices, transfer matrices and tracked vectors)
fn unchanged<T: Sc>(r: &ChainReducer<isize, T>, p: &Payload<T>, l: usize) -> bool
where
    for<'x> &'x T: RingOps<T>,
{
    for g in -1..l as isize {
        let i = (g + 1) as usize;
        if r.matrix(g) != Some(&p.mats[i]) {
            return false;
        }
        let Some(t) = r.trans(g) else { return false };
        if t.src_dim() != p.trans[i].src_dim() || t.tgt_dim() != p.trans[i].tgt_dim() || t.forward_mat() != p.fwd[i] || t.backward_mat() != p.bwd[i] {
            return false;
        }
        let same_vecs = match r.vecs(g) {
            Some(v) => *v == p.vecs[i],
            None => p.vecs[i].is_empty(),
        };
        if !same_vecs {
            return false;
        }
    }
    true
}

fn snapshot<T: Sc>(r: &ChainReducer<isize, T>, l: usize) -> Result<Payload<T>, String>
where
    for<'x> &'x T: RingOps<T>,
{
    let mut p = Payload { mats: vec![], trans: vec![], fwd: vec![], bwd: vec![], vecs: vec![] };
    for g in -1..l as isize {
        p.mats.push(r.matrix(g).ok_or(format!("matrix({g}) is gone"))?.clone());
        let t = r.trans(g).ok_or(format!("trans({g}) is gone"))?;
        p.fwd.push(t.forward_mat());
        p.bwd.push(t.backward_mat());
        p.trans.push(t.clone());
        p.vecs.push(r.vecs(g).cloned().unwrap_or_default());
        if r.rank(g) != Some(p.mats.last().unwrap().ncols()) {
            return Err(format!("rank({g}) = {:?} but matrix({g}) has {} columns", r.rank(g), p.mats.last().unwrap().ncols()));
        }
    }
    Ok(p)
}

fn instantiate<T: Sc>(p: &Payload<T>, l: usize) -> ChainReducer<isize, T>
where
    for<'x> &'x T: RingOps<T>,
{
    let mut r = ChainReducer::new(0..l as isize, -1);
    for g in -1..l as isize {
        let i = (g + 1) as usize;
        r.set_matrix(g, p.mats[i].clone(), true);
        *r.trans_mut(g).unwrap() = p.trans[i].clone();
        for v in &p.vecs[i] {
            r.add_vec(g, v.clone());
        }
    }
    r
}

fn observe_payload<T: Sc>(p: &Payload<T>, l: usize) -> Result<Obs<T::Ref>, String>
where
    for<'x> &'x T: RingOps<T>,
{
    // degree -1 must stay the zero module
    if p.mats[0].shape() != (0, 0) || p.trans[0].src_dim() != 0 || p.trans[0].tgt_dim() != 0 {
        return Err(format!("degree -1 (outside the support) became {:?}", p.mats[0].shape()));
    }
    let mut o = Obs { d: vec![], f: Some(vec![]), b: Some(vec![]), vecs: Some(vec![]) };
    for k in 0..l {
        o.d.push(from_sp(&p.mats[k + 1]));
        let t = &p.trans[k + 1];
        let (fm, bm) = (&p.fwd[k + 1], &p.bwd[k + 1]);
        if fm.shape() != (t.tgt_dim(), t.src_dim()) || bm.shape() != (t.src_dim(), t.tgt_dim()) {
            return Err(format!("trans({k}): forward_mat {:?} / backward_mat {:?} do not match dims {} -> {}", fm.shape(), bm.shape(), t.src_dim(), t.tgt_dim()));
        }
        o.f.as_mut().unwrap().push(from_sp(fm));
        o.b.as_mut().unwrap().push(from_sp(bm));
        o.vecs.as_mut().unwrap().push(p.vecs[k + 1].iter().map(|v| vec_from_sp(v)).collect());
    }
    Ok(o)
}

fn fresh<T: Sc>(cx: &Cx<T>, with_trans: bool) -> ChainReducer<isize, T>
where
    for<'x> &'x T: RingOps<T>,
{
    let c = cx.build(false);
    let mut r = ChainReducer::from(&c, with_trans);
    for k in 0..cx.len() {
        for v in &cx.tracked[k] {
            r.add_vec(k as isize, vec_to_sp::<T>(v));
        }
    }
    r
}

struct Node<T: Sc>
where
    for<'x> &'x T: RingOps<T>,
{
    cid: u32,
    /// hash of `obs`, computed once (in parallel) when the node is created
    h: u64,
    obs: Obs<T::Ref>,
    payload: Payload<T>,
    hist: Vec<u8>,
}

fn obs_hash<F: RefEuclid>(o: &Obs<F>) -> u64 {
    let mut h = std::collections::hash_map::DefaultHasher::new();
    o.hash(&mut h);
    h.finish()
}

impl<T: Sc> Clone for Node<T>
where
    for<'x> &'x T: RingOps<T>,
{
    fn clone(&self) -> Self {
        Node { cid: self.cid, h: self.h, obs: self.obs.clone(), payload: self.payload.clone(), hist: self.hist.clone() }
    }
}
impl<T: Sc> PartialEq for Node<T>
where
    for<'x> &'x T: RingOps<T>,
{
    fn eq(&self, o: &Self) -> bool {
        self.cid == o.cid && self.h == o.h && self.obs == o.obs
    }
}
impl<T: Sc> Eq for Node<T> where for<'x> &'x T: RingOps<T> {}
impl<T: Sc> Hash for Node<T>
where
    for<'x> &'x T: RingOps<T>,
{
    fn hash<H: Hasher>(&self, h: &mut H) {
        self.cid.hash(h);
        self.h.hash(h);
    }
}

struct Counters {
    complexes: AtomicU64,
    nontrivial: AtomicU64,
    distinct_edges: AtomicU64,
    effective_transitions: AtomicU64,
    replays: AtomicU64,
    replays_same_state: AtomicU64,
    one_shots: AtomicU64,
    states: AtomicU64,
    transitions: AtomicU64,
    max_depth: AtomicU64,
}

static CT: Counters = Counters {
    complexes: AtomicU64::new(0),
    nontrivial: AtomicU64::new(0),
    distinct_edges: AtomicU64::new(0),
    effective_transitions: AtomicU64::new(0),
    replays: AtomicU64::new(0),
    replays_same_state: AtomicU64::new(0),
    one_shots: AtomicU64::new(0),
    states: AtomicU64::new(0),
    transitions: AtomicU64::new(0),
    max_depth: AtomicU64::new(0),
};

fn fail<T: Sc>(run: &Run, cx: &Cx<T>, how: &str, what: String)
where
    for<'x> &'x T: RingOps<T>,
{
    run.fail(
        &format!("c08:{}:{}:{}", T::NAME, cx.id, how),
        &what,
        json!({"type": T::NAME, "complex": cx.d.iter().map(|m| m.show()).collect::<Vec<_>>(), "how": how,
               "homology": show_sig(&cx.sig)}),
    );
}

/// one-shot entry points on one complex
fn one_shots<T: Sc>(run: &Run, cx: &Cx<T>)
where
    for<'x> &'x T: RingOps<T>,
{
    let l = cx.len();
    let module = |up: bool, k: usize| -> isize { (if up { l - 1 - k } else { k }) as isize };
    // ChainReducer::reduce(c, with_trans), both orientations; then into_complex()
    for up in [false, true] {
        for wt in [true, false] {
            let how = format!("reduce(d_deg={},with_trans={wt})", if up { "+1" } else { "-1" });
            CT.one_shots.fetch_add(1, Ordering::Relaxed);
            let r = catch(|| -> Result<Obs<T::Ref>, String> {
                let c = cx.build(up);
                let r = ChainReducer::reduce(&c, wt);
                let mut o = Obs { d: vec![], f: wt.then(Vec::new), b: wt.then(Vec::new), vecs: None };
                for k in 0..l {
                    let g = module(up, k);
                    o.d.push(from_sp(r.matrix(g).ok_or(format!("matrix({g}) missing"))?));
                    if r.trans(g).is_some() != wt {
                        return Err(format!("trans({g}) present = {} with with_trans = {wt}", r.trans(g).is_some()));
                    }
                    if let Some(t) = r.trans(g) {
                        o.f.as_mut().unwrap().push(from_sp(&t.forward_mat()));
                        o.b.as_mut().unwrap().push(from_sp(&t.backward_mat()));
                    }
                }
                let rc = r.into_complex();
                for k in 0..l {
                    let g = module(up, k);
                    let dm = from_sp(&ChainComplexTrait::d_matrix(&rc, g));
                    if dm != o.d[k] || ChainComplexTrait::rank(&rc, g) != o.d[k].n {
                        return Err(format!("into_complex(): d_matrix({g}) = {} rank {} but the reducer held {}", dm.show(), ChainComplexTrait::rank(&rc, g), o.d[k].show()));
                    }
                }
                Ok(o)
            });
            match r {
                Ok(Ok(o)) => {
                    if let Err(e) = check_state(cx, &o) {
                        fail(run, cx, &how, e);
                    }
                }
                Ok(Err(e)) => fail(run, cx, &how, e),
                Err(p) => fail(run, cx, &how, format!("panicked: {p}")),
            }
        }
    }
    // without transforms the tracked unit vectors are the columns of the forward map
    {
        let how = "from(c,false)+add_vec+reduce_all(shallow)+reduce_all(deep)";
        CT.one_shots.fetch_add(1, Ordering::Relaxed);
        let r = catch(|| -> Result<Vec<Obs<T::Ref>>, String> {
            let mut r = fresh(cx, false);
            let mut out = vec![];
            for deep in [false, true] {
                r.reduce_all(deep);
                let mut o = Obs { d: vec![], f: Some(vec![]), b: None, vecs: Some(vec![]) };
                for k in 0..l {
                    let g = k as isize;
                    let dm = from_sp(r.matrix(g).ok_or(format!("matrix({g}) missing"))?);
                    if r.trans(g).is_some() {
                        return Err(format!("trans({g}) exists although with_trans = false"));
                    }
                    let vs: Vec<Vec<T::Ref>> = r.vecs(g).map(|v| v.iter().map(|x| vec_from_sp(x)).collect()).unwrap_or_default();
                    let n = cx.d[k].n;
                    if vs.len() != cx.tracked[k].len() || vs.iter().any(|v| v.len() != dm.n) {
                        return Err(format!("tracked vectors in degree {k}: {} of dims {:?}, expected {} of dim {}", vs.len(), vs.iter().map(|v| v.len()).collect::<Vec<_>>(), cx.tracked[k].len(), dm.n));
                    }
                    o.f.as_mut().unwrap().push(RMat::from_fn(dm.n, n, |i, j| vs[j][i].clone()));
                    o.d.push(dm);
                    o.vecs.as_mut().unwrap().push(vs);
                }
                out.push(o);
            }
            Ok(out)
        });
        match r {
            Ok(Ok(os)) => {
                for o in os {
                    if let Err(e) = check_state(cx, &o) {
                        fail(run, cx, how, e);
                    }
                }
            }
            Ok(Err(e)) => fail(run, cx, how, e),
            Err(p) => fail(run, cx, how, format!("panicked: {p}")),
        }
    }
    // ChainComplexBase::reduced()
    for up in [false, true] {
        let how = format!("reduced(d_deg={})", if up { "+1" } else { "-1" });
        CT.one_shots.fetch_add(1, Ordering::Relaxed);
        let r = catch(|| -> Result<Obs<T::Ref>, String> {
            let c = cx.build(up);
            let rc = c.reduced();
            let mut o = Obs { d: vec![], f: Some(vec![]), b: Some(vec![]), vecs: None };
            for k in 0..l {
                let g = module(up, k);
                let dm = from_sp(&ChainComplexTrait::d_matrix(&rc, g));
                if ChainComplexTrait::rank(&rc, g) != dm.n {
                    return Err(format!("reduced(): rank({g}) = {} but d_matrix({g}) has {} columns", ChainComplexTrait::rank(&rc, g), dm.n));
                }
                o.d.push(dm);
                let t = rc.get(g).trans();
                o.f.as_mut().unwrap().push(from_sp(&t.forward_mat()));
                o.b.as_mut().unwrap().push(from_sp(&t.backward_mat()));
            }
            // the reduced differential is the original one carried through the transfer maps
            for k in 1..l {
                let want = o.f.as_ref().unwrap()[k - 1].mul(&cx.d[k]).mul(&o.b.as_ref().unwrap()[k]);
                if want != o.d[k] {
                    return Err(format!("reduced(): d_matrix at module {k} = {} but F d B = {}", o.d[k].show(), want.show()));
                }
            }
            Ok(o)
        });
        match r {
            Ok(Ok(o)) => {
                if let Err(e) = check_state(cx, &o) {
                    fail(run, cx, &how, e);
                }
            }
            Ok(Err(e)) => fail(run, cx, &how, e),
            Err(p) => fail(run, cx, &how, format!("panicked: {p}")),
        }
    }
}

/// BFS over one batch of complexes of one scalar type
fn explore<T: Sc>(run: &Run, cxs: &[Cx<T>], max_depth: usize, label: &str) -> Value
where
    for<'x> &'x T: RingOps<T>,
{
    let transitions_before = CT.transitions.load(Ordering::Relaxed);
    // initial states + one-shot entry points
    let init: std::sync::Mutex<Vec<Node<T>>> = std::sync::Mutex::new(vec![]);
    run.par_for(cxs.len(), |ci| {
        let cx = &cxs[ci];
        CT.complexes.fetch_add(1, Ordering::Relaxed);
        if cx.d.iter().any(|m| !m.is_zero()) {
            CT.nontrivial.fetch_add(1, Ordering::Relaxed);
        }
        one_shots(run, cx);
        let l = cx.len();
        let r = catch(|| -> Result<(Payload<T>, Obs<T::Ref>), String> {
            let r = fresh(cx, true);
            if r.support() != (0..l as isize).collect::<Vec<_>>() {
                return Err(format!("support() = {:?}", r.support()));
            }
            let p = snapshot(&r, l)?;
            let o = observe_payload(&p, l)?;
            Ok((p, o))
        });
        match r {
            Ok(Ok((payload, obs))) => {
                if obs.d != cx.d {
                    fail(run, cx, "from(c,true)", format!("initial matrices differ from the complex: {:?}", obs.d.iter().map(|m| m.show()).collect::<Vec<_>>()));
                }
                if let Err(e) = check_state(cx, &obs) {
                    fail(run, cx, "from(c,true)", e);
                }
                init.lock().unwrap().push(Node { cid: ci as u32, h: obs_hash(&obs), obs, payload, hist: vec![] });
            }
            Ok(Err(e)) => fail(run, cx, "from(c,true)", e),
            Err(p) => fail(run, cx, "from(c,true)", format!("panicked: {p}")),
        }
    });
    let mut init = init.into_inner().unwrap();
    init.sort_by_key(|n| n.cid);
    // Successors: every action is executed on the real implementation.  Actions that leave every
    // observable unchanged (library-level equality) lead back to the same state; the reducer is
    // then kept for the next action, otherwise it is re-instantiated from the node.  Only distinct
    // new states are handed to the BFS engine (which therefore counts distinct edges; all
    // executions are counted in `transitions`).
    let (st, seen) = bfs(run, init, max_depth, u64::MAX, |node: &Node<T>, _depth| {
        let cx = &cxs[node.cid as usize];
        let l = cx.len();
        let acts = actions(l);
        let mut out: Vec<Node<T>> = vec![];
        let mut reducer: Option<ChainReducer<isize, T>> = None;
        for (ai, a) in acts.iter().enumerate() {
            CT.transitions.fetch_add(1, Ordering::Relaxed);
            let mut hist = node.hist.clone();
            hist.push(ai as u8);
            let mut r = match reducer.take() {
                Some(r) => r,
                None => instantiate(&node.payload, l),
            };
            let res = catch(|| -> Result<Option<(Payload<T>, Obs<T::Ref>)>, String> {
                apply(&mut r, *a);
                if unchanged(&r, &node.payload, l) {
                    return Ok(None);
                }
                let p = snapshot(&r, l)?;
                let o = observe_payload(&p, l)?;
                Ok(Some((p, o)))
            });
            match res {
                Ok(Ok(None)) => reducer = Some(r),
                Ok(Ok(Some((payload, obs)))) => {
                    if obs == node.obs {
                        continue; // same content in a different sparse representation
                    }
                    CT.effective_transitions.fetch_add(1, Ordering::Relaxed);
                    if out.iter().any(|n| n.obs == obs) {
                        continue; // already judged as successor of this node
                    }
                    if let Err(e) = check_state(cx, &obs) {
                        fail(run, cx, &show_hist(l, &hist), e);
                        continue; // do not explore beyond a broken state
                    }
                    out.push(Node { cid: node.cid, h: obs_hash(&obs), obs, payload, hist });
                }
                Ok(Err(e)) => fail(run, cx, &show_hist(l, &hist), e),
                Err(p) => fail(run, cx, &show_hist(l, &hist), format!("panicked: {p}")),
            }
        }
        out
    });
    // replay every discovered state's history on a reducer obtained the ordinary way
    let states: Vec<&Node<T>> = seen.iter().filter(|n| !n.hist.is_empty()).collect();
    run.par_for(states.len(), |si| {
        let node = states[si];
        let cx = &cxs[node.cid as usize];
        let l = cx.len();
        let acts = actions(l);
        CT.replays.fetch_add(1, Ordering::Relaxed);
        let r = catch(|| -> Result<Obs<T::Ref>, String> {
            let mut r = fresh(cx, true);
            for &ai in &node.hist {
                apply(&mut r, acts[ai as usize]);
            }
            observe_payload(&snapshot(&r, l)?, l)
        });
        let how = format!("replay:{}", show_hist(l, &node.hist));
        match r {
            Ok(Ok(o)) => {
                if o == node.obs {
                    CT.replays_same_state.fetch_add(1, Ordering::Relaxed);
                }
                if let Err(e) = check_state(cx, &o) {
                    fail(run, cx, &how, e);
                }
            }
            Ok(Err(e)) => fail(run, cx, &how, e),
            Err(p) => fail(run, cx, &how, format!("panicked: {p}")),
        }
    });
    CT.states.fetch_add(st.states, Ordering::Relaxed);
    CT.distinct_edges.fetch_add(st.transitions, Ordering::Relaxed);
    CT.max_depth.fetch_max(st.max_depth as u64, Ordering::Relaxed);
    // one fully written-out trace: the deepest state of the batch with a non-identity transform
    if let Some(n) = seen.iter().filter(|n| n.obs.d != cxs[n.cid as usize].d).max_by_key(|n| (n.hist.len(), std::cmp::Reverse(n.cid))) {
        let cx = &cxs[n.cid as usize];
        run.sample(json!({
            "type": T::NAME, "family": label,
            "complex": cx.d.iter().map(|m| m.show()).collect::<Vec<_>>(),
            "history": show_hist(cx.len(), &n.hist),
            "reduced": n.obs.d.iter().map(|m| m.show()).collect::<Vec<_>>(),
            "forward": n.obs.f.as_ref().unwrap().iter().map(|m| m.show()).collect::<Vec<_>>(),
            "backward": n.obs.b.as_ref().unwrap().iter().map(|m| m.show()).collect::<Vec<_>>(),
            "homology": show_sig(&cx.sig),
        }));
    }
    json!({"type": T::NAME, "family": label, "complexes": cxs.len(), "states": st.states, "transitions": CT.transitions.load(Ordering::Relaxed) - transitions_before,
           "max_depth_reached": st.max_depth, "depth_bound": if max_depth == usize::MAX { json!("none (fixpoint)") } else { json!(max_depth) },
           "frontier_exhausted": st.exhausted, "states_per_depth": st.states_per_depth})
}

// ---------------------------------------------------------------------------------------------
// enumeration of complexes
// ---------------------------------------------------------------------------------------------

fn tuples<F: Clone>(al: &[F], n: usize) -> Vec<Vec<F>> {
    let mut out = vec![vec![]];
    for _ in 0..n {
        let mut next = Vec::with_capacity(out.len() * al.len());
        for t in &out {
            for x in al {
                let mut u = t.clone();
                u.push(x.clone());
                next.push(u);
            }
        }
        out = next;
    }
    out
}

/// all complexes with exactly `l` modules, ranks in 0..=maxrank, entries in `al`, d d = 0
fn enumerate<F: RefEuclid>(al: &[F], l: usize, maxrank: usize) -> Vec<Vec<RMat<F>>> {
    fn rec<F: RefEuclid>(al: &[F], ranks: &[usize], ds: &mut Vec<RMat<F>>, out: &mut Vec<Vec<RMat<F>>>) {
        let k = ds.len();
        if k == ranks.len() {
            out.push(ds.clone());
            return;
        }
        let prev = &ds[k - 1];
        let ker: Vec<Vec<F>> = tuples(al, ranks[k - 1]).into_iter().filter(|v| prev.mul_vec(v).iter().all(|x| x.is_zero())).collect();
        let idx: Vec<usize> = (0..ker.len()).collect();
        for cols in tuples(&idx, ranks[k]) {
            ds.push(RMat::from_fn(ranks[k - 1], ranks[k], |i, j| ker[cols[j]][i].clone()));
            rec(al, ranks, ds, out);
            ds.pop();
        }
    }
    let mut out = vec![];
    let rk: Vec<usize> = (0..=maxrank).collect();
    for ranks in tuples(&rk, l) {
        let mut ds = vec![RMat::zero(0, ranks[0])];
        rec(al, &ranks, &mut ds, &mut out);
    }
    out
}

struct Plan {
    /// (label, lengths, maxrank, alphabet index, depth bound)
    families: Vec<(&'static str, Vec<usize>, usize, usize, usize)>,
    sample_depth: usize,
}

fn ring_part<T: Sc>(run: &Run, alphabets: &[Vec<T::Ref>], plan: &Plan, report: &mut Vec<Value>)
where
    for<'x> &'x T: RingOps<T>,
{
    for (label, lens, maxrank, ai, depth) in &plan.families {
        if *ai >= alphabets.len() {
            continue;
        }
        if run.over_budget() {
            run.cap(&format!("wall budget reached before family {label} over {}", T::NAME));
            return;
        }
        let mut ds = vec![];
        for &l in lens {
            ds.extend(enumerate(&alphabets[*ai], l, *maxrank));
        }
        let total = ds.len();
        if std::env::var_os("VERIF_C08_COUNT_ONLY").is_some() {
            eprintln!("[c08] {:<12} {:<34} complexes {:>8}", T::NAME, label, total); // development aid
            run.cap("VERIF_C08_COUNT_ONLY set: families were only counted");
            continue;
        }
        // batches keep the seen-set of one BFS small
        let mut done = 0;
        let mut agg: Vec<Value> = vec![];
        for chunk in ds.chunks(40_000) {
            if run.over_budget() {
                run.cap(&format!("wall budget reached inside family {label} over {} after {done} of {total} complexes", T::NAME));
                break;
            }
            let cxs: Vec<Cx<T>> = {
                let out: std::sync::Mutex<Vec<(usize, Cx<T>)>> = std::sync::Mutex::new(vec![]);
                run.par_for(chunk.len().div_ceil(256), |c| {
                    let mut mine = vec![];
                    for i in c * 256..((c + 1) * 256).min(chunk.len()) {
                        mine.push((i, Cx::<T>::new(chunk[i].clone(), None)));
                    }
                    out.lock().unwrap().extend(mine);
                });
                let mut v = out.into_inner().unwrap();
                v.sort_by_key(|x| x.0);
                v.into_iter().map(|x| x.1).collect()
            };
            agg.push(explore(run, &cxs, *depth, label));
            done += cxs.len();
        }
        let sum = |k: &str| agg.iter().map(|v| v[k].as_u64().unwrap_or(0)).sum::<u64>();
        eprintln!("[c08] {:<12} {:<34} complexes {:>8} states {:>9} transitions {:>10}  t={:.1}s", T::NAME, label, done, sum("states"), sum("transitions"), run.elapsed());
        report.push(json!({"type": T::NAME, "family": label, "alphabet": show_vec(&alphabets[*ai]), "complexes": done,
                           "states": sum("states"), "transitions": sum("transitions"),
                           "max_depth_reached": agg.iter().map(|v| v["max_depth_reached"].as_u64().unwrap_or(0)).max().unwrap_or(0),
                           "depth_bound": agg.first().map(|v| v["depth_bound"].clone()).unwrap_or(Value::Null),
                           "frontier_exhausted": agg.iter().all(|v| v["frontier_exhausted"].as_bool().unwrap_or(false))}));
    }
    // the repository's own sample complexes
    let samples: Vec<(&str, GenericChainComplex<T>, usize)> = vec![
        ("repo:d3", GenericChainComplex::<T>::d3(), 4),
        ("repo:s2", GenericChainComplex::<T>::s2(), 3),
        ("repo:t2", GenericChainComplex::<T>::t2(), 3),
        ("repo:rp2", GenericChainComplex::<T>::rp2(), 3),
    ];
    for (name, c, l) in samples {
        if run.over_budget() {
            run.cap(&format!("wall budget reached before {name} over {}", T::NAME));
            return;
        }
        let d: Vec<RMat<T::Ref>> = (0..l as isize).map(|g| from_sp(&ChainComplexTrait::d_matrix(&c, g))).collect();
        let cx = Cx::<T>::new(d, Some(name));
        let v = explore(run, std::slice::from_ref(&cx), plan.sample_depth, name);
        eprintln!("[c08] {:<12} {:<34} states {:>9} transitions {:>10}  t={:.1}s", T::NAME, name, v["states"], v["transitions"], run.elapsed());
        report.push(v);
    }
}

fn sequential_part(run: &Run) -> Vec<Value> {
    let th = run.thorough();
    let fix = usize::MAX;
    let plan = if th {
        Plan {
            families: vec![
                ("L<=3,rank<=2,full", vec![1, 2, 3], 2, 0, fix),
                ("L=4,rank<=2,three-letter", vec![4], 2, 1, fix),
                ("L<=3,rank<=3,two-letter", vec![1, 2, 3], 3, 2, fix),
                // Z[H] only (the other rings have no fourth alphabet): one differential up to 3x3 with H
                ("L<=2,rank<=3,{0,1,H}", vec![1, 2], 3, 3, fix),
                // not run: L = 4 with rank 3 over {0,1} is 6.2*10^5 .. 9.6*10^5 complexes per ring
                // (measured), about 35 times the L=4,rank<=2 family — outside the 20 min budget.
            ],
            sample_depth: 3,
        }
    } else {
        Plan { families: vec![("L<=3,rank<=2,full", vec![1, 2, 3], 2, 0, 3), ("L=4,rank<=2,two-letter", vec![4], 2, 2, 3)], sample_depth: 2 }
    };
    let mut report = vec![];
    let zi = |v: &[i64]| -> Vec<Z> { v.iter().map(|&i| z(i)).collect() };
    ring_part::<i64>(run, &[zi(&[0, 1, -1, 2]), zi(&[0, 1, -1]), zi(&[0, 1])], &plan, &mut report);
    let qi = |v: &[i64]| -> Vec<Q> { v.iter().map(|&i| Q::int(i)).collect() };
    ring_part::<Ratio<i64>>(run, &[qi(&[0, 1, -1, 2]), qi(&[0, 1, -1]), qi(&[0, 1])], &plan, &mut report);
    // F2: -1 = 1 and 2 = 0, the alphabet {0,1,-1,2} collapses to all of F2
    ring_part::<FF2>(run, &[Fp::<2>::all(), Fp::<2>::all(), Fp::<2>::all()], &plan, &mut report);
    // F3: {0,1,-1,2} = all of F3
    ring_part::<FF<3>>(run, &[Fp::<3>::all(), Fp::<3>::all(), vec![Fp(0), Fp(1)]], &plan, &mut report);
    let ph = |c: &[i64]| UPoly::<Q>::new(c.iter().map(|&i| Q::int(i)).collect());
    // two-letter alphabet for Z[H]: {0,1} (with {0,H} nothing is reducible); H enters through the
    // other three alphabets
    ring_part::<ZH>(
        run,
        &[vec![ph(&[]), ph(&[1]), ph(&[0, 1]), ph(&[-1])], vec![ph(&[]), ph(&[1]), ph(&[0, 1])], vec![ph(&[]), ph(&[1])], vec![ph(&[]), ph(&[1]), ph(&[0, 1])]],
        &plan,
        &mut report,
    );
    report
}

/// C08 schedule part: "... and for every thread schedule".  `ChainReducer::reduce` calls the
/// parallel pivot search, the Schur complement and the triangular solves; here the whole call runs
/// under the controlled scheduler (W = 2, preemption bound 1; thorough 2) for every complex with one
/// or two differentials of rank <= 3 over {0,1,2} (Z) / F3, and the full oracle of the sequential
/// part (chain maps, F·B = I, same homology, d'd' = 0) is applied to the result of every schedule.
fn schedule_part(run: &Run) -> Value {
    use checks::sched::{self, Abort, Config};
    sched::install_hook();
    let th = run.thorough();
    let tot = std::sync::Mutex::new((0u64, 0u64, 0u64, 0u64, 0u64)); // executions, points, par calls, complexes, with >1 outcome
    fn part<T: Sc>(run: &Run, tot: &std::sync::Mutex<(u64, u64, u64, u64, u64)>, al: &[T::Ref], l: usize, maxrank: usize, bound: u32, thin_3x3: bool, max_cells: usize)
    where
        for<'x> &'x T: RingOps<T>,
    {
        let raw: Vec<Vec<RMat<T::Ref>>> = if l == 0 {
            // "covered" family: one differential of shape 3x4 (and its transpose) whose first column
            // (row) is e_1.  The parallel phase of the pivot search is only entered by rows that
            // the two sequential pre-phases leave over, i.e. rows without a free unit entry whose
            // unit columns are all occupied by an earlier pivot row; with <= 3 columns the covering
            // row also makes every candidate of the other rows cyclic, so no complex of the
            // general family (rank <= 3) ever has two workers writing the shared pivot table.
            let mut v = vec![];
            for t in tuples(al, 9) {
                let m = RMat::from_fn(3, 4, |i, j| if j == 0 { if i == 0 { <T::Ref>::one() } else { <T::Ref>::zero() } } else { t[i * 3 + j - 1].clone() });
                v.push(vec![RMat::zero(0, 4), m.transpose()]);
                v.push(vec![RMat::zero(0, 3), m]);
            }
            v
        } else {
            enumerate(al, l, maxrank)
        };
        let cxs: Vec<Cx<T>> = raw
            .into_iter()
            .filter(|d| d.iter().any(|m| m.m >= 2 && m.n >= 2 && !m.is_zero()))
            .filter(|d| d.iter().all(|m| m.m * m.n <= max_cells))
            // quick tier: 3x3 differentials only over the first two letters of the alphabet
            .filter(|d| !thin_3x3 || d.iter().all(|m| !(m.m == 3 && m.n == 3) || m.e.iter().all(|x| *x == al[0] || *x == al[1])))
            .map(|d| Cx::<T>::new(d, None))
            .collect();
        run.par_for(cxs.len(), |ci| {
            if run.over_budget() {
                run.cap("C08 schedules: wall budget reached");
                return;
            }
            let cx = &cxs[ci];
            let ll = cx.len();
            // general family: the assignment of tasks to workers is free (every task end is an
            // unbounded choice), only preemptions are bounded.  Covered family: a task end that hands
            // the next task to the other worker counts as a deviation as well, otherwise the free
            // choices of the four parallel calls of one `reduce` multiply to > 20 000 executions
            // per complex.
            let cfg = Config { workers: 2, choose_items: false, max_decisions: 100_000, min_items: 2, count_task_switches: l == 0 };
            let body = || -> Result<Obs<T::Ref>, String> {
                let c = cx.build(false);
                let r = ChainReducer::reduce(&c, true);
                let mut o = Obs { d: vec![], f: Some(vec![]), b: Some(vec![]), vecs: None };
                for k in 0..ll {
                    let g = k as isize;
                    o.d.push(from_sp(r.matrix(g).ok_or(format!("matrix({g}) missing"))?));
                    let t = r.trans(g).ok_or(format!("trans({g}) missing"))?;
                    o.f.as_mut().unwrap().push(from_sp(&t.forward_mat()));
                    o.b.as_mut().unwrap().push(from_sp(&t.backward_mat()));
                }
                Ok(o)
            };
            if l == 0 {
                // covered family: the default execution decides whether the race window exists
                let (_, tr) = sched::run_scheduled(&cfg, &[], body);
                // one task of the parallel pivot phase passes at most 3 lock points (snapshot, refresh,
                // commit); 4 or more mean that the phase had at least two tasks
                let p = tr.labels.iter().filter(|l| l.1.starts_with("rwlock")).count();
                run.add("sched_covered_family_members", 1);
                if p < 4 {
                    return;
                }
                run.add("sched_covered_family_members_with_two_pivot_tasks", 1);
            }
            let mut outcomes: Vec<u64> = vec![];
            let mut race_window = false;
            let st = sched::explore(&cfg, Some(bound), 20_000, body, |r, tr| {
                // is the shared pivot table written by two different workers in this execution?
                if !race_window {
                    let w: std::collections::BTreeSet<u8> = tr.labels.iter().filter(|l| l.1 == "rwlock.write").map(|l| l.0).collect();
                    race_window = w.len() >= 2;
                }
                if tr.diverged.is_some() {
                    // pivot choice depends on per-instance hash seeds: the prefix could not be followed;
                    // the execution that happened instead is still judged
                    run.add("sched_prefixes_not_replayable", 1);
                }
                let how = format!("reduce under schedule {:?} (W=2)", tr.choices());
                match (&tr.abort, r) {
                    (Some(ab), _) => {
                        fail(run, cx, &how, format!("aborted: {ab:?}"));
                        false
                    }
                    (None, Err(_)) => {
                        fail(run, cx, &how, "panicked outside a parallel call".into());
                        false
                    }
                    (None, Ok(Err(e))) => {
                        fail(run, cx, &how, e);
                        false
                    }
                    (None, Ok(Ok(o))) => match check_state(cx, &o) {
                        Ok(()) => {
                            let h = obs_hash(&o);
                            if !outcomes.contains(&h) {
                                outcomes.push(h);
                            }
                            true
                        }
                        Err(e) => {
                            fail(run, cx, &how, e);
                            false
                        }
                    },
                }
            });
            if !st.complete && run.nviolations() == 0 {
                run.cap("C08 schedules: execution cap (20000) per complex hit");
            }
            let mut g = tot.lock().unwrap();
            g.0 += st.executions;
            g.1 += st.points;
            g.2 += st.par_calls;
            g.3 += 1;
            if outcomes.len() > 1 {
                g.4 += 1;
            }
            if race_window {
                run.add("sched_complexes_with_two_writers_of_the_pivot_table", 1);
            }
        });
    }
    let zal: Vec<Z> = [0, 1, 2].map(z).to_vec();
    let bound = if th { 2 } else { 1 };
    let t0 = run.elapsed();
    part::<i64>(run, &tot, &zal, 2, 3, bound, !th, usize::MAX);
    eprintln!("[c08] schedules: bound {bound} pass done in {:.1}s", run.elapsed() - t0);
    if !th {
        // iterate the bound (CHESS) as far as the quick budget allows: 2 preemptions for every
        // differential with at most 6 cells (up to 2x3 / 3x2) over the full alphabet
        let t0 = run.elapsed();
        part::<i64>(run, &tot, &zal, 2, 3, 2, false, 6);
        eprintln!("[c08] schedules: bound 2 pass (<= 6 cells) done in {:.1}s", run.elapsed() - t0);
    }
    {
        let t0 = run.elapsed();
        part::<i64>(run, &tot, &zal, 0, 4, 2, false, usize::MAX);
        eprintln!("[c08] schedules: covered 3x4 / 4x3 family, 2 deviations, done in {:.1}s", run.elapsed() - t0);
    }
    if th {
        part::<i64>(run, &tot, &[z(0), z(1), z(-1), z(2)], 3, 2, bound, false, usize::MAX);
        part::<FF<3>>(run, &tot, &Fp::<3>::all(), 2, 3, bound, false, usize::MAX);
    }
    let g = tot.into_inner().unwrap();
    json!({"complexes": g.3, "executions": g.0, "lock_points_passed": g.1, "scheduled_parallel_calls": g.2,
           "complexes_with_more_than_one_distinct_result": g.4, "workers": 2, "preemption_bound": if th { "2".to_string() } else { "1 for every complex; 2 for differentials with <= 6 cells".to_string() },
           "covered_family": {"rule": "one differential 3x4 or 4x3 over {0,1,2} whose first column / row is e_1; explored iff the default execution has two tasks in the parallel pivot phase; deviations = preemptions + hand-overs at task ends, bound 2", "members": run.get("sched_covered_family_members"), "members_with_two_pivot_tasks_explored": run.get("sched_covered_family_members_with_two_pivot_tasks")},
           "prefixes_not_replayable_because_of_hash_order": run.get("sched_prefixes_not_replayable"),
           "complex_passes_in_which_two_workers_write_the_shared_pivot_table": run.get("sched_complexes_with_two_writers_of_the_pivot_table")})
}

extern "C" {
    fn mallopt(param: i32, value: i32) -> i32;
}

fn main() {
    // glibc: keep freed heap tops instead of returning them page by page.  The BFS allocates and
    // frees many small matrices on 16 threads; with the default trim threshold every thread arena
    // grows and shrinks continuously (measured: 4*10^5 mprotect calls, more system than user time).
    unsafe {
        mallopt(-1 /* M_TRIM_THRESHOLD */, 1 << 30);
        mallopt(-2 /* M_TOP_PAD */, 64 << 20);
    }
    let run = Run::new("C08", "model_checking");
    let report = sequential_part(&run);

    let sched = schedule_part(&run);

    let ld = |a: &AtomicU64| a.load(Ordering::Relaxed);
    let coverage = json!({
        "states": ld(&CT.states),
        "transitions": ld(&CT.transitions),
        "traces_validated_against_impl": ld(&CT.transitions) + ld(&CT.replays) + ld(&CT.one_shots),
        "evaluations": ld(&CT.transitions) + ld(&CT.replays) + ld(&CT.one_shots),
        "distinct_edges_to_new_states": ld(&CT.distinct_edges),
        "distinct_nontrivial": ld(&CT.nontrivial),
        "rule": "all chain complexes with L modules (L-1 differentials), ranks and alphabet as listed per family, kept iff consecutive products vanish in the reference ring; distinct_nontrivial = kept complexes with a non-zero differential, per scalar type (distinct by construction) plus the four repository complexes per type; states = distinct (complex, reducer content) pairs; transitions = executions of one reducer operation on the real implementation from a re-instantiated state; every discovered state is additionally reached by replaying its history from ChainReducer::from",
        "complexes": ld(&CT.complexes),
        "effective_transitions": ld(&CT.effective_transitions),
        "history_replays": ld(&CT.replays),
        "history_replays_reaching_the_recorded_state": ld(&CT.replays_same_state),
        "one_shot_entry_point_runs": ld(&CT.one_shots),
        "max_depth_reached": ld(&CT.max_depth),
        "families": report,
        "schedule_part": sched,
        "exhaustive": true,
    });
    run.finish(
        coverage,
        &[
            "reference: vcore::refmat products / rank / Smith invariants (two cross-checked routes up to 4x4) over vcore::refnum; Z[H] is embedded in Q[H]",
            "Z[H]: homology is compared after base change to Q[H] and after H -> 0,1,2,-1 into Z, not as a Z[H]-module; all chain-map identities are exact polynomial identities",
            "a reducer state is re-instantiated with new/set_matrix/trans_mut/add_vec (ChainReducer is not Clone); all five fields of the struct are restored; histories are also replayed from ChainReducer::from",
            "pivot choice inside the library depends on per-instance hash seeds; a replay may therefore reach a different (equally judged) state than the recorded one — counted, not required to coincide",
            "sequential part: rayon is the sequential stand-in; schedule part: the whole ChainReducer::reduce runs under the shim-rayon explorer (W=2, preemption bounded) and every schedule's result is judged by the same oracle",
            "the repository complexes are explored to a fixed depth (2 quick / 3 thorough), which is a stated bound, not a cap",
        ],
    );
}
