//! C20 — the `ykh` command reports the library's result for every option combination.
//!
//! The real binary is (re)built from the repository's current working tree and run as a
//! subprocess over the FULL product
//!   {kh, ckh} x -t {Z,Q,F2,F3} x -c {absent,0,1,2,"0,1","1,1",H,T,"0,T","H,T",x,"1,","","0,0,0","1,2,3","H,T,H","1,0,",",0","0,,0","0,x"}
//!   x {-, -m} x {-, -r} x link inputs (names, PD JSON, file paths, garbage).
//! Oracle:
//!  * a specification table (`spec`) written from the dispatch macros / the commands' documented
//!    preconditions predicts success, failure, or "either" for every combination;
//!  * on success the printed Unicode table is parsed back into {(i,j) -> (rank, torsion
//!    multiset)} and must equal what the harness gets by calling the same library entry points
//!    (`KhHomology::new` [+ `into_bigraded`], `KhComplex::new(..).gen_grid()`) itself and
//!    rendering the summands with its own reader of the module notation;
//!  * on failure: non-zero exit (not 101 / signal), a message, and no table on stdout.
//!
//! Hash-order nondeterminism.  `KhComplex::new` eliminates in an order that depends on per-process
//! hash seeds; for scalars (h,t) that do not respect the q-grading the generator grid printed by
//! `ckh` therefore differs from run to run.  "The library's result" is then a *set*.  The check
//! first compares with one library evaluation; on a mismatch it samples the library repeatedly
//! (every evaluation uses fresh hash seeds) and re-runs the command; the combination passes as
//! soon as one printed table is a member of the sampled set.  If the library was observed
//! deterministic and the command consistently differs -> violation.  If the library is
//! nondeterministic and no printed table was met, the hash-order-free part is judged (same
//! homological degrees, total rank per homological degree, ring symbol) and the combination is
//! counted as `undecided_cells` (reported, never silently accepted as exact).

use std::collections::{BTreeMap, BTreeSet};
use std::io::Read;
use std::process::{Command, Stdio};
use std::str::FromStr;
use std::sync::Mutex;
use std::time::{Duration, Instant};

use vcore::{catch, json, Run, Value};
use yui::poly::{Poly, Poly2};
use yui::{EucRing, EucRingOps, Ratio, Ring, RingOps, FF};
use yui_homology::{isize2, GridTrait, SummandTrait};
use yui_kh::kh::{KhComplex, KhHomology};
use yui_link::Link;

// ------------------------------------------------------------------------------------------
// option space

#[derive(Clone, Copy, PartialEq, Eq, Debug)]
enum Cmd {
    Kh,
    Ckh,
}

#[derive(Clone, Copy, PartialEq, Eq, Debug)]
enum CT {
    Z,
    Q,
    F2,
    F3,
}

const CMDS: [Cmd; 2] = [Cmd::Kh, Cmd::Ckh];
const CTS: [CT; 4] = [CT::Z, CT::Q, CT::F2, CT::F3];
/// `None` = option absent (the command's default "0")
const CVALS: [Option<&str>; 20] = [
    None,
    Some("0"),
    Some("1"),
    Some("2"),
    Some("0,1"),
    Some("1,1"),
    Some("H"),
    Some("T"),
    Some("0,T"),
    Some("H,T"),
    Some("x"),
    Some("1,"),
    Some(""),
    // further malformed shapes: wrong arity, empty components, a non-scalar component
    Some("0,0,0"),
    Some("1,2,3"),
    Some("H,T,H"),
    Some("1,0,"),
    Some(",0"),
    Some("0,,0"),
    Some("0,x"),
];

impl Cmd {
    fn name(self) -> &'static str {
        match self {
            Cmd::Kh => "kh",
            Cmd::Ckh => "ckh",
        }
    }
}

impl CT {
    fn name(self) -> &'static str {
        match self {
            CT::Z => "Z",
            CT::Q => "Q",
            CT::F2 => "F2",
            CT::F3 => "F3",
        }
    }
    /// the harness' own notation table for the base ring
    fn symbol(self) -> &'static str {
        match self {
            CT::Z => "Z",
            CT::Q => "Q",
            CT::F2 => "F\u{2082}",
            CT::F3 => "F\u{2083}",
        }
    }
}

#[derive(Clone, Copy, PartialEq, Eq, Debug)]
enum Validity {
    /// a link the library is specified for
    Valid,
    /// not a link description at all: must be rejected
    Invalid,
    /// syntactically a PD code but not a diagram; the library does not validate (`TODO validate
    /// code`): either a clean error, or a table that equals the library's result
    Dubious,
}

#[derive(Clone, Debug)]
struct LinkIn {
    label: &'static str,
    arg: String,
    validity: Validity,
    empty: bool,
    quick: bool,
}

fn link_inputs(repo: &str) -> Vec<LinkIn> {
    let l = |label, arg: &str, validity, empty, quick| LinkIn { label, arg: arg.to_string(), validity, empty, quick };
    use Validity::*;
    vec![
        l("3_1", "3_1", Valid, false, true),
        l("hopf-pd", "[[4,1,3,2],[2,3,1,4]]", Valid, false, true),
        l("malformed-json", "[[1,4,2,3],[3,2", Invalid, false, true),
        l("unknown-name", "99_1", Invalid, false, true),
        l("missing-path", "/nonexistent/dir/c20-no-such-link.json", Invalid, false, true),
        l("4_1", "4_1", Valid, false, false),
        // 5_2 and 6_2 have cells of rank 1 with torsion (Z + Z/2): a formatter must print both parts
        l("5_2", "5_2", Valid, false, true),
        l("6_2", "6_2", Valid, false, false),
        l("kinked-unknot-pd", "[[1,2,2,1]]", Valid, false, false),
        // Hopf link with a kink on one component: 3 crossings, 2 components
        l("hopf-kink-pd", "[[6,1,3,2],[2,3,1,4],[4,5,5,6]]", Valid, false, false),
        l("empty-pd", "[]", Valid, true, true),
        l("file-path", &format!("{repo}/yui-link/resources/links/4_1.json"), Valid, false, false),
        l("6_1", "6_1", Valid, false, false),
        // 10_120 has a cell of rank exactly 10 over Q (two-digit superscripts in the printed table)
        l("10_120", "10_120", Valid, false, true),
        l("8_19", "8_19", Valid, false, false),
        l("unpaired-pd", "[[1,2,3,4]]", Dubious, false, false),
    ]
}

#[derive(Clone, Debug)]
struct Combo {
    cmd: Cmd,
    ct: CT,
    c: Option<&'static str>,
    mirror: bool,
    reduced: bool,
    link: LinkIn,
}

impl Combo {
    fn key(&self) -> String {
        format!(
            "c20:{}:t={}:c={}:m={}:r={}:link={}",
            self.cmd.name(),
            self.ct.name(),
            match self.c {
                None => "<absent>".to_string(),
                Some(s) => format!("'{s}'"),
            },
            self.mirror as u8,
            self.reduced as u8,
            self.link.label
        )
    }
    fn args(&self) -> Vec<String> {
        let mut a = vec![self.cmd.name().to_string(), self.link.arg.clone(), "-t".to_string(), self.ct.name().to_string()];
        if let Some(c) = self.c {
            a.push("-c".to_string());
            a.push(c.to_string());
        }
        if self.mirror {
            a.push("-m".to_string());
        }
        if self.reduced {
            a.push("-r".to_string());
        }
        a
    }
    fn cmdline(&self, exe: &str) -> String {
        let mut s = exe.to_string();
        for a in self.args() {
            s.push(' ');
            if a.is_empty() || a.contains(|ch: char| !(ch.is_ascii_alphanumeric() || "_-/.".contains(ch))) {
                s.push_str(&format!("'{a}'"));
            } else {
                s.push_str(&a);
            }
        }
        s
    }
    fn cval(&self) -> &'static str {
        self.c.unwrap_or("0")
    }
}

// ------------------------------------------------------------------------------------------
// the specification table

#[derive(Clone, Copy, PartialEq, Eq, Debug)]
enum Vars {
    None,
    H,
    T,
    HT,
}

/// which indeterminates the coefficient value names (comma separated parts equal to H / T)
fn vars_of(c: &str) -> Vars {
    let parts: Vec<&str> = c.split(',').collect();
    match (parts.contains(&"H"), parts.contains(&"T")) {
        (true, true) => Vars::HT,
        (true, false) => Vars::H,
        (false, true) => Vars::T,
        (false, false) => Vars::None,
    }
}

#[derive(Clone, Copy, PartialEq, Eq, Debug)]
enum Expect {
    Success,
    Failure(&'static str),
    Either(&'static str),
}

/// (h, t) as written, for the values of the enumerated alphabet; `None` = not a coefficient pair
fn written_pair(c: &str) -> Option<(&'static str, &'static str)> {
    Some(match c {
        "0" => ("0", "0"),
        "1" => ("1", "0"),
        "2" => ("2", "0"),
        "0,1" => ("0", "1"),
        "1,1" => ("1", "1"),
        "H" => ("H", "0"),
        "T" => ("T", "0"),
        "0,T" => ("0", "T"),
        "H,T" => ("H", "T"),
        _ => return None,
    })
}

/// Specification, written from bin-ykh/src/app/utils/dispatch.rs (default features = ["poly"],
/// no "qint"), helper.rs (parse_pair, load_link), cmd/kh.rs, cmd/ckh.rs and the precondition of
/// `KhComplex::new` (`!reduced || (!l.is_empty() && t.is_zero())`):
///
///  value -c            kh (Euclidean rings only)          ckh (any ring)
///  0 1 2 0,1 1,1       Z Q F2 F3                          Z Q F2 F3
///  H  T  0,T           Q[x] F2[x] F3[x];  Z: unsupported  Z[x] Q[x] F2[x] F3[x]
///  H,T                 unsupported for every -t           Z Q F2 F3 [H,T]
///  x  "1,"  ""         not a coefficient: error           error
///  -r                  needs t = 0 (0,1  1,1  0,T  H,T fail), and a non-empty link
///  link                name in the table / PD JSON / readable file; otherwise error
fn spec(k: &Combo) -> Expect {
    let c = k.cval();
    let Some((_, t)) = written_pair(c) else {
        return Expect::Failure("coefficient value is not a scalar or a pair of scalars");
    };
    match (k.cmd, vars_of(c), k.ct) {
        (_, Vars::None, _) => {}
        (Cmd::Kh, Vars::HT, _) => return Expect::Failure("kh needs a Euclidean ring; R[H,T] is not"),
        (Cmd::Kh, _, CT::Z) => return Expect::Failure("kh needs a Euclidean ring; Z[x] is not"),
        (Cmd::Kh, _, _) => {}
        (Cmd::Ckh, _, _) => {}
    }
    if k.reduced && t != "0" {
        return Expect::Failure("reduced needs t = 0");
    }
    match k.link.validity {
        Validity::Invalid => return Expect::Failure("link input is not a name, PD code or readable file"),
        Validity::Dubious => return Expect::Either("PD code that is not a diagram; the library does not validate"),
        Validity::Valid => {}
    }
    if k.reduced && k.link.empty {
        return Expect::Failure("reduced needs a non-empty link");
    }
    if k.ct == CT::F2 && c == "2" {
        return Expect::Either("2 is not a residue mod 2 (accepted as 0, or rejected)");
    }
    Expect::Success
}

/// true when (h,t) = (0,0): the homology is genuinely bigraded and the property's "(i,j) cells"
/// apply to kh as well
fn zero_pair(k: &Combo) -> bool {
    let c = k.cval();
    c == "0" || (k.ct == CT::F2 && c == "2")
}

/// expected ring symbol in the module notation
fn ring_symbol(k: &Combo) -> String {
    let b = k.ct.symbol();
    match vars_of(k.cval()) {
        Vars::None => b.to_string(),
        Vars::H => format!("{b}[H]"),
        Vars::T => format!("{b}[T]"),
        Vars::HT => format!("{b}[H, T]"),
    }
}

// ------------------------------------------------------------------------------------------
// tables: what is compared

/// (rank, torsion orders with multiplicity)
type Cell = (usize, BTreeMap<String, usize>);

#[derive(Clone, Copy, PartialEq, Eq, PartialOrd, Ord, Debug)]
enum Form {
    /// bigraded table, header `j\i`
    Grid,
    /// one row indexed by the homological degree, header `i`
    Seq,
}

#[derive(Clone, PartialEq, Eq, PartialOrd, Ord, Debug)]
struct Table {
    form: Form,
    /// homological degrees of the frame (column labels)
    cols: Vec<isize>,
    /// non-zero cells only; Seq uses j = 0
    cells: BTreeMap<(isize, isize), Cell>,
}

impl Table {
    fn to_json(&self) -> Value {
        let cells: Vec<Value> = self
            .cells
            .iter()
            .map(|((i, j), (r, t))| {
                let tors: Vec<String> = t.iter().flat_map(|(s, n)| std::iter::repeat(s.clone()).take(*n)).collect();
                match self.form {
                    Form::Grid => json!({"i": i, "j": j, "rank": r, "tors": tors}),
                    Form::Seq => json!({"i": i, "rank": r, "tors": tors}),
                }
            })
            .collect();
        json!({"form": format!("{:?}", self.form), "cols": self.cols, "cells": cells})
    }
    /// hash-order-free projection: total rank / number of torsion summands per homological degree
    fn column_sums(&self) -> BTreeMap<isize, (usize, usize)> {
        let mut m = BTreeMap::new();
        for ((i, _), (r, t)) in &self.cells {
            let e = m.entry(*i).or_insert((0, 0));
            e.0 += r;
            e.1 += t.values().sum::<usize>();
        }
        m
    }
}

fn superscript_value(s: &str) -> Option<usize> {
    if s.is_empty() {
        return None;
    }
    let mut v: usize = 0;
    for ch in s.chars() {
        let d = match ch {
            '\u{2070}' => 0,
            '\u{00B9}' => 1,
            '\u{00B2}' => 2,
            '\u{00B3}' => 3,
            '\u{2074}'..='\u{2079}' => ch as usize - 0x2070,
            _ => return None,
        };
        v = v.checked_mul(10)?.checked_add(d)?;
    }
    Some(v)
}

/// Reads one cell of the module notation: `.`/`0` = zero, otherwise summands joined by ` ⊕ `,
/// each `S`, `Sⁿ`, `(S/t)` or `(S/t)ⁿ` with `S` the ring symbol.
fn parse_cell(text: &str, sym: &str) -> Result<Option<Cell>, String> {
    let text = text.trim();
    if text == "." || text == "0" {
        return Ok(None);
    }
    if text.is_empty() {
        return Err("empty cell".into());
    }
    // split at top-level " ⊕ "
    let chars: Vec<char> = text.chars().collect();
    let mut parts: Vec<String> = vec![];
    let mut depth = 0i32;
    let mut cur = String::new();
    let mut p = 0;
    while p < chars.len() {
        let ch = chars[p];
        if ch == '(' || ch == '[' {
            depth += 1;
        } else if ch == ')' || ch == ']' {
            depth -= 1;
        }
        if depth == 0 && ch == ' ' && p + 2 < chars.len() && chars[p + 1] == '\u{2295}' && chars[p + 2] == ' ' {
            parts.push(std::mem::take(&mut cur));
            p += 3;
            continue;
        }
        cur.push(ch);
        p += 1;
    }
    parts.push(cur);

    let mut rank = 0usize;
    let mut tors: BTreeMap<String, usize> = BTreeMap::new();
    for part in parts {
        if let Some(rest) = part.strip_prefix('(') {
            // (S/t) or (S/t)^n : find the matching parenthesis
            let rc: Vec<char> = rest.chars().collect();
            let mut d = 1i32;
            let mut close = None;
            for (q, ch) in rc.iter().enumerate() {
                match ch {
                    '(' => d += 1,
                    ')' => {
                        d -= 1;
                        if d == 0 {
                            close = Some(q);
                            break;
                        }
                    }
                    _ => {}
                }
            }
            let Some(close) = close else { return Err(format!("unbalanced parenthesis in '{text}'")) };
            let inner: String = rc[..close].iter().collect();
            let after: String = rc[close + 1..].iter().collect();
            let Some(t) = inner.strip_prefix(sym).and_then(|r| r.strip_prefix('/')) else {
                return Err(format!("summand '({inner})' is not a quotient of the ring '{sym}'"));
            };
            if t.is_empty() {
                return Err(format!("empty torsion order in '{text}'"));
            }
            let mult = if after.is_empty() { 1 } else { superscript_value(&after).ok_or(format!("bad exponent '{after}' in '{text}'"))? };
            if mult == 0 {
                return Err(format!("zero exponent in '{text}'"));
            }
            *tors.entry(t.to_string()).or_insert(0) += mult;
        } else {
            let Some(after) = part.strip_prefix(sym) else {
                return Err(format!("summand '{part}' is not a power of the ring '{sym}'"));
            };
            let r = if after.is_empty() { 1 } else { superscript_value(after).ok_or(format!("bad exponent '{after}' in '{text}'"))? };
            if r == 0 {
                return Err(format!("zero exponent in '{text}'"));
            }
            rank += r;
        }
    }
    Ok(Some((rank, tors)))
}

/// Parses the table printed on stdout (prettytable FORMAT_CLEAN: every column is
/// ` content<pad> `, left aligned; cells may contain blanks, so columns are cut at the offsets of
/// the header labels).  `kh` trims the whole text, `ckh` only its end, hence the first line may
/// have lost its leading blank.
fn parse_table(stdout: &str, sym: &str) -> Result<Table, String> {
    let mut lines: Vec<&str> = stdout.split('\n').collect();
    while lines.last().map(|l| l.trim().is_empty()).unwrap_or(false) {
        lines.pop();
    }
    if lines.is_empty() {
        return Err("empty output".into());
    }
    let header: Vec<char> = if lines[0].starts_with(' ') { lines[0].chars().collect() } else { format!(" {}", lines[0]).chars().collect() };
    // header tokens with offsets
    let mut toks: Vec<(usize, String)> = vec![];
    let mut p = 0;
    while p < header.len() {
        if header[p] == ' ' {
            p += 1;
            continue;
        }
        let s = p;
        while p < header.len() && header[p] != ' ' {
            p += 1;
        }
        toks.push((s, header[s..p].iter().collect()));
    }
    if toks.is_empty() {
        return Err("no header".into());
    }
    let form = match toks[0].1.as_str() {
        "j\\i" => Form::Grid,
        "i" => Form::Seq,
        other => return Err(format!("unknown table head '{other}'")),
    };
    if toks[0].0 != 1 {
        return Err("table head not in the first column".into());
    }
    let mut cols: Vec<isize> = vec![];
    for (_, t) in &toks[1..] {
        cols.push(t.parse::<isize>().map_err(|_| format!("column label '{t}' is not an integer"))?);
    }
    if cols.is_empty() {
        return Err("table without columns".into());
    }
    if cols.iter().collect::<BTreeSet<_>>().len() != cols.len() {
        return Err("repeated column label".into());
    }
    let starts: Vec<usize> = toks.iter().map(|(s, _)| *s).collect();
    let mut cells = BTreeMap::new();
    let mut seen_rows = BTreeSet::new();
    if lines.len() < 2 {
        return Err("table without rows".into());
    }
    for raw in &lines[1..] {
        let row: Vec<char> = raw.chars().collect();
        let piece = |k: usize| -> Result<String, String> {
            let a = starts[k];
            let b = if k + 1 < starts.len() { starts[k + 1] } else { row.len().max(a) };
            if a >= 1 && a - 1 < row.len() && row[a - 1] != ' ' {
                return Err(format!("row '{raw}' does not respect the column frame of the header"));
            }
            let s: String = row.iter().skip(a).take(b.saturating_sub(a)).collect();
            Ok(s.trim().to_string())
        };
        let label = piece(0)?;
        let j = match form {
            Form::Grid => label.parse::<isize>().map_err(|_| format!("row label '{label}' is not an integer"))?,
            Form::Seq => {
                if !label.is_empty() {
                    return Err(format!("unexpected row label '{label}' in a sequence"));
                }
                0
            }
        };
        if !seen_rows.insert(j) {
            return Err(format!("repeated row label {j}"));
        }
        for (k, &i) in cols.iter().enumerate() {
            let txt = piece(k + 1)?;
            if let Some(cell) = parse_cell(&txt, sym).map_err(|e| format!("cell ({i},{j}): {e}"))? {
                cells.insert((i, j), cell);
            }
        }
    }
    if form == Form::Seq && lines.len() != 2 {
        return Err("a sequence must have exactly one row".into());
    }
    Ok(Table { form, cols, cells })
}

/// "stdout contains no table frame"
fn looks_like_table(stdout: &str) -> bool {
    stdout.contains("j\\i")
        || stdout.lines().any(|l| {
            let mut it = l.split_whitespace();
            it.next() == Some("i") && it.clone().next().is_some() && it.all(|t| t.parse::<isize>().is_ok())
        })
}

// ------------------------------------------------------------------------------------------
// the library side (same entry points as cmd/kh.rs and cmd/ckh.rs)

fn cell_of<S>(s: &S) -> Option<Cell>
where
    S: SummandTrait,
    S::R: Ring,
    for<'x> &'x S::R: RingOps<S::R>,
{
    if s.rank() == 0 && s.tors().is_empty() {
        return None;
    }
    let mut tors = BTreeMap::new();
    for t in s.tors() {
        *tors.entry(t.to_string()).or_insert(0) += 1;
    }
    Some((s.rank(), tors))
}

/// `c` read as the ring `R`: the whole string, else `a,b` (cut at the last comma)
fn parse_pair<R: FromStr + Ring>(c: &str) -> Result<(R, R), String>
where
    for<'x> &'x R: RingOps<R>,
{
    if let Ok(a) = R::from_str(c) {
        return Ok((a, R::zero()));
    }
    if let Some(p) = c.rfind(',') {
        let (a, b) = (&c[..p], &c[p + 1..]);
        if !a.is_empty() && !b.is_empty() {
            if let (Ok(a), Ok(b)) = (R::from_str(a), R::from_str(b)) {
                return Ok((a, b));
            }
        }
    }
    Err(format!("'{c}' is not a scalar or a pair of scalars of the ring"))
}

fn load_link(arg: &str, mirror: bool) -> Result<Link, String> {
    let l = if let Ok(pd) = serde_json::from_str::<Vec<[usize; 4]>>(arg) {
        Link::from_pd_code(pd)
    } else {
        Link::load(arg).map_err(|e| format!("cannot load link: {e}"))?
    };
    Ok(if mirror { l.mirror() } else { l })
}

fn lib_kh<R>(k: &Combo, form: Form) -> Result<Table, String>
where
    R: EucRing + FromStr,
    for<'x> &'x R: EucRingOps<R>,
{
    let (h, t) = parse_pair::<R>(k.cval())?;
    let l = load_link(&k.link.arg, k.mirror)?;
    let kh = KhHomology::new(&l, &h, &t, k.reduced);
    let mut cells = BTreeMap::new();
    let cols: Vec<isize>;
    match form {
        Form::Seq => {
            cols = kh.support().collect();
            for i in kh.support() {
                if let Some(c) = cell_of(kh.get(i)) {
                    cells.insert((i, 0), c);
                }
            }
        }
        Form::Grid => {
            let g = kh.into_bigraded();
            let mut cs = BTreeSet::new();
            for isize2(i, j) in g.support() {
                cs.insert(i);
                if let Some(c) = cell_of(g.get(isize2(i, j))) {
                    cells.insert((i, j), c);
                }
            }
            cols = cs.into_iter().collect();
        }
    }
    Ok(Table { form, cols, cells })
}

fn lib_ckh<R>(k: &Combo, form: Form) -> Result<Table, String>
where
    R: Ring + FromStr,
    for<'x> &'x R: RingOps<R>,
{
    if form != Form::Grid {
        return Err("ckh prints the generator grid".into());
    }
    let (h, t) = parse_pair::<R>(k.cval())?;
    let l = load_link(&k.link.arg, k.mirror)?;
    let ckh = KhComplex::new(&l, &h, &t, k.reduced);
    let g = ckh.gen_grid();
    let mut cells = BTreeMap::new();
    let mut cs = BTreeSet::new();
    for isize2(i, j) in g.support() {
        cs.insert(i);
        if let Some(c) = cell_of(g.get(isize2(i, j))) {
            cells.insert((i, j), c);
        }
    }
    Ok(Table { form, cols: cs.into_iter().collect(), cells })
}

/// The ring meant by (-t, -c) per the specification table, then the library call.
fn lib_eval(k: &Combo, form: Form) -> Result<Table, String> {
    type Z = i64;
    type Q = Ratio<i64>;
    type F2 = FF<2>;
    type F3 = FF<3>;
    macro_rules! euc {
        ($R:ty) => {
            match k.cmd {
                Cmd::Kh => lib_kh::<$R>(k, form),
                Cmd::Ckh => lib_ckh::<$R>(k, form),
            }
        };
    }
    macro_rules! non_euc {
        ($R:ty) => {
            match k.cmd {
                Cmd::Kh => Err("not a Euclidean ring".to_string()),
                Cmd::Ckh => lib_ckh::<$R>(k, form),
            }
        };
    }
    let r = catch(|| match (vars_of(k.cval()), k.ct) {
        (Vars::None, CT::Z) => euc!(Z),
        (Vars::None, CT::Q) => euc!(Q),
        (Vars::None, CT::F2) => euc!(F2),
        (Vars::None, CT::F3) => euc!(F3),
        (Vars::H, CT::Z) => non_euc!(Poly<'H', Z>),
        (Vars::H, CT::Q) => euc!(Poly<'H', Q>),
        (Vars::H, CT::F2) => euc!(Poly<'H', F2>),
        (Vars::H, CT::F3) => euc!(Poly<'H', F3>),
        (Vars::T, CT::Z) => non_euc!(Poly<'T', Z>),
        (Vars::T, CT::Q) => euc!(Poly<'T', Q>),
        (Vars::T, CT::F2) => euc!(Poly<'T', F2>),
        (Vars::T, CT::F3) => euc!(Poly<'T', F3>),
        (Vars::HT, CT::Z) => non_euc!(Poly2<'H', 'T', Z>),
        (Vars::HT, CT::Q) => non_euc!(Poly2<'H', 'T', Q>),
        (Vars::HT, CT::F2) => non_euc!(Poly2<'H', 'T', F2>),
        (Vars::HT, CT::F3) => non_euc!(Poly2<'H', 'T', F3>),
    });
    match r {
        Ok(x) => x,
        Err(p) => Err(format!("panicked: {p}")),
    }
}

// ------------------------------------------------------------------------------------------
// running the command

#[derive(Clone, Debug)]
struct Obs {
    code: Option<i32>,
    timed_out: bool,
    stdout: String,
    stderr: String,
}

impl Obs {
    fn to_json(&self) -> Value {
        let cut = |s: &str| {
            let mut t: String = s.chars().take(3000).collect();
            if t.len() < s.len() {
                t.push_str(" ...");
            }
            t
        };
        json!({"exit": self.code, "timed_out": self.timed_out, "stdout": cut(&self.stdout), "stderr": cut(&self.stderr)})
    }
}

const PROC_TIMEOUT_S: u64 = 60;

fn run_cli(exe: &str, k: &Combo) -> Result<Obs, String> {
    let mut child = Command::new(exe)
        .args(k.args())
        .current_dir("/")
        .env("RUST_BACKTRACE", "0")
        .env_remove("RUST_LOG")
        .stdin(Stdio::null())
        .stdout(Stdio::piped())
        .stderr(Stdio::piped())
        .spawn()
        .map_err(|e| format!("cannot start {exe}: {e}"))?;
    let mut so = child.stdout.take().unwrap();
    let mut se = child.stderr.take().unwrap();
    let t1 = std::thread::spawn(move || {
        let mut b = vec![];
        let _ = so.read_to_end(&mut b);
        b
    });
    let t2 = std::thread::spawn(move || {
        let mut b = vec![];
        let _ = se.read_to_end(&mut b);
        b
    });
    let start = Instant::now();
    let mut timed_out = false;
    let status = loop {
        match child.try_wait() {
            Ok(Some(st)) => break Some(st),
            Ok(None) => {
                if start.elapsed() > Duration::from_secs(PROC_TIMEOUT_S) {
                    timed_out = true;
                    let _ = child.kill();
                    let _ = child.wait();
                    break None;
                }
                std::thread::sleep(Duration::from_millis(if start.elapsed() < Duration::from_millis(50) { 1 } else { 10 }));
            }
            Err(e) => return Err(format!("wait failed: {e}")),
        }
    };
    let stdout = String::from_utf8_lossy(&t1.join().unwrap_or_default()).to_string();
    let stderr = String::from_utf8_lossy(&t2.join().unwrap_or_default()).to_string();
    Ok(Obs { code: status.and_then(|s| s.code()), timed_out, stdout, stderr })
}

/// Builds the real binary from the repository's current working tree.  Failure = machinery
/// error (exit 2, no verdict).
fn build_binary(repo: &str, target_dir: &str) -> String {
    let out = Command::new("cargo")
        .args(["build", "--offline", "-p", "ykh", "--manifest-path", &format!("{repo}/Cargo.toml"), "--target-dir", target_dir])
        // not the harness' .cargo/config.toml (cfg yui_verif, rayon shim): the user's build
        .current_dir(repo)
        .env_remove("RUSTFLAGS")
        .env_remove("CARGO_ENCODED_RUSTFLAGS")
        .env_remove("CARGO_BUILD_RUSTFLAGS")
        .env_remove("CARGO_TARGET_DIR")
        .env_remove("CARGO_BUILD_TARGET_DIR")
        .env("CARGO_NET_OFFLINE", "true")
        .stdin(Stdio::null())
        .output();
    match out {
        Ok(o) if o.status.success() => {}
        Ok(o) => {
            let err = String::from_utf8_lossy(&o.stderr);
            let tail: Vec<&str> = err.lines().rev().take(40).collect();
            eprintln!("BUILD-FAILED property=C20: cargo build -p ykh failed (machinery error, not a verdict)");
            for l in tail.iter().rev() {
                eprintln!("  {l}");
            }
            std::process::exit(2);
        }
        Err(e) => {
            eprintln!("BUILD-FAILED property=C20: cannot run cargo: {e} (machinery error, not a verdict)");
            std::process::exit(2);
        }
    }
    let exe = format!("{target_dir}/debug/ykh");
    if !std::path::Path::new(&exe).exists() {
        eprintln!("BUILD-FAILED property=C20: {exe} missing after the build (machinery error)");
        std::process::exit(2);
    }
    exe
}

// ------------------------------------------------------------------------------------------
// judging one combination

const LIB_SAMPLES_MAX: usize = 400;
const LIB_SAMPLES_WALL_S: f64 = 4.0;
const CLI_RERUNS: usize = 7;

struct Ctx<'a> {
    run: &'a Run,
    exe: &'a str,
    distinct_tables: Mutex<BTreeSet<String>>,
    undecided: Mutex<Vec<String>>,
    nondet: Mutex<BTreeSet<String>>,
}

impl<'a> Ctx<'a> {
    fn fail(&self, k: &Combo, what: &str, obs: &Obs, extra: Value) {
        self.run.fail(
            &k.key(),
            what,
            json!({
                "command": k.cmdline(self.exe),
                "args": k.args(),
                "spec": format!("{:?}", spec(k)),
                "observed": obs.to_json(),
                "extra": extra,
            }),
        );
    }

    fn exec(&self, k: &Combo) -> Obs {
        self.run.add("evaluations", 1);
        match run_cli(self.exe, k) {
            Ok(o) => o,
            Err(e) => {
                eprintln!("ENGINE-ERROR property=C20: {e}");
                std::process::exit(2);
            }
        }
    }

    /// clean error result: non-zero exit that is not an escaped panic / signal / timeout, a
    /// message, and no table
    fn judge_error(&self, k: &Combo, obs: &Obs, why: &str) -> bool {
        if obs.timed_out {
            self.fail(k, &format!("no result within {PROC_TIMEOUT_S}s ({why})"), obs, json!({}));
            return false;
        }
        match obs.code {
            None => {
                self.fail(k, &format!("process killed by a signal ({why})"), obs, json!({}));
                return false;
            }
            Some(101) => {
                self.fail(k, &format!("panic escaped the guard: exit status 101 ({why})"), obs, json!({}));
                return false;
            }
            Some(0) => {
                self.fail(k, &format!("must be reported as an error, but exit status is 0 ({why})"), obs, json!({}));
                return false;
            }
            Some(_) => {}
        }
        if looks_like_table(&obs.stdout) || parse_table(&obs.stdout, &ring_symbol(k)).is_ok() {
            self.fail(k, &format!("error result prints a table on stdout ({why})"), obs, json!({}));
            return false;
        }
        if obs.stderr.trim().is_empty() && obs.stdout.trim().is_empty() {
            self.fail(k, &format!("error result without any message ({why})"), obs, json!({}));
            return false;
        }
        true
    }

    /// success: exit 0 and the printed table is a result of the library
    fn judge_table(&self, k: &Combo, first: &Obs, expect: Expect) -> Option<Table> {
        let sym = ring_symbol(k);
        let parse = |o: &Obs| parse_table(&o.stdout, &sym);
        let t = match parse(first) {
            Ok(t) => t,
            Err(e) => {
                self.fail(k, &format!("exit 0 but stdout is not a table of {sym}-modules: {e}"), first, json!({}));
                return None;
            }
        };
        let need_grid = k.cmd == Cmd::Ckh || zero_pair(k);
        if need_grid && t.form != Form::Grid {
            self.fail(k, "result is not printed as an (i,j) table", first, json!({"parsed": t.to_json()}));
            return None;
        }
        let form = t.form;
        // one evaluation of the library
        let l0 = lib_eval(k, form);
        self.run.add("library_evaluations", 1);
        if l0.as_ref().ok() == Some(&t) {
            self.run.add("matched_first_evaluation", 1);
            return Some(t);
        }
        // mismatch: sample the library (fresh hash seeds per evaluation) and re-run the command
        let mut lib_set: BTreeSet<Result<Table, String>> = BTreeSet::new();
        lib_set.insert(l0.clone());
        let mut cli_set: Vec<(Table, Obs)> = vec![(t.clone(), first.clone())];
        let started = Instant::now();
        let mut n = 1usize;
        let hit = |lib_set: &BTreeSet<Result<Table, String>>, cli_set: &Vec<(Table, Obs)>| cli_set.iter().any(|(t, _)| lib_set.contains(&Ok(t.clone())));
        let mut reruns = 0usize;
        while !hit(&lib_set, &cli_set) && n < LIB_SAMPLES_MAX && started.elapsed().as_secs_f64() < LIB_SAMPLES_WALL_S {
            lib_set.insert(lib_eval(k, form));
            n += 1;
            // interleave re-runs of the command
            if n % 50 == 0 && reruns < CLI_RERUNS {
                reruns += 1;
                let o = self.exec(k);
                if o.code == Some(0) {
                    if let Ok(t2) = parse(&o) {
                        if t2.form == form {
                            cli_set.push((t2, o));
                        }
                    }
                }
            }
        }
        self.run.add("library_evaluations", (n - 1) as u64);
        let lib_nondet = lib_set.len() > 1;
        let cli_nondet = cli_set.iter().map(|(t, _)| t).collect::<BTreeSet<_>>().len() > 1;
        if lib_nondet || cli_nondet {
            self.nondet.lock().unwrap().insert(k.key());
        }
        if hit(&lib_set, &cli_set) {
            self.run.add("matched_after_resampling", 1);
            return Some(t);
        }
        let lib_json: Vec<Value> = lib_set
            .iter()
            .take(4)
            .map(|r| match r {
                Ok(t) => t.to_json(),
                Err(e) => json!({"error": e}),
            })
            .collect();
        let extra = json!({
            "parsed": t.to_json(),
            "library_results_seen": lib_set.len(),
            "library_evaluations": n,
            "library (first few)": lib_json,
            "command_runs": cli_set.len(),
        });
        if !lib_nondet {
            // deterministic library, the command consistently prints something else
            let what = match &l0 {
                Ok(l) => format!("printed table differs from the library's result: {}", diff(&t, l)),
                Err(e) => format!("a table is printed although the library fails for these parameters ({e})"),
            };
            let _ = expect;
            self.fail(k, &what, first, extra);
            return None;
        }
        // nondeterministic library and no printed table met: judge the hash-order-free part
        let sums: BTreeSet<_> = lib_set.iter().filter_map(|r| r.as_ref().ok()).map(|l| (l.cols.clone(), l.column_sums())).collect();
        if cli_set.iter().all(|(t, _)| sums.contains(&(t.cols.clone(), t.column_sums()))) {
            self.run.add("undecided_cells", 1);
            self.undecided.lock().unwrap().push(k.key());
            return Some(t);
        }
        self.fail(
            k,
            "printed table has other homological degrees / ranks per homological degree than every sampled result of the (hash-order dependent) library",
            first,
            extra,
        );
        None
    }

    fn judge(&self, k: &Combo) {
        let expect = spec(k);
        let obs = self.exec(k);
        match expect {
            Expect::Failure(why) => {
                self.run.add("predicted_failure", 1);
                if self.judge_error(k, &obs, why) {
                    self.run.add("failed_cleanly", 1);
                }
            }
            Expect::Success | Expect::Either(_) => {
                if expect == Expect::Success {
                    self.run.add("predicted_success", 1);
                } else {
                    self.run.add("either", 1);
                }
                if obs.code == Some(0) && !obs.timed_out {
                    if let Some(t) = self.judge_table(k, &obs, expect) {
                        if expect == Expect::Success {
                            self.run.add("succeeded_and_matched", 1);
                            if !t.cells.is_empty() {
                                self.run.add("nontrivial_matched", 1);
                                self.distinct_tables.lock().unwrap().insert(format!("{:?}", t));
                            }
                        } else {
                            self.run.add("either_succeeded_and_matched", 1);
                        }
                        if is_sample(k) {
                            self.run.sample(json!({"command": k.cmdline(self.exe), "exit": 0, "stdout": obs.stdout, "parsed": t.to_json(), "verdict": "equals the library's result"}));
                        }
                    }
                } else if let Expect::Either(why) = expect {
                    if self.judge_error(k, &obs, why) {
                        self.run.add("either_failed_cleanly", 1);
                    }
                } else {
                    // predicted success but an error result: acceptable only as a cleanly
                    // reported internal failure, i.e. when the library itself fails
                    let form = if k.cmd == Cmd::Ckh || zero_pair(k) { Form::Grid } else { Form::Seq };
                    let l = lib_eval(k, form);
                    self.run.add("library_evaluations", 1);
                    match l {
                        Err(e) if e.starts_with("panicked") => {
                            if self.judge_error(k, &obs, "internal failure of the library") {
                                self.run.add("internal_failure_reported", 1);
                            }
                        }
                        _ => {
                            self.fail(
                                k,
                                "supported combination is reported as an error although the library computes a result",
                                &obs,
                                json!({"library": l.map(|t| t.to_json()).unwrap_or_else(|e| json!({"error": e}))}),
                            );
                        }
                    }
                }
            }
        }
    }
}

/// the written-out success samples of the evidence file
fn is_sample(k: &Combo) -> bool {
    let c = k.c.unwrap_or("<absent>");
    matches!(
        (k.cmd, k.ct, c, k.mirror, k.reduced, k.link.label),
        (Cmd::Kh, CT::Z, "<absent>", false, false, "3_1")
            | (Cmd::Kh, CT::Q, "H", true, true, "3_1")
            | (Cmd::Kh, CT::F2, "0,T", false, false, "hopf-pd")
            | (Cmd::Kh, CT::Z, "2", true, false, "3_1")
            | (Cmd::Ckh, CT::F3, "H,T", true, false, "hopf-pd")
            | (Cmd::Ckh, CT::Z, "1,1", false, false, "3_1")
    )
}

fn diff(cli: &Table, lib: &Table) -> String {
    let mut out: Vec<String> = vec![];
    let show = |c: &Cell| {
        let t: Vec<String> = c.1.iter().map(|(s, n)| format!("{s}x{n}")).collect();
        format!("rank {} tors [{}]", c.0, t.join(","))
    };
    for (p, c) in &cli.cells {
        match lib.cells.get(p) {
            None => out.push(format!("extra cell {p:?} = {}", show(c))),
            Some(l) if l != c => out.push(format!("cell {p:?}: printed {} / library {}", show(c), show(l))),
            _ => {}
        }
    }
    for (p, l) in &lib.cells {
        if !cli.cells.contains_key(p) {
            out.push(format!("missing cell {p:?} = {}", show(l)));
        }
    }
    if out.is_empty() && cli.cols != lib.cols {
        out.push(format!("columns {:?} vs library support {:?}", cli.cols, lib.cols));
    }
    out.truncate(8);
    out.join("; ")
}

// ------------------------------------------------------------------------------------------

fn self_test() {
    // the reader of the notation against hand-written tables (machinery check, exit 2 on failure)
    let t = parse_table("j\\i  -3  -2     -1  0 \n -1   .   .      .   Z \n -7   .   (Z/2)  .   Z\u{00B2} \u{2295} (Z/2)\u{00B2} \u{2295} (Z/3) \n -9   Z   .      .   .\n", "Z");
    let ok = match &t {
        Ok(t) => {
            t.form == Form::Grid
                && t.cols == vec![-3, -2, -1, 0]
                && t.cells.len() == 4
                && t.cells.get(&(-2, -7)) == Some(&(0, BTreeMap::from([("2".to_string(), 1)])))
                && t.cells.get(&(0, -7)) == Some(&(2, BTreeMap::from([("2".to_string(), 2), ("3".to_string(), 1)])))
                && t.cells.get(&(-3, -9)) == Some(&(1, BTreeMap::new()))
                && t.cells.get(&(0, -1)) == Some(&(1, BTreeMap::new()))
        }
        Err(_) => false,
    };
    let s = parse_table(" i  -3  -2         -1  0 \n     0   (Q[T]/T\u{00B2})  0   Q[T]\u{00B2}\n", "Q[T]");
    let ok2 = match &s {
        Ok(t) => t.form == Form::Seq && t.cells.len() == 2 && t.cells.get(&(-2, 0)) == Some(&(0, BTreeMap::from([("T\u{00B2}".to_string(), 1)]))) && t.cells.get(&(0, 0)) == Some(&(2, BTreeMap::new())),
        Err(_) => false,
    };
    let ok3 = parse_table(" j\\i  0 \n 0    Z[H, T]\n", "Z[H, T]").map(|t| t.cells.get(&(0, 0)) == Some(&(1, BTreeMap::new()))).unwrap_or(false);
    let ok4 = parse_table("error: x", "Z").is_err() && parse_table("", "Z").is_err() && parse_table(" j\\i  0 \n 0    Q\n", "Z").is_err();
    if !(ok && ok2 && ok3 && ok4) {
        eprintln!("ENGINE-ERROR property=C20: table reader self-test failed: {t:?} / {s:?} / {ok3} / {ok4}");
        std::process::exit(2);
    }
}

fn main() {
    let root = vcore::run::verif_root();
    let scratch = root != "/verif";
    let repo = std::env::var("VERIF_REPO").unwrap_or_else(|_| "/repo".to_string());
    let target_dir = if scratch { format!("{root}/target-ykh") } else { "/verif/target/ykh-bin".to_string() };

    self_test();
    let t0 = Instant::now();
    let exe = build_binary(&repo, &target_dir);
    let build_s = t0.elapsed().as_secs_f64();

    let run = Run::new("C20", "exploration");

    if std::env::var("C20_PROBE").is_ok() {
        probe(&repo);
        return;
    }

    // the hand-written PD codes are what their labels say (machinery check)
    for (arg, ncomp, ncross) in [("[[4,1,3,2],[2,3,1,4]]", 2, 2), ("[[1,2,2,1]]", 1, 1), ("[[6,1,3,2],[2,3,1,4],[4,5,5,6]]", 2, 3), ("[]", 0, 0)] {
        let ok = catch(|| {
            let l = load_link(arg, false).unwrap();
            (l.components().len(), l.crossing_num())
        });
        if ok != Ok((ncomp, ncross)) {
            eprintln!("ENGINE-ERROR property=C20: PD code {arg} is not a {ncomp}-component {ncross}-crossing diagram: {ok:?}");
            std::process::exit(2);
        }
    }

    let links: Vec<LinkIn> = link_inputs(&repo).into_iter().filter(|l| run.thorough() || l.quick).collect();
    let mut combos: Vec<Combo> = vec![];
    for link in &links {
        for cmd in CMDS {
            for ct in CTS {
                for c in CVALS {
                    for mirror in [false, true] {
                        for reduced in [false, true] {
                            combos.push(Combo { cmd, ct, c, mirror, reduced, link: link.clone() });
                        }
                    }
                }
            }
        }
    }
    let ctx = Ctx { run: &run, exe: &exe, distinct_tables: Mutex::new(BTreeSet::new()), undecided: Mutex::new(vec![]), nondet: Mutex::new(BTreeSet::new()) };
    let done = std::sync::atomic::AtomicUsize::new(0);
    run.par_for(combos.len(), |i| {
        if run.over_budget() {
            run.cap("wall budget reached before the product was exhausted");
            return;
        }
        ctx.judge(&combos[i]);
        done.fetch_add(1, std::sync::atomic::Ordering::Relaxed);
    });
    let done = done.into_inner();

    // a few written-out failure samples
    for k in combos.iter().filter(|k| matches!(spec(k), Expect::Failure(_))).step_by(combos.len() / 5 + 1).take(4) {
        let o = ctx.exec(k);
        run.sample(json!({"command": k.cmdline(&exe), "spec": format!("{:?}", spec(k)), "observed": o.to_json()}));
    }

    let distinct = ctx.distinct_tables.lock().unwrap().len();
    let undecided = ctx.undecided.lock().unwrap().clone();
    let nondet = ctx.nondet.lock().unwrap().len();
    let cov = json!({
        "evaluations": run.get("evaluations"),
        "combinations": combos.len(),
        "combinations_judged": done,
        "distinct_nontrivial": run.get("nontrivial_matched"),
        "distinct_tables": distinct,
        "rule": "evaluations = subprocess runs of the freshly built ykh binary (incl. re-runs); distinct_nontrivial = distinct option combinations predicted to succeed whose printed table has >= 1 non-zero cell and equals the library's result; distinct_tables = distinct parsed tables among them",
        "product": {
            "cmd": CMDS.iter().map(|c| c.name()).collect::<Vec<_>>(),
            "t": CTS.iter().map(|c| c.name()).collect::<Vec<_>>(),
            "c": CVALS.iter().map(|c| c.map(|s| format!("'{s}'")).unwrap_or("<absent>".into())).collect::<Vec<_>>(),
            "mirror": [false, true],
            "reduced": [false, true],
            "links": links.iter().map(|l| json!({"label": l.label, "arg": l.arg, "validity": format!("{:?}", l.validity)})).collect::<Vec<_>>(),
        },
        "predicted_success": run.get("predicted_success"),
        "predicted_failure": run.get("predicted_failure"),
        "either": run.get("either"),
        "hash_order_dependent_combinations": nondet,
        "undecided_cells": undecided.len(),
        "undecided_cells_keys": undecided.iter().take(40).collect::<Vec<_>>(),
        "binary": exe,
        "build_s": (build_s * 10.0).round() / 10.0,
        "exhaustive": done == combos.len(),
    });
    run.finish(
        cov,
        &[
            "the binary is the dev-profile build of the working tree with default features (poly); -t Gauss/Eisen, -f tex, -g/-a/-s/-d and the khi/ckhi commands are outside the property's quantifier",
            "module notation: all characters have display width 1 (true for Z, Q, F\u{2082}, F\u{2083}, [H], [T], [H, T], superscripts, \u{2295})",
            "torsion orders are compared through the ring's own Display; ranks, multiplicities, cell positions and the ring symbol through the harness' reader",
            "for scalars that break the q-grading the generator grid of ckh depends on per-process hash seeds; membership in a sampled set of library results is required, see undecided_cells",
        ],
    );
}

/// development aid: how nondeterministic is the library inside one process?
fn probe(_repo: &str) {
    for (cmd, link, c) in [(Cmd::Ckh, "4_1", "1,1"), (Cmd::Ckh, "5_2", "1,1"), (Cmd::Ckh, "3_1", "0"), (Cmd::Kh, "5_2", "1,1"), (Cmd::Ckh, "5_2", "1")] {
        let k = Combo {
            cmd,
            ct: CT::Z,
            c: Some(c),
            mirror: false,
            reduced: false,
            link: LinkIn { label: "probe", arg: link.to_string(), validity: Validity::Valid, empty: false, quick: true },
        };
        let form = if cmd == Cmd::Ckh { Form::Grid } else { Form::Seq };
        let t = Instant::now();
        let mut set = BTreeSet::new();
        let mut sums = BTreeSet::new();
        for _ in 0..300 {
            let r = lib_eval(&k, form);
            if let Ok(t) = &r {
                sums.insert(t.column_sums());
            }
            set.insert(r);
        }
        println!("{} {link} -c {c}: {} distinct results, {} distinct column sums in 300 evaluations, {:.2}s", cmd.name(), set.len(), sums.len(), t.elapsed().as_secs_f64());
    }
}
