//! C16 — polynomial and linear-combination types form the free algebra they denote.
//!
//! Types: `Poly, LPoly, Poly2, LPoly2, Poly3, PolyN, LPolyN` (= `PolyBase<X,R>` for the eight monomial
//! kinds), `HPoly`, `Lc<Free<i32>,R>` over R = i64, Ratio<i64>, FF2, FF<3>, GaussInt<i64>.
//! Reference: sparse multivariate polynomial `BTreeMap<Vec<i64>, coeff>` without zero coefficients
//! (in this file), coefficient arithmetic by `vcore::refnum`.
//!
//! Layers per (type, ring), all complete enumerations of their stated bounds:
//!  U  every polynomial of the enumeration A (<= 2 / <= 3 terms, exponents {0,1,2} resp. {-1,0,1,2},
//!     coefficients {1,-1,2,-2} (+1/2 over Q, +i over Z[i]; all non-zero elements of F_p)):
//!     construction, every observer, negation, scalar multiplication in every calling form (two forms
//!     on the three-term polynomials of the thorough tier);
//!  S  (polynomials of A with <= 2 terms) x special partners (0, 1, 2, x0, 1-x0, x0+xl, x0^-1; thorough
//!     also -1, -x0, 1+x0, 2x0^2, x0-xl, xl, xl^-1+x0) in both orders: +, -, * — a constant meets a
//!     non-constant in `*=` on either side;
//!  P  all ordered pairs of a pair alphabet (the largest rung of a fixed ladder of enumerations that
//!     fits the pair budget): +, -, * in all six calling forms, `==`;
//!  T  ring axioms as identities between library values over all triples of a small alphabet;
//!  E  `eval` on a grid (Poly, Poly2, Poly3 over Z — the only instances the library can evaluate):
//!     value = reference value, additive and multiplicative over all pairs of P;
//!  O  `cmp_lex` / `cmp_grlex`, monomial product / quotient over all monomial pairs and triples of a box;
//!  H  histories: BFS over `+=, -=, *=` (polynomial and scalar right-hand sides) from 0 and 1.
//! After every operation the stored terms (no zero coefficient, no zero exponent, no duplicate
//! monomial), `nterms`, `is_zero`, `is_one`, `==`, `lead_term`, `lead_deg`, `coeff`, `is_const`,
//! `const_term` are compared with the reference.

use checks::bridge::Bridge;
use std::cmp::Ordering;
use std::collections::BTreeMap;
use std::hash::{Hash, Hasher};
use std::marker::PhantomData;
use std::sync::atomic::{AtomicU64, Ordering as AtOrd};
use vcore::bfs::bfs;
use vcore::refnum::*;
use vcore::{catch, json, Run, Value};
use yui::lc::{Free, Lc};
use yui::poly::{HPoly, Mono, MultiVar, PolyBase, Var, Var2, Var3};
use yui::{GaussInt, Ratio, Ring, RingOps, FF, FF2};

// ---------------------------------------------------------------------------------------------
// hot counters
// ---------------------------------------------------------------------------------------------

#[derive(Clone, Copy)]
enum C {
    Ev,
    Polys,
    Pairs,
    Triples,
    Axiom,
    MonoPairs,
    MonoTriples,
    EvalPts,
    HistOps,
    HistSkip,
    OutOfDomain,
}
const CN: [&str; 11] = [
    "evaluations",
    "polynomials_checked",
    "pairs",
    "triples",
    "axiom_instances",
    "monomial_pairs",
    "monomial_triples",
    "eval_points",
    "history_ops",
    "history_steps_out_of_domain",
    "operations_out_of_domain",
];
static CV: [AtomicU64; 11] = [const { AtomicU64::new(0) }; 11];

fn tick(c: C, n: u64) {
    CV[c as usize].fetch_add(n, AtOrd::Relaxed);
}

/// true (and the run is marked as capped) when the wall budget of the tier is used up
fn out_of_time(run: &Run) -> bool {
    if run.over_budget() {
        run.cap("wall budget of the tier exhausted before the enumeration was complete");
        true
    } else {
        false
    }
}

fn flush(run: &Run) {
    for (i, name) in CN.iter().enumerate() {
        let v = CV[i].swap(0, AtOrd::Relaxed);
        if v > 0 {
            run.add(name, v);
        }
    }
}

// ---------------------------------------------------------------------------------------------
// reference: sparse multivariate (Laurent) polynomial
// ---------------------------------------------------------------------------------------------

type Exp = Vec<i64>;

fn lex_ref(a: &Exp, b: &Exp) -> Ordering {
    // x0 > x1 > ... : the first differing exponent decides
    a.cmp(b)
}

fn grlex_ref(a: &Exp, b: &Exp) -> Ordering {
    let (ta, tb): (i64, i64) = (a.iter().sum(), b.iter().sum());
    ta.cmp(&tb).then_with(|| lex_ref(a, b))
}

fn exp_add(a: &Exp, b: &Exp) -> Exp {
    a.iter().zip(b).map(|(x, y)| x + y).collect()
}

#[derive(Clone, PartialEq, Eq, Hash, Debug)]
struct RP<K: RefRing>(BTreeMap<Exp, K>);

impl<K: RefRing> RP<K> {
    fn zero() -> Self {
        RP(BTreeMap::new())
    }
    fn put(m: &mut BTreeMap<Exp, K>, e: Exp, k: K) {
        if k.is_zero() {
            return;
        }
        match m.get(&e) {
            Some(old) => {
                let s = old.add(&k);
                if s.is_zero() {
                    m.remove(&e);
                } else {
                    m.insert(e, s);
                }
            }
            None => {
                m.insert(e, k);
            }
        }
    }
    fn from_terms(it: impl IntoIterator<Item = (Exp, K)>) -> Self {
        let mut m = BTreeMap::new();
        for (e, k) in it {
            Self::put(&mut m, e, k);
        }
        RP(m)
    }
    fn constant(nv: usize, k: K) -> Self {
        Self::from_terms([(vec![0; nv], k)])
    }
    fn add(&self, o: &Self) -> Self {
        let mut m = self.0.clone();
        for (e, k) in &o.0 {
            Self::put(&mut m, e.clone(), k.clone());
        }
        RP(m)
    }
    fn neg(&self) -> Self {
        RP(self.0.iter().map(|(e, k)| (e.clone(), k.neg())).collect())
    }
    fn sub(&self, o: &Self) -> Self {
        self.add(&o.neg())
    }
    fn mul(&self, o: &Self) -> Self {
        let mut m = BTreeMap::new();
        for (e, k) in &self.0 {
            for (f, l) in &o.0 {
                Self::put(&mut m, exp_add(e, f), k.mul(l));
            }
        }
        RP(m)
    }
    /// p * k (coefficients multiplied from the right, as the library does; the rings are commutative)
    fn scale(&self, k: &K) -> Self {
        Self::from_terms(self.0.iter().map(|(e, c)| (e.clone(), c.mul(k))))
    }
    fn nterms(&self) -> usize {
        self.0.len()
    }
    fn is_zero(&self) -> bool {
        self.0.is_empty()
    }
    fn coeff(&self, e: &Exp) -> K {
        self.0.get(e).cloned().unwrap_or_else(K::zero)
    }
    fn is_const(&self) -> bool {
        self.0.keys().all(|e| e.iter().all(|x| *x == 0))
    }
    fn is_one(&self, nv: usize) -> bool {
        *self == Self::constant(nv, K::one())
    }
    /// leading term w.r.t. graded lex; (1, 0) for the zero polynomial
    fn lead(&self, nv: usize) -> (Exp, K) {
        self.0.iter().max_by(|a, b| grlex_ref(a.0, b.0)).map(|(e, k)| (e.clone(), k.clone())).unwrap_or((vec![0; nv], K::zero()))
    }
    fn eval(&self, pt: &[K]) -> K {
        let mut s = K::zero();
        for (e, k) in &self.0 {
            let mut t = k.clone();
            for (i, &d) in e.iter().enumerate() {
                assert!(d >= 0);
                for _ in 0..d {
                    t = t.mul(&pt[i]);
                }
            }
            s = s.add(&t);
        }
        s
    }
    fn show(&self) -> String {
        if self.0.is_empty() {
            return "0".into();
        }
        self.0.iter().map(|(e, k)| format!("{}*x^{:?}", k.show(), e)).collect::<Vec<_>>().join(" + ")
    }
}

/// per coefficient ring: the coefficient and scalar alphabets
trait RingSpec: RefRing {
    fn coeffs() -> Vec<Self>;
    fn scalars() -> Vec<Self>;
    fn coeffs_pm() -> Vec<Self> {
        let mut v = vec![Self::one()];
        if Self::one().neg() != Self::one() {
            v.push(Self::one().neg());
        }
        v
    }
}

impl RingSpec for Z {
    fn coeffs() -> Vec<Self> {
        vec![z(1), z(-1), z(2), z(-2)]
    }
    fn scalars() -> Vec<Self> {
        vec![z(0), z(1), z(-1), z(2), z(-3)]
    }
}
impl RingSpec for Q {
    fn coeffs() -> Vec<Self> {
        vec![Q::int(1), Q::int(-1), Q::int(2), Q::int(-2), Q::new(z(1), z(2))]
    }
    fn scalars() -> Vec<Self> {
        vec![Q::int(0), Q::int(1), Q::int(-1), Q::int(2), Q::new(z(-1), z(2))]
    }
}
impl RingSpec for Fp<2> {
    fn coeffs() -> Vec<Self> {
        vec![Fp(1)]
    }
    fn scalars() -> Vec<Self> {
        vec![Fp(0), Fp(1)]
    }
}
impl RingSpec for Fp<3> {
    fn coeffs() -> Vec<Self> {
        vec![Fp(1), Fp(2)]
    }
    fn scalars() -> Vec<Self> {
        vec![Fp(0), Fp(1), Fp(2)]
    }
}
impl RingSpec for Quad<-1> {
    fn coeffs() -> Vec<Self> {
        vec![Quad::of(1, 0), Quad::of(-1, 0), Quad::of(2, 0), Quad::of(-2, 0), Quad::of(0, 1)]
    }
    fn scalars() -> Vec<Self> {
        vec![Quad::of(0, 0), Quad::of(1, 0), Quad::of(-1, 0), Quad::of(0, 1), Quad::of(1, 1)]
    }
}

// ---------------------------------------------------------------------------------------------
// monomial kinds
// ---------------------------------------------------------------------------------------------

trait MonoX: Mono + Clone + Send + Sync + 'static {
    const NV: usize;
    const SIGNED: bool;
    const KIND: &'static str;
    fn from_exps(e: &[i64]) -> Self;
    fn exps(&self) -> Exp;
    /// the monomial itself is stored canonically (no zero exponent, no foreign index)
    fn stored_ok(&self) -> bool {
        true
    }
    fn deg_exps(d: &<Self as Mono>::Deg) -> Exp;
    /// `total_deg()` where the kind has one
    fn total_deg_i64(&self) -> Option<i64> {
        None
    }
    /// observers of the multi-degree (`ninds`, `indices`, `min_index`, `max_index`, `total`, `all_leq`,
    /// `all_geq`) on the pair (a, b) against the exponent vectors; Some(defect) on a disagreement
    fn mdeg_defect(_a: &Self, _ea: &Exp, _b: &Self, _eb: &Exp) -> Option<String> {
        None
    }
}

macro_rules! monox_var {
    ($i:ty, $signed:expr, $k1:expr, $k2:expr, $k3:expr, $kn:expr) => {
        impl MonoX for Var<'x', $i> {
            const NV: usize = 1;
            const SIGNED: bool = $signed;
            const KIND: &'static str = $k1;
            fn from_exps(e: &[i64]) -> Self {
                Var::from(e[0] as $i)
            }
            fn exps(&self) -> Exp {
                vec![self.deg() as i64]
            }
            fn deg_exps(d: &$i) -> Exp {
                vec![*d as i64]
            }
        }
        impl MonoX for Var2<'x', 'y', $i> {
            const NV: usize = 2;
            const SIGNED: bool = $signed;
            const KIND: &'static str = $k2;
            fn from_exps(e: &[i64]) -> Self {
                Var2::from((e[0] as $i, e[1] as $i))
            }
            fn exps(&self) -> Exp {
                let d = self.deg();
                vec![d.0 as i64, d.1 as i64]
            }
            fn deg_exps(d: &($i, $i)) -> Exp {
                vec![d.0 as i64, d.1 as i64]
            }
            fn total_deg_i64(&self) -> Option<i64> {
                Some(self.total_deg() as i64)
            }
        }
        impl MonoX for Var3<'x', 'y', 'z', $i> {
            const NV: usize = 3;
            const SIGNED: bool = $signed;
            const KIND: &'static str = $k3;
            fn from_exps(e: &[i64]) -> Self {
                Var3::from((e[0] as $i, e[1] as $i, e[2] as $i))
            }
            fn exps(&self) -> Exp {
                let d = self.deg();
                vec![d.0 as i64, d.1 as i64, d.2 as i64]
            }
            fn deg_exps(d: &($i, $i, $i)) -> Exp {
                vec![d.0 as i64, d.1 as i64, d.2 as i64]
            }
            fn total_deg_i64(&self) -> Option<i64> {
                Some(self.total_deg() as i64)
            }
        }
        impl MonoX for MultiVar<'x', $i> {
            const NV: usize = 3;
            const SIGNED: bool = $signed;
            const KIND: &'static str = $kn;
            fn from_exps(e: &[i64]) -> Self {
                MultiVar::from_iter(e.iter().enumerate().map(|(i, d)| (i, *d as $i)))
            }
            fn exps(&self) -> Exp {
                (0..3).map(|i| self.deg_for(i) as i64).collect()
            }
            fn stored_ok(&self) -> bool {
                self.deg().iter().all(|(&i, d)| i < 3 && *d != 0)
            }
            fn deg_exps(d: &<Self as Mono>::Deg) -> Exp {
                (0..3).map(|i| d[i] as i64).collect()
            }
            fn total_deg_i64(&self) -> Option<i64> {
                Some(self.total_deg() as i64)
            }
            fn mdeg_defect(a: &Self, ea: &Exp, b: &Self, eb: &Exp) -> Option<String> {
                let (da, db) = (a.deg(), b.deg());
                let supp: Vec<usize> = (0..ea.len()).filter(|&i| ea[i] != 0).collect();
                let mut inds: Vec<usize> = da.indices().cloned().collect();
                inds.sort();
                if inds != supp || da.ninds() != supp.len() {
                    return Some(format!("indices = {inds:?}, ninds = {} ; support of the exponent vector is {supp:?}", da.ninds()));
                }
                if da.min_index() != supp.first().cloned() || da.max_index() != supp.last().cloned() {
                    return Some(format!("min_index / max_index = {:?} / {:?} ; support {supp:?}", da.min_index(), da.max_index()));
                }
                if da.total() as i64 != ea.iter().sum::<i64>() {
                    return Some(format!("total = {} ; sum of exponents {}", da.total(), ea.iter().sum::<i64>()));
                }
                let leq = ea.iter().zip(eb).all(|(x, y)| x <= y);
                let geq = ea.iter().zip(eb).all(|(x, y)| x >= y);
                if da.all_leq(&db) != leq || da.all_geq(&db) != geq {
                    return Some(format!("all_leq / all_geq = {} / {} ; componentwise comparison gives {leq} / {geq}", da.all_leq(&db), da.all_geq(&db)));
                }
                None
            }
        }
    };
}
monox_var!(usize, false, "Var<usize>", "Var2<usize>", "Var3<usize>", "MultiVar<usize>");
monox_var!(isize, true, "Var<isize>", "Var2<isize>", "Var3<isize>", "MultiVar<isize>");

// ---------------------------------------------------------------------------------------------
// the types under test behind one interface
// ---------------------------------------------------------------------------------------------

#[derive(Clone, Copy, PartialEq, Eq, Debug)]
enum Op {
    Add,
    Sub,
    Mul,
}

impl Op {
    fn name(self) -> &'static str {
        match self {
            Op::Add => "add",
            Op::Sub => "sub",
            Op::Mul => "mul",
        }
    }
}

const FORMS: [&str; 6] = ["val.val", "val.ref", "ref.val", "ref.ref", "assign.val", "assign.ref"];

macro_rules! six {
    ($form:expr, $a:ident, $b:ident, $o:tt, $oa:tt) => {
        match $form {
            0 => $a.clone() $o $b.clone(),
            1 => $a.clone() $o $b,
            2 => $a $o $b.clone(),
            3 => $a $o $b,
            4 => {
                let mut x = $a.clone();
                x $oa $b.clone();
                x
            }
            _ => {
                let mut x = $a.clone();
                x $oa $b;
                x
            }
        }
    };
}

type KRef<P> = <<P as Sut>::C as Bridge>::Ref;

trait Sut: Clone + PartialEq + Send + Sync + 'static {
    type C: Bridge;
    const NV: usize;
    const SIGNED: bool;
    const HAS_MUL: bool;
    const MAX_TERMS: usize;
    fn name() -> String;
    fn build(terms: &[(Exp, Self::C)]) -> Self;
    /// the stored terms: exponents, coefficient, "monomial stored canonically"
    fn dump(&self) -> Vec<(Exp, Self::C, bool)>;
    fn show(&self) -> String;
    fn bin(op: Op, form: usize, a: &Self, b: &Self) -> Self;
    fn neg(form: usize, a: &Self) -> Self;
    fn scal(form: usize, a: &Self, c: &Self::C) -> Self;
    /// the operation is defined on these operands (HPoly: sums of equal degree only)
    fn in_domain(_op: Op, _a: &RP<KRef<Self>>, _b: &RP<KRef<Self>>) -> bool {
        true
    }
    /// every coefficient-mapping API of the type applied with `f` (a map that may send non-zero
    /// coefficients to zero): (api name, result)
    fn coeff_mapped(&self, _f: &(dyn Fn(&Self::C) -> Self::C + Sync)) -> Vec<(&'static str, Self)> {
        vec![]
    }
    /// every generator-mapping / filtering API applied with the exponent map `g` (terms may
    /// merge and cancel) resp. the predicate `keep`: (api name, result, expected-by: 0 = map g, 1 = filter)
    fn gen_mapped(&self, _g: &(dyn Fn(&Exp) -> Exp + Sync), _keep: &(dyn Fn(&Exp) -> bool + Sync)) -> Vec<(&'static str, Self, u8)> {
        vec![]
    }
    /// every single-term constructor of the type applied to (x^e, c), c possibly zero: (api name, result)
    fn single_term_ctors(_e: &Exp, _c: &Self::C) -> Vec<(&'static str, Self)> {
        vec![]
    }
    /// `v + c*x^e` through the term-level mutators (`add_pair` + `clean`, ...)
    fn pair_added(&self, _e: &Exp, _c: &Self::C) -> Vec<(&'static str, Self)> {
        vec![]
    }
    /// `Lc::combine` with the generator map (x, y) -> x + y, i.e. the Laurent product in one variable
    fn combined(&self, _o: &Self) -> Option<Self> {
        None
    }
    /// term-level observers (`any_term`, `gens`, `is_gen/is_mono`, `as_gen/as_mono`, `sort_terms_by`) against
    /// the value's own (already judged) term list; the expected support and the "is a single generator
    /// with coefficient 1" answer come from the reference
    fn term_obs_defect(&self, _support: &[Exp], _single_gen: Option<&Exp>) -> Option<String> {
        None
    }
    fn o_is_zero(&self) -> bool;
    fn o_nterms(&self) -> Option<usize> {
        None
    }
    fn o_is_one(&self) -> Option<bool> {
        None
    }
    fn o_coeff(&self, _e: &Exp) -> Option<Self::C> {
        None
    }
    fn o_lead(&self) -> Option<(Exp, Self::C)> {
        None
    }
    fn o_lead_deg(&self) -> Option<Exp> {
        None
    }
    fn o_is_const(&self) -> Option<bool> {
        None
    }
    fn o_const_term(&self) -> Option<Self::C> {
        None
    }
}

macro_rules! sut_ops {
    () => {
        fn bin(op: Op, form: usize, a: &Self, b: &Self) -> Self {
            match op {
                Op::Add => six!(form, a, b, +, +=),
                Op::Sub => six!(form, a, b, -, -=),
                Op::Mul => Self::mul_impl(form, a, b),
            }
        }
        fn neg(form: usize, a: &Self) -> Self {
            match form {
                0 => -a.clone(),
                _ => -a,
            }
        }
        fn scal(form: usize, a: &Self, c: &Self::C) -> Self {
            six!(form, a, c, *, *=)
        }
    };
}

trait MulImpl: Sized {
    fn mul_impl(form: usize, a: &Self, b: &Self) -> Self;
}

impl<X, R> MulImpl for PolyBase<X, R>
where
    X: MonoX,
    R: Ring + Bridge,
    for<'x> &'x R: RingOps<R>,
{
    fn mul_impl(form: usize, a: &Self, b: &Self) -> Self {
        six!(form, a, b, *, *=)
    }
}

impl<R> MulImpl for HPoly<'x', R>
where
    R: Ring + Bridge,
    for<'x> &'x R: RingOps<R>,
{
    fn mul_impl(form: usize, a: &Self, b: &Self) -> Self {
        six!(form, a, b, *, *=)
    }
}

impl<R> MulImpl for Lc<Free<i32>, R>
where
    R: Ring + Bridge,
    for<'x> &'x R: RingOps<R>,
{
    fn mul_impl(_: usize, _: &Self, _: &Self) -> Self {
        unreachable!("Lc<Free,_> has no product")
    }
}

impl<X, R> Sut for PolyBase<X, R>
where
    X: MonoX,
    R: Ring + Bridge,
    for<'x> &'x R: RingOps<R>,
{
    type C = R;
    const NV: usize = X::NV;
    const SIGNED: bool = X::SIGNED;
    const HAS_MUL: bool = true;
    const MAX_TERMS: usize = usize::MAX;
    fn name() -> String {
        format!("PolyBase<{},{}>", X::KIND, R::NAME)
    }
    fn build(terms: &[(Exp, R)]) -> Self {
        terms.iter().map(|(e, c)| (X::from_exps(e), c.clone())).collect()
    }
    fn single_term_ctors(e: &Exp, c: &R) -> Vec<(&'static str, Self)> {
        let mut v = vec![("PolyBase::from((x, c))", PolyBase::from((X::from_exps(e), c.clone()))), ("Lc::from((x, c)) -> PolyBase", PolyBase::from(Lc::from((X::from_exps(e), c.clone()))))];
        if e.iter().all(|&d| d == 0) {
            v.push(("PolyBase::from_const(c)", PolyBase::from_const(c.clone())));
        }
        v
    }
    fn dump(&self) -> Vec<(Exp, R, bool)> {
        self.iter().map(|(x, c)| (x.exps(), c.clone(), x.stored_ok())).collect()
    }
    fn show(&self) -> String {
        self.to_string()
    }
    sut_ops!();
    fn coeff_mapped(&self, f: &(dyn Fn(&R) -> R + Sync)) -> Vec<(&'static str, Self)> {
        vec![
            ("PolyBase::map_coeffs", self.map_coeffs(|c| f(c))),
            ("Lc::map_coeffs", PolyBase::from(self.inner().map_coeffs(|c| f(c)))),
            ("Lc::into_map_coeffs", PolyBase::from(self.inner().clone().into_map_coeffs(|c| f(&c)))),
            ("Lc::map", PolyBase::from(self.inner().map(|x, c| (x.clone(), f(c))))),
            ("Lc::into_map", PolyBase::from(self.inner().clone().into_map(|x, c| (x, f(&c))))),
        ]
    }
    fn term_obs_defect(&self, support: &[Exp], single_gen: Option<&Exp>) -> Option<String> {
        let lc: &Lc<_, R> = self.inner();
        let ex = |x: &X| -> Exp { x.exps() };
        let mut g: Vec<Exp> = lc.gens().map(|x| ex(x)).collect();
        g.sort();
        let mut sup = support.to_vec();
        sup.sort();
        if g != sup {
            return Some(format!("gens() = {g:?} ; support is {sup:?}"));
        }
        match self.any_term() {
            None if sup.is_empty() => {}
            Some((x, c)) if sup.contains(&ex(x)) && lc.coeff(x) == c => {}
            r => return Some(format!("any_term() = {:?} on a value with support {sup:?}", r.map(|(x, _)| ex(x)))),
        }
        if self.is_mono() != single_gen.is_some() || self.as_mono().map(|x| ex(&x)) != single_gen.cloned() {
            return Some(format!("is_gen / as_gen = {} / {:?} ; expected {:?}", self.is_mono(), self.as_mono().map(|x| ex(&x)), single_gen));
        }
        let sorted: Vec<Exp> = self.sort_terms_by(|x, y| x.exps().cmp(&y.exps())).map(|(x, _)| ex(x)).collect();
        if sorted != sup {
            return Some(format!("sort_terms_by(ascending) lists {sorted:?} ; expected {sup:?}"));
        }
        None
    }
    fn o_is_zero(&self) -> bool {
        num_traits::Zero::is_zero(self)
    }
    fn o_nterms(&self) -> Option<usize> {
        Some(PolyBase::nterms(self))
    }
    fn o_is_one(&self) -> Option<bool> {
        Some(num_traits::One::is_one(self))
    }
    fn o_coeff(&self, e: &Exp) -> Option<R> {
        let x = X::from_exps(e);
        let a = PolyBase::coeff(self, &x).clone();
        let b = self.coeff_for(x.deg()).clone();
        assert!(a == b, "coeff and coeff_for disagree");
        Some(a)
    }
    fn o_lead(&self) -> Option<(Exp, R)> {
        let (x, c) = self.lead_term();
        assert!(c == self.lead_coeff(), "lead_term and lead_coeff disagree");
        Some((x.exps(), c.clone()))
    }
    fn o_lead_deg(&self) -> Option<Exp> {
        Some(X::deg_exps(&self.lead_deg()))
    }
    fn o_is_const(&self) -> Option<bool> {
        Some(self.is_const())
    }
    fn o_const_term(&self) -> Option<R> {
        Some(self.const_term().clone())
    }
}

impl<R> Sut for HPoly<'x', R>
where
    R: Ring + Bridge,
    for<'x> &'x R: RingOps<R>,
{
    type C = R;
    const NV: usize = 1;
    const SIGNED: bool = false;
    const HAS_MUL: bool = true;
    const MAX_TERMS: usize = 1;
    fn name() -> String {
        format!("HPoly<{}>", R::NAME)
    }
    fn build(terms: &[(Exp, R)]) -> Self {
        match terms {
            [] => <Self as num_traits::Zero>::zero(),
            [(e, c)] => HPoly::new(e[0] as usize, c.clone()),
            _ => panic!("HPoly has one term"),
        }
    }
    fn dump(&self) -> Vec<(Exp, R, bool)> {
        // a single (deg, coeff) pair; a zero coefficient at any degree *is* the zero value here
        if num_traits::Zero::is_zero(self.coeff()) {
            vec![]
        } else {
            vec![(vec![self.deg() as i64], self.coeff().clone(), true)]
        }
    }
    fn show(&self) -> String {
        self.to_string()
    }
    sut_ops!();
    fn in_domain(op: Op, a: &RP<KRef<Self>>, b: &RP<KRef<Self>>) -> bool {
        match op {
            Op::Mul => true,
            _ => a.is_zero() || b.is_zero() || a.0.keys().next() == b.0.keys().next(),
        }
    }
    fn o_is_zero(&self) -> bool {
        num_traits::Zero::is_zero(self)
    }
    fn o_is_one(&self) -> Option<bool> {
        Some(num_traits::One::is_one(self))
    }
    fn o_lead(&self) -> Option<(Exp, R)> {
        if num_traits::Zero::is_zero(self) {
            Some((vec![0], self.coeff().clone()))
        } else {
            Some((vec![self.deg() as i64], self.coeff().clone()))
        }
    }
}

impl<R> Sut for Lc<Free<i32>, R>
where
    R: Ring + Bridge,
    for<'x> &'x R: RingOps<R>,
{
    type C = R;
    const NV: usize = 1;
    const SIGNED: bool = true; // generators Free(-1), Free(0), Free(1), Free(2)
    const HAS_MUL: bool = false;
    const MAX_TERMS: usize = usize::MAX;
    fn name() -> String {
        format!("Lc<Free<i32>,{}>", R::NAME)
    }
    fn build(terms: &[(Exp, R)]) -> Self {
        terms.iter().map(|(e, c)| (Free(e[0] as i32), c.clone())).collect()
    }
    fn single_term_ctors(e: &Exp, c: &R) -> Vec<(&'static str, Self)> {
        vec![("Lc::from((x, c))", Lc::from((Free(e[0] as i32), c.clone())))]
    }
    fn dump(&self) -> Vec<(Exp, R, bool)> {
        self.iter().map(|(x, c)| (vec![x.0 as i64], c.clone(), true)).collect()
    }
    fn show(&self) -> String {
        self.to_string()
    }
    sut_ops!();
    fn coeff_mapped(&self, f: &(dyn Fn(&R) -> R + Sync)) -> Vec<(&'static str, Self)> {
        vec![
            ("Lc::map_coeffs", self.map_coeffs(|c| f(c))),
            ("Lc::into_map_coeffs", self.clone().into_map_coeffs(|c| f(&c))),
            ("Lc::map", self.map(|x, c| (x.clone(), f(c)))),
            ("Lc::into_map", self.clone().into_map(|x, c| (x, f(&c)))),
        ]
    }
    fn gen_mapped(&self, g: &(dyn Fn(&Exp) -> Exp + Sync), keep: &(dyn Fn(&Exp) -> bool + Sync)) -> Vec<(&'static str, Self, u8)> {
        let gg = |x: &Free<i32>| Free(g(&vec![x.0 as i64])[0] as i32);
        let kk = |x: &Free<i32>| keep(&vec![x.0 as i64]);
        vec![
            ("Lc::map_gens", self.map_gens(|x| gg(x)), 0),
            ("Lc::into_map_gens", self.clone().into_map_gens(|x| gg(&x)), 0),
            ("Lc::apply(single generator)", self.apply(|x| Lc::from(gg(x))), 0),
            ("Lc::filter_gens", self.filter_gens(|x| kk(x)), 1),
            ("Lc::into_filter_gens", self.clone().into_filter_gens(|x| kk(x)), 1),
        ]
    }
    fn pair_added(&self, e: &Exp, c: &R) -> Vec<(&'static str, Self)> {
        let x = Free(e[0] as i32);
        let mut a = self.clone();
        a.add_pair((x.clone(), c.clone()));
        a.clean();
        let mut b = self.clone();
        b.add_pair_ref((&x, c));
        b.clean();
        vec![("Lc::add_pair + clean", a), ("Lc::add_pair_ref + clean", b)]
    }
    fn combined(&self, o: &Self) -> Option<Self> {
        Some(self.combine(o, |x, y| Free(x.0 + y.0)))
    }
    fn term_obs_defect(&self, support: &[Exp], single_gen: Option<&Exp>) -> Option<String> {
        let lc: &Lc<_, R> = self;
        let ex = |x: &Free<i32>| -> Exp { vec![x.0 as i64] };
        let mut g: Vec<Exp> = lc.gens().map(|x| ex(x)).collect();
        g.sort();
        let mut sup = support.to_vec();
        sup.sort();
        if g != sup {
            return Some(format!("gens() = {g:?} ; support is {sup:?}"));
        }
        match lc.any_term() {
            None if sup.is_empty() => {}
            Some((x, c)) if sup.contains(&ex(x)) && lc.coeff(x) == c => {}
            r => return Some(format!("any_term() = {:?} on a value with support {sup:?}", r.map(|(x, _)| ex(x)))),
        }
        if lc.is_gen() != single_gen.is_some() || lc.as_gen().map(|x| ex(&x)) != single_gen.cloned() {
            return Some(format!("is_gen / as_gen = {} / {:?} ; expected {:?}", lc.is_gen(), lc.as_gen().map(|x| ex(&x)), single_gen));
        }
        let sorted: Vec<Exp> = lc.sort_terms_by(|x, y| x.0.cmp(&y.0)).map(|(x, _)| ex(x)).collect();
        if sorted != sup {
            return Some(format!("sort_terms_by(ascending) lists {sorted:?} ; expected {sup:?}"));
        }
        None
    }
    fn o_is_zero(&self) -> bool {
        num_traits::Zero::is_zero(self)
    }
    fn o_nterms(&self) -> Option<usize> {
        Some(Lc::nterms(self))
    }
    fn o_coeff(&self, e: &Exp) -> Option<R> {
        Some(Lc::coeff(self, &Free(e[0] as i32)).clone())
    }
}

// ---------------------------------------------------------------------------------------------
// judging
// ---------------------------------------------------------------------------------------------

struct Px<'a, P: Sut> {
    run: &'a Run,
    name: String,
    _p: PhantomData<fn() -> P>,
}

type LazyArgs<'x> = &'x dyn Fn() -> String;

fn to_lib<P: Sut>(r: &RP<KRef<P>>) -> P {
    let terms: Vec<(Exp, P::C)> = r.0.iter().map(|(e, k)| (e.clone(), P::C::from_ref(k))).collect();
    P::build(&terms)
}

/// the stored terms as a reference polynomial; Err = a defect of the stored form
fn raw_map<P: Sut>(v: &P) -> Result<RP<KRef<P>>, String> {
    let mut m: BTreeMap<Exp, KRef<P>> = BTreeMap::new();
    for (e, c, ok) in v.dump() {
        let k = c.to_ref();
        if k.is_zero() {
            return Err(format!("stores a zero coefficient at x^{e:?}"));
        }
        if !ok {
            return Err(format!("stores a monomial with a zero exponent / foreign index (x^{e:?})"));
        }
        if m.insert(e.clone(), k).is_some() {
            return Err(format!("stores the monomial x^{e:?} twice"));
        }
    }
    Ok(RP(m))
}

impl<'a, P: Sut> Px<'a, P> {
    fn new(run: &'a Run) -> Self {
        Px { run, name: P::name(), _p: PhantomData }
    }

    fn fail(&self, op: &str, args: &str, what: String) {
        self.run.fail(&format!("poly:{op}:{}:{args}", self.name), &what, json!({"type": self.name, "op": op, "args": args}));
    }

    /// a library result against the expected polynomial: stored terms, term count, zero test
    fn light(&self, op: &str, form: &str, args: LazyArgs, got: Result<P, String>, exp: &RP<KRef<P>>) -> Option<P> {
        tick(C::Ev, 1);
        let v = match got {
            Ok(v) => v,
            Err(p) => {
                self.fail(op, &args(), format!("[{form}] panicked: {p}; expected {}", exp.show()));
                return None;
            }
        };
        match catch(|| (raw_map(&v), v.o_nterms(), v.o_is_zero())) {
            Ok((Ok(m), nt, iz)) => {
                if m != *exp {
                    self.fail(op, &args(), format!("[{form}] returned {} ; expected {}", m.show(), exp.show()));
                    return None;
                }
                if nt.map(|n| n != exp.nterms()).unwrap_or(false) || iz != exp.is_zero() {
                    self.fail(op, &args(), format!("[{form}] nterms={nt:?} is_zero={iz} on the value {}", exp.show()));
                    return None;
                }
                Some(v)
            }
            Ok((Err(d), _, _)) => {
                self.fail(op, &args(), format!("[{form}] result {d}; expected {}", exp.show()));
                None
            }
            Err(p) => {
                self.fail(op, &args(), format!("[{form}] reading the result panicked: {p}"));
                None
            }
        }
    }

    /// every observer of a value that is known to denote `exp`
    fn full(&self, op: &str, args: LazyArgs, v: &P, exp: &RP<KRef<P>>) -> bool {
        let nv = P::NV;
        let mut ok = true;
        let mut bad = |what: String| {
            self.fail(op, &args(), what);
            ok = false;
        };
        tick(C::Ev, 1);
        let r = catch(|| {
            let mut errs: Vec<String> = vec![];
            if let Some(b) = v.o_is_one() {
                if b != exp.is_one(nv) {
                    errs.push(format!("is_one={b}"));
                }
            }
            if let Some((e, c)) = v.o_lead() {
                let (re, rc) = exp.lead(nv);
                if e != re || c.to_ref() != rc {
                    errs.push(format!("lead_term={}*x^{e:?}, leading term w.r.t. graded lex is {}*x^{re:?}", c.to_ref().show(), rc.show()));
                }
            }
            if let Some(e) = v.o_lead_deg() {
                if e != exp.lead(nv).0 {
                    errs.push(format!("lead_deg={e:?}, expected {:?}", exp.lead(nv).0));
                }
            }
            if let Some(b) = v.o_is_const() {
                if b != exp.is_const() {
                    errs.push(format!("is_const={b}"));
                }
            }
            if let Some(c) = v.o_const_term() {
                if c.to_ref() != exp.coeff(&vec![0; nv]) {
                    errs.push(format!("const_term={}", c.to_ref().show()));
                }
            }
            // coeff at every monomial of the support and at some absent ones
            let mut probes: Vec<Exp> = exp.0.keys().cloned().collect();
            probes.push(vec![0; nv]);
            probes.push(vec![1; nv]);
            probes.push(vec![3; nv]);
            if P::SIGNED {
                probes.push(vec![-2; nv]);
            }
            for e in probes {
                if let Some(c) = v.o_coeff(&e) {
                    if c.to_ref() != exp.coeff(&e) {
                        errs.push(format!("coeff(x^{e:?})={}, expected {}", c.to_ref().show(), exp.coeff(&e).show()));
                    }
                }
            }
            // equality with the value constructed directly from the reference
            let w: P = to_lib::<P>(exp);
            if !(*v == w) || *v != w || !(w == *v) {
                errs.push(format!("is not == to the directly constructed {}", w.show()));
            }
            // term-level observers
            let support: Vec<Exp> = exp.0.keys().cloned().collect();
            let single = if exp.nterms() == 1 && exp.0.values().next().map(|k| *k == KRef::<P>::one()).unwrap_or(false) { support.first() } else { None };
            if let Some(d) = v.term_obs_defect(&support, single) {
                errs.push(d);
            }
            errs
        });
        match r {
            Ok(errs) => {
                if !errs.is_empty() {
                    bad(format!("observers disagree with the polynomial {}: {}", exp.show(), errs.join("; ")));
                }
            }
            Err(p) => bad(format!("an observer panicked on the value {}: {p}", exp.show())),
        }
        ok
    }

    fn rop(op: Op, a: &RP<KRef<P>>, b: &RP<KRef<P>>) -> RP<KRef<P>> {
        match op {
            Op::Add => a.add(b),
            Op::Sub => a.sub(b),
            Op::Mul => a.mul(b),
        }
    }

    fn ops() -> &'static [Op] {
        if P::HAS_MUL {
            &[Op::Add, Op::Sub, Op::Mul]
        } else {
            &[Op::Add, Op::Sub]
        }
    }

    /// one binary operation in the given calling forms; the first good result is fully observed
    fn binary(&self, op: Op, forms: &[usize], a: &(P, RP<KRef<P>>), b: &(P, RP<KRef<P>>)) -> Option<(P, RP<KRef<P>>)> {
        self.binary_opt(op, forms, a, b, true)
    }

    /// `observe = false`: stored terms / nterms / is_zero only (used for the sub-expressions of the axioms)
    fn binary_opt(&self, op: Op, forms: &[usize], a: &(P, RP<KRef<P>>), b: &(P, RP<KRef<P>>), observe: bool) -> Option<(P, RP<KRef<P>>)> {
        if !P::in_domain(op, &a.1, &b.1) {
            tick(C::OutOfDomain, 1);
            return None;
        }
        let e = Self::rop(op, &a.1, &b.1);
        if e.nterms() > P::MAX_TERMS {
            tick(C::OutOfDomain, 1);
            return None;
        }
        let args = || format!("{}|{}", a.1.show(), b.1.show());
        let mut first: Option<P> = None;
        let mut all_ok = true;
        for &f in forms {
            match self.light(op.name(), FORMS[f], &args, catch(|| P::bin(op, f, &a.0, &b.0)), &e) {
                Some(v) => {
                    if first.is_none() {
                        if observe && !self.full(op.name(), &args, &v, &e) {
                            all_ok = false;
                        }
                        first = Some(v);
                    }
                }
                None => all_ok = false,
            }
        }
        if all_ok {
            first.map(|v| (v, e))
        } else {
            None
        }
    }
}

// ---------------------------------------------------------------------------------------------
// enumerations
// ---------------------------------------------------------------------------------------------

fn box_monos(axes: &[Vec<i64>]) -> Vec<Exp> {
    let mut out: Vec<Exp> = vec![vec![]];
    for ax in axes {
        let mut next = vec![];
        for e in &out {
            for &d in ax {
                let mut f = e.clone();
                f.push(d);
                next.push(f);
            }
        }
        out = next;
    }
    out
}

fn binom(n: u128, k: u128) -> u128 {
    if k > n {
        return 0;
    }
    (0..k).fold(1u128, |acc, i| acc * (n - i) / (i + 1))
}

/// number of polynomials with at most t terms over m monomials and c coefficients
fn count_polys(m: usize, c: usize, t: usize) -> u128 {
    (0..=t.min(m)).map(|k| binom(m as u128, k as u128) * (c as u128).pow(k as u32)).sum()
}

fn with_coeffs<K: RefRing>(monos: &[&Exp], coeffs: &[K], f: &mut dyn FnMut(RP<K>)) {
    let (k, c) = (monos.len(), coeffs.len());
    let total = c.pow(k as u32);
    for idx in 0..total {
        let mut x = idx;
        let mut m = BTreeMap::new();
        for e in monos {
            m.insert((*e).clone(), coeffs[x % c].clone());
            x /= c;
        }
        f(RP(m));
    }
}

/// all polynomials with at most t terms (materialised)
fn enum_polys<K: RefRing>(monos: &[Exp], coeffs: &[K], t: usize) -> Vec<RP<K>> {
    let mut out = vec![RP::zero()];
    let n = monos.len();
    let mut push = |p: RP<K>| out.push(p);
    for i in 0..n {
        if t >= 1 {
            with_coeffs(&[&monos[i]], coeffs, &mut push);
        }
        for j in i + 1..n {
            if t >= 2 {
                with_coeffs(&[&monos[i], &monos[j]], coeffs, &mut push);
            }
            for k in j + 1..n {
                if t >= 3 {
                    with_coeffs(&[&monos[i], &monos[j], &monos[k]], coeffs, &mut push);
                }
            }
        }
    }
    out
}

/// all polynomials with at most t (<= 3) terms, streamed, in parallel over the first two monomials
fn for_each_poly<K: RefRing>(run: &Run, monos: &[Exp], coeffs: &[K], t: usize, f: &(dyn Fn(&RP<K>) + Sync)) {
    let n = monos.len();
    f(&RP::zero());
    let mut tasks: Vec<(usize, Option<usize>)> = vec![];
    for i in 0..n {
        tasks.push((i, None));
        for j in i + 1..n {
            tasks.push((i, Some(j)));
        }
    }
    run.par_for(tasks.len(), |x| {
        if out_of_time(run) {
            return;
        }
        let mut g = |p: RP<K>| f(&p);
        match tasks[x] {
            (i, None) => {
                if t >= 1 {
                    with_coeffs(&[&monos[i]], coeffs, &mut g)
                }
            }
            (i, Some(j)) => {
                if t >= 2 {
                    with_coeffs(&[&monos[i], &monos[j]], coeffs, &mut g);
                }
                if t >= 3 {
                    for k in j + 1..n {
                        with_coeffs(&[&monos[i], &monos[j], &monos[k]], coeffs, &mut g);
                    }
                }
            }
        }
        flush(run);
    });
}

#[derive(Clone, Copy, Debug, PartialEq)]
enum BoxKind {
    Full,
    Small,
    Tiny,
}

fn axes(nv: usize, signed: bool, b: BoxKind, wide: bool) -> Vec<Vec<i64>> {
    (0..nv)
        .map(|i| match (b, signed) {
            (BoxKind::Full, false) => {
                if wide {
                    vec![0, 1, 2, 3]
                } else {
                    vec![0, 1, 2]
                }
            }
            (BoxKind::Full, true) => {
                if wide {
                    vec![-2, -1, 0, 1, 2]
                } else {
                    vec![-1, 0, 1, 2]
                }
            }
            (BoxKind::Small, false) => vec![0, 1],
            (BoxKind::Small, true) => vec![-1, 0, 1],
            (BoxKind::Tiny, false) => {
                if i == 0 {
                    vec![0, 1, 2]
                } else {
                    vec![0, 1]
                }
            }
            (BoxKind::Tiny, true) => match i {
                0 => vec![-1, 0, 1],
                1 => vec![0, 1],
                _ => vec![-1, 0],
            },
        })
        .collect()
}

/// special partners / history alphabet
/// `core` = the subset used as partners of the whole enumeration A in the quick tier
fn specials<K: RefRing>(nv: usize, signed: bool, max_terms: usize, core: bool) -> Vec<RP<K>> {
    let o: Exp = vec![0; nv];
    let unit = |i: usize, d: i64| -> Exp {
        let mut e = vec![0; nv];
        e[i] = d;
        e
    };
    let k = |i: i64| K::from_i64(i);
    let x0 = unit(0, 1);
    let xl = unit(nv - 1, 1);
    let mut v: Vec<(bool, RP<K>)> = vec![
        (true, RP::zero()),
        (true, RP::from_terms([(o.clone(), k(1))])),
        (false, RP::from_terms([(o.clone(), k(-1))])),
        (true, RP::from_terms([(o.clone(), k(2))])),
        (true, RP::from_terms([(x0.clone(), k(1))])),
        (false, RP::from_terms([(x0.clone(), k(-1))])),
        (false, RP::from_terms([(o.clone(), k(1)), (x0.clone(), k(1))])),
        (true, RP::from_terms([(o.clone(), k(1)), (x0.clone(), k(-1))])),
        (false, RP::from_terms([(unit(0, 2), k(2))])),
    ];
    if nv > 1 {
        v.push((true, RP::from_terms([(x0.clone(), k(1)), (xl.clone(), k(1))])));
        v.push((false, RP::from_terms([(x0.clone(), k(1)), (xl.clone(), k(-1))])));
        v.push((false, RP::from_terms([(xl.clone(), k(1))])));
    } else {
        v.push((true, RP::from_terms([(unit(0, 2), k(1)), (o.clone(), k(-1))])));
    }
    if signed {
        v.push((true, RP::from_terms([(unit(0, -1), k(1))])));
        v.push((false, RP::from_terms([(unit(nv - 1, -1), k(1)), (x0.clone(), k(1))])));
    }
    let mut out: Vec<RP<K>> = vec![];
    for (c, p) in v {
        if p.nterms() <= max_terms && !out.contains(&p) && (c || !core) {
            out.push(p);
        }
    }
    out
}

// ---------------------------------------------------------------------------------------------
// layers U, S, P, T, H for one type
// ---------------------------------------------------------------------------------------------

struct Budget {
    terms: usize,
    pair_budget: u128,
    hist_depth: usize,
    hist_states: u64,
    all_specials: bool,
}

fn lib_pair<P: Sut>(r: &RP<KRef<P>>) -> Option<(P, RP<KRef<P>>)> {
    catch(|| to_lib::<P>(r)).ok().map(|p| (p, r.clone()))
}

fn run_kind<P>(run: &Run, bud: &Budget) -> Value
where
    P: Sut,
    KRef<P>: RingSpec,
{
    let px = Px::<P>::new(run);
    let (nv, signed) = (P::NV, P::SIGNED);
    let coeffs = KRef::<P>::coeffs();
    let scalars: Vec<(P::C, KRef<P>)> = KRef::<P>::scalars().into_iter().map(|k| (P::C::from_ref(&k), k)).collect();
    let t_max = bud.terms.min(P::MAX_TERMS);
    let full = box_monos(&axes(nv, signed, BoxKind::Full, false));
    let spec: Vec<(P, RP<KRef<P>>)> = specials::<KRef<P>>(nv, signed, P::MAX_TERMS, false).iter().filter_map(lib_pair::<P>).collect();
    // partners of the whole enumeration A: the core specials in the quick tier, all of them in the thorough tier
    let spec_a: Vec<(P, RP<KRef<P>>)> = specials::<KRef<P>>(nv, signed, P::MAX_TERMS, !bud.all_specials).iter().filter_map(lib_pair::<P>).collect();

    let clock = std::time::Instant::now();
    let mut laps: Vec<f64> = vec![];
    // ---- M: coefficient / generator mapping APIs (maps with a kernel, merging generator maps) ---------
    {
        // reference-level coefficient maps; each sends some alphabet coefficient to zero
        let one = KRef::<P>::one();
        let maps: Vec<(&'static str, Box<dyn Fn(&KRef<P>) -> KRef<P> + Sync>)> = vec![
            ("c-1", Box::new({ let o = one.clone(); move |c: &KRef<P>| c.sub(&o) })),
            ("c+1", Box::new({ let o = one.clone(); move |c: &KRef<P>| c.add(&o) })),
            ("c*c-c", Box::new(|c: &KRef<P>| c.mul(c).sub(c))),
            ("(c-2)(c+2)", Box::new({ let o = one.clone(); move |c: &KRef<P>| { let two = o.add(&o); c.sub(&two).mul(&c.add(&two)) } })),
        ];
        let gmap = |e: &Exp| -> Exp { e.iter().map(|x| x.div_euclid(2)).collect() };
        let keep = |e: &Exp| -> bool { e.iter().sum::<i64>() % 2 == 0 };
        let t_m = t_max.min(3);
        for_each_poly(run, &full, &coeffs, t_m, &|r: &RP<KRef<P>>| {
            let Some((v, _)) = lib_pair::<P>(r) else { return };
            let args = || r.show();
            for (mn, f) in &maps {
                let exp = RP(r.0.iter().map(|(e, c)| (e.clone(), f(c))).filter(|(_, c)| !c.is_zero()).collect());
                let flib = |c: &P::C| P::C::from_ref(&f(&c.to_ref()));
                match catch(|| v.coeff_mapped(&flib)) {
                    Ok(results) => {
                        for (api, got) in results {
                            tick(C::Ev, 1);
                            px.full(&format!("{api}[{mn}]"), &args, &got, &exp);
                        }
                    }
                    Err(p) => px.fail(&format!("map_coeffs[{mn}]"), &args(), format!("panicked: {p}")),
                }
            }
            let mut eg: BTreeMap<Exp, KRef<P>> = BTreeMap::new();
            for (e, c) in &r.0 {
                let k = gmap(e);
                let nv = eg.remove(&k).map(|x| x.add(c)).unwrap_or_else(|| c.clone());
                if !nv.is_zero() {
                    eg.insert(k, nv);
                }
            }
            let eg = RP(eg);
            let ef = RP(r.0.iter().filter(|(e, _)| keep(e)).map(|(e, c)| (e.clone(), c.clone())).collect());
            match catch(|| v.gen_mapped(&gmap, &keep)) {
                Ok(results) => {
                    for (api, got, which) in results {
                        tick(C::Ev, 1);
                        px.full(api, &args, &got, if which == 0 { &eg } else { &ef });
                    }
                }
                Err(p) => px.fail("map_gens/filter_gens", &args(), format!("panicked: {p}")),
            }
        });
    }
    // ---- single-term constructors, the zero coefficient included -----------------------------------
    // (`from((x, c))`, `from_const(c)`: a zero coefficient must give the zero value with no stored term;
    //  seed `C16-single-term-from-keeps-zero`)
    {
        let mut cs: Vec<KRef<P>> = coeffs.clone();
        cs.push(KRef::<P>::zero());
        for e in &full {
            for k in &cs {
                let exp = RP::<KRef<P>>::from_terms([(e.clone(), k.clone())]);
                let args = || format!("x^{e:?} * {}", k.show());
                match catch(|| P::single_term_ctors(e, &P::C::from_ref(k))) {
                    Ok(list) => {
                        for (api, got) in list {
                            tick(C::Ev, 1);
                            if let Some(v) = px.light("construct", api, &args, Ok(got), &exp) {
                                px.full("construct", &args, &v, &exp);
                            }
                        }
                    }
                    Err(p) => px.fail("construct", &args(), format!("single-term constructor panicked: {p}")),
                }
            }
        }
    }
    // ---- U + S ---------------------------------------------------------------------------------
    let n_a = count_polys(full.len(), coeffs.len(), t_max);
    for_each_poly(run, &full, &coeffs, t_max, &|r: &RP<KRef<P>>| {
        tick(C::Polys, 1);
        let args = || r.show();
        let Some(a) = px.light("construct", "from_iter", &args, catch(|| to_lib::<P>(r)), r) else { return };
        px.full("construct", &args, &a, r);
        let a = (a, r.clone());
        // negation
        let e = r.neg();
        for f in 0..2 {
            if let Some(v) = px.light("neg", if f == 0 { "val" } else { "ref" }, &args, catch(|| P::neg(f, &a.0)), &e) {
                if f == 1 {
                    px.full("neg", &args, &v, &e);
                }
            }
        }
        // scalar multiplication
        for (c, k) in &scalars {
            let e = r.scale(k);
            let sargs = || format!("{}|{}", r.show(), k.show());
            // all six calling forms on polynomials with at most two terms, two forms beyond
            let forms: &[usize] = if r.nterms() <= 2 { &[0, 1, 2, 3, 4, 5] } else { &[3, 5] };
            for &f in forms {
                if let Some(v) = px.light("scalar_mul", FORMS[f], &sargs, catch(|| P::scal(f, &a.0, c)), &e) {
                    if f == 5 {
                        px.full("scalar_mul", &sargs, &v, &e);
                    }
                }
            }
        }
        // term-level mutators: v + c*x^e for every monomial of the box and every coefficient (0 included)
        // (`add_pair` / `add_pair_ref` followed by `clean`: the contract stated at their definition)
        if r.nterms() <= 2 {
            let mut cs: Vec<KRef<P>> = coeffs.clone();
            cs.push(KRef::<P>::zero());
            for k in &r.0.values().map(|k| k.neg()).collect::<Vec<_>>() {
                if !cs.contains(k) {
                    cs.push(k.clone());
                }
            }
            for e in &full {
                for k in &cs {
                    let exp = r.add(&RP::<KRef<P>>::from_terms([(e.clone(), k.clone())]));
                    let pargs = || format!("{} + {}*x^{e:?}", r.show(), k.show());
                    match catch(|| a.0.pair_added(e, &P::C::from_ref(k))) {
                        Ok(list) => {
                            for (api, got) in list {
                                if let Some(v) = px.light("add_pair", api, &pargs, Ok(got), &exp) {
                                    px.full("add_pair", &pargs, &v, &exp);
                                }
                            }
                        }
                        Err(p) => px.fail("add_pair", &pargs(), format!("panicked: {p}")),
                    }
                }
            }
        }
        // special partners, both orders (polynomials of A with at most two terms)
        if r.nterms() > 2 {
            return;
        }
        for s in &spec_a {
            let cargs = || format!("{}|{}", r.show(), s.1.show());
            match catch(|| a.0.combined(&s.0)) {
                Ok(None) => {}
                Ok(Some(got)) => {
                    let exp = r.mul(&s.1);
                    if let Some(v) = px.light("combine", "(x,y)->x+y", &cargs, Ok(got), &exp) {
                        px.full("combine", &cargs, &v, &exp);
                    }
                }
                Err(p) => px.fail("combine", &cargs(), format!("panicked: {p}")),
            }
        }
        for s in &spec_a {
            for &op in Px::<P>::ops() {
                px.binary(op, &[5], &a, s);
                px.binary(op, &[5], s, &a);
            }
        }
    });

    laps.push(clock.elapsed().as_secs_f64());
    // ---- P: all ordered pairs of the pair alphabet ----------------------------------------------
    let pm = KRef::<P>::coeffs_pm();
    let ladder: Vec<(BoxKind, usize, bool)> = vec![
        (BoxKind::Full, t_max, true),
        (BoxKind::Full, t_max.min(2), true),
        (BoxKind::Small, t_max, true),
        (BoxKind::Small, t_max.min(2), true),
        (BoxKind::Tiny, t_max, true),
        (BoxKind::Tiny, t_max.min(2), true),
        (BoxKind::Small, t_max.min(2), false),
        (BoxKind::Tiny, t_max.min(2), false),
        (BoxKind::Tiny, 1, true),
    ];
    let mut best: Option<((BoxKind, usize, bool), u128)> = None;
    for rung in &ladder {
        let m = box_monos(&axes(nv, signed, rung.0, false)).len();
        let c = if rung.2 { coeffs.len() } else { pm.len() };
        let n = count_polys(m, c, rung.1);
        if n * n <= bud.pair_budget && best.map(|b| n > b.1).unwrap_or(true) {
            best = Some((*rung, n));
        }
    }
    let (rung, _) = best.expect("no rung of the ladder fits the pair budget");
    let p_monos = box_monos(&axes(nv, signed, rung.0, false));
    let p_polys: Vec<(P, RP<KRef<P>>)> = enum_polys(&p_monos, if rung.2 { &coeffs } else { &pm }, rung.1).iter().filter_map(lib_pair::<P>).collect();
    let all_forms = [0usize, 1, 2, 3, 4, 5];
    run.par_for(p_polys.len(), |i| {
        if out_of_time(run) {
            return;
        }
        let a = &p_polys[i];
        for b in &p_polys {
            tick(C::Pairs, 1);
            tick(C::Ev, 1);
            match catch(|| (a.0 == b.0, a.0 != b.0)) {
                Ok((eq, ne)) if eq == (a.1 == b.1) && ne != eq => {}
                r => px.fail("eq", &format!("{}|{}", a.1.show(), b.1.show()), format!("(==, !=) = {r:?} but the polynomials are {}", if a.1 == b.1 { "equal" } else { "different" })),
            }
            for &op in Px::<P>::ops() {
                px.binary(op, &all_forms, a, b);
            }
        }
        flush(run);
    });

    laps.push(clock.elapsed().as_secs_f64());
    // ---- T: ring axioms over all triples of a small alphabet --------------------------------------
    let mut t_monos: Vec<Exp> = vec![vec![0; nv]];
    {
        let mut e = vec![0; nv];
        e[0] = 1;
        t_monos.push(e);
        let mut e = vec![0; nv];
        if nv > 1 {
            e[nv - 1] = 1;
        } else {
            e[0] = 2;
        }
        t_monos.push(e);
        if signed {
            let mut e = vec![0; nv];
            e[nv - 1] = -1;
            t_monos.push(e);
        }
    }
    let t_polys: Vec<(P, RP<KRef<P>>)> = enum_polys(&t_monos, &pm, 2.min(P::MAX_TERMS)).iter().filter_map(lib_pair::<P>).collect();
    let nt = t_polys.len();
    let one = [3usize];
    let ident = |name: &str, a: &RP<KRef<P>>, b: &RP<KRef<P>>, c: &RP<KRef<P>>, l: Option<(P, RP<KRef<P>>)>, r: Option<(P, RP<KRef<P>>)>| {
        if let (Some(l), Some(r)) = (l, r) {
            tick(C::Axiom, 1);
            tick(C::Ev, 1);
            if !matches!(catch(|| l.0 == r.0 && !(l.0 != r.0)), Ok(true)) {
                px.fail("axiom", &format!("{name}:{}|{}|{}", a.show(), b.show(), c.show()), format!("{name}: lhs {} and rhs {} are not ==", l.0.show(), r.0.show()));
            }
        }
    };
    run.par_for(nt * nt, |ij| {
        if out_of_time(run) {
            return;
        }
        let (a, b) = (&t_polys[ij / nt], &t_polys[ij % nt]);
        let ab_s = px.binary_opt(Op::Add, &one, a, b, false);
        let ba_s = px.binary_opt(Op::Add, &one, b, a, false);
        ident("a+b=b+a", &a.1, &b.1, &RP::zero(), ab_s.clone(), ba_s);
        let ab_p = if P::HAS_MUL { px.binary_opt(Op::Mul, &one, a, b, false) } else { None };
        if P::HAS_MUL {
            ident("a*b=b*a", &a.1, &b.1, &RP::zero(), ab_p.clone(), px.binary_opt(Op::Mul, &one, b, a, false));
        }
        ident("(a-b)+b=a", &a.1, &b.1, &RP::zero(), px.binary_opt(Op::Sub, &one, a, b, false).and_then(|d| px.binary_opt(Op::Add, &one, &d, b, false)), Some(a.clone()));
        for c in &t_polys {
            tick(C::Triples, 1);
            let bc_s = px.binary_opt(Op::Add, &one, b, c, false);
            ident(
                "(a+b)+c=a+(b+c)",
                &a.1,
                &b.1,
                &c.1,
                ab_s.as_ref().and_then(|s| px.binary_opt(Op::Add, &one, s, c, false)),
                bc_s.as_ref().and_then(|s| px.binary_opt(Op::Add, &one, a, s, false)),
            );
            if P::HAS_MUL {
                let bc_p = px.binary_opt(Op::Mul, &one, b, c, false);
                let ac_p = px.binary_opt(Op::Mul, &one, a, c, false);
                ident(
                    "(a*b)*c=a*(b*c)",
                    &a.1,
                    &b.1,
                    &c.1,
                    ab_p.as_ref().and_then(|s| px.binary_opt(Op::Mul, &one, s, c, false)),
                    bc_p.as_ref().and_then(|s| px.binary_opt(Op::Mul, &one, a, s, false)),
                );
                ident(
                    "a*(b+c)=a*b+a*c",
                    &a.1,
                    &b.1,
                    &c.1,
                    bc_s.as_ref().and_then(|s| px.binary_opt(Op::Mul, &one, a, s, false)),
                    match (&ab_p, &ac_p) {
                        (Some(x), Some(y)) => px.binary_opt(Op::Add, &one, x, y, false),
                        _ => None,
                    },
                );
            }
        }
        flush(run);
    });

    laps.push(clock.elapsed().as_secs_f64());
    // ---- H: histories ---------------------------------------------------------------------------
    let init: Vec<HSt<P>> = [RP::zero(), RP::constant(nv, KRef::<P>::one())].iter().filter_map(lib_pair::<P>).map(|(lib, r)| HSt { r, lib }).collect();
    let hsc: Vec<&(P::C, KRef<P>)> = scalars.iter().filter(|s| !s.1.is_one()).collect();
    let succ = |s: &HSt<P>, _d: usize| -> Vec<HSt<P>> {
        let mut out = vec![];
        if out_of_time(run) {
            return out;
        }
        let here = (s.lib.clone(), s.r.clone());
        for b in &spec {
            for &op in Px::<P>::ops() {
                if !P::in_domain(op, &s.r, &b.1) || Px::<P>::rop(op, &s.r, &b.1).nterms() > P::MAX_TERMS {
                    tick(C::HistSkip, 1);
                    continue;
                }
                tick(C::HistOps, 2);
                if let Some((lib, r)) = px.binary(op, &[5, 4], &here, b) {
                    out.push(HSt { r, lib });
                }
            }
        }
        for (c, k) in hsc.iter().map(|x| (&x.0, &x.1)) {
            let e = s.r.scale(k);
            let args = || format!("{}|{}", s.r.show(), k.show());
            let mut good: Option<P> = None;
            let mut ok = true;
            for f in [5usize, 4] {
                tick(C::HistOps, 1);
                match px.light("hist.scalar_mul", FORMS[f], &args, catch(|| P::scal(f, &s.lib, c)), &e) {
                    Some(v) => good = Some(v),
                    None => ok = false,
                }
            }
            if let (true, Some(lib)) = (ok, good) {
                if px.full("hist.scalar_mul", &args, &lib, &e) {
                    out.push(HSt { r: e, lib });
                }
            }
        }
        flush(run);
        out
    };
    let (st, seen) = bfs(run, init, bud.hist_depth, bud.hist_states, succ);
    if st.states > bud.hist_states {
        run.cap(&format!("history of {}: state cap {} hit", px.name, bud.hist_states));
    }
    let max_terms_seen = seen.iter().map(|s| s.r.nterms()).max().unwrap_or(0);
    drop(seen);
    flush(run);
    laps.push(clock.elapsed().as_secs_f64());
    run.add("types", 1);
    json!({
        "type": px.name,
        "A": {"monomials": full.len(), "coefficients": coeffs.len(), "max_terms": t_max, "polynomials": n_a.to_string()},
        "special_partners_of_A": spec_a.len(),
        "history_alphabet": spec.len(),
        "pair_alphabet": {"box": format!("{:?}", rung.0), "max_terms": rung.1, "coefficients": if rung.2 { coeffs.len() } else { pm.len() }, "polynomials": p_polys.len(), "ordered_pairs": p_polys.len() * p_polys.len()},
        "triple_alphabet": nt,
        "history": {"depth": bud.hist_depth, "states": st.states, "transitions": st.transitions, "states_per_depth": st.states_per_depth, "max_terms_of_a_state": max_terms_seen},
        "layer_wall_s_cumulative_U+S_P_T_H": laps.iter().map(|x| (x * 100.0).round() / 100.0).collect::<Vec<_>>(),
        "_states": st.states,
        "_transitions": st.transitions,
    })
}

#[derive(Clone)]
struct HSt<P: Sut> {
    r: RP<KRef<P>>,
    lib: P,
}
impl<P: Sut> PartialEq for HSt<P> {
    fn eq(&self, o: &Self) -> bool {
        self.r == o.r
    }
}
impl<P: Sut> Eq for HSt<P> {}
impl<P: Sut> Hash for HSt<P> {
    fn hash<H: Hasher>(&self, h: &mut H) {
        self.r.hash(h)
    }
}

// ---------------------------------------------------------------------------------------------
// layer O: monomial orders and monomial arithmetic
// ---------------------------------------------------------------------------------------------

fn mono_layer<X: MonoX>(run: &Run, wide: bool) -> Value {
    let monos: Vec<Exp> = box_monos(&axes(X::NV, X::SIGNED, BoxKind::Full, wide));
    let lib: Vec<X> = monos.iter().map(|e| X::from_exps(e)).collect();
    let n = monos.len();
    let name = X::KIND;
    let fail = |op: &str, args: String, what: String| run.fail(&format!("poly:{op}:{name}:{args}"), &what, json!({"type": name}));
    // constructors and accessors
    for (e, x) in monos.iter().zip(&lib) {
        tick(C::Ev, 1);
        let z = e.iter().all(|d| *d == 0);
        let r = catch(|| (x.exps(), x.stored_ok(), X::deg_exps(&x.deg()), <X as num_traits::One>::one() == *x, num_traits::One::is_one(x), x.is_unit(), x.inv().map(|i| (i.exps(), i.stored_ok()))));
        let inv_exp = if X::SIGNED || z { Some((e.iter().map(|d| -d).collect::<Exp>(), true)) } else { None };
        let ok = matches!(&r, Ok((ex, st, dg, eq1, is1, unit, inv)) if ex == e && *st && dg == e && *eq1 == z && *is1 == z && *unit == (X::SIGNED || z) && *inv == inv_exp);
        if !ok {
            fail("mono", format!("{e:?}"), format!("exps/stored/deg/==one/is_one/is_unit/inv = {r:?}"));
        }
        match catch(|| x.total_deg_i64()) {
            Ok(None) => {}
            Ok(Some(t)) if t == e.iter().sum::<i64>() => {}
            r => fail("mono", format!("total_deg:{e:?}"), format!("total_deg = {r:?} ; sum of exponents {}", e.iter().sum::<i64>())),
        }
    }
    // pair tables
    let mut lexm = vec![vec![Ordering::Equal; n]; n];
    let mut grm = vec![vec![Ordering::Equal; n]; n];
    let mut prod: Vec<Vec<Option<X>>> = vec![vec![None; n]; n];
    for i in 0..n {
        for j in 0..n {
            tick(C::MonoPairs, 1);
            tick(C::Ev, 3);
            let args = || format!("{:?}|{:?}", monos[i], monos[j]);
            match catch(|| (lib[i].cmp_lex(&lib[j]), lib[i].cmp_grlex(&lib[j]), lib[i] == lib[j])) {
                Ok((l, g, eq)) => {
                    lexm[i][j] = l;
                    grm[i][j] = g;
                    if eq != (i == j) {
                        fail("mono", args(), format!("== gives {eq}"));
                    }
                    if l != lex_ref(&monos[i], &monos[j]) {
                        fail("order-def", format!("lex:{}", args()), format!("cmp_lex = {l:?}, lexicographic order with x0 > x1 > x2 gives {:?}", lex_ref(&monos[i], &monos[j])));
                    }
                    if g != grlex_ref(&monos[i], &monos[j]) {
                        fail("order-def", format!("grlex:{}", args()), format!("cmp_grlex = {g:?}, graded lex (total degree, then lex) gives {:?}", grlex_ref(&monos[i], &monos[j])));
                    }
                }
                Err(p) => fail("order", args(), format!("comparison panicked: {p}")),
            }
            // observers of the multi-degree
            tick(C::Ev, 1);
            match catch(|| X::mdeg_defect(&lib[i], &monos[i], &lib[j], &monos[j])) {
                Ok(None) => {}
                Ok(Some(d)) => fail("mdeg", args(), d),
                Err(p) => fail("mdeg", args(), format!("observer panicked: {p}")),
            }
            // product
            let e = exp_add(&monos[i], &monos[j]);
            match catch(|| {
                let p1 = lib[i].clone() * lib[j].clone();
                let ok = p1.exps() == e && p1.stored_ok() && p1 == X::from_exps(&e) && X::from_exps(&e) == p1 && X::mdeg_defect(&p1, &e, &p1, &e).is_none() && p1.total_deg_i64().map(|t| t == e.iter().sum::<i64>()).unwrap_or(true);
                (p1, ok)
            }) {
                Ok((p, true)) => prod[i][j] = Some(p),
                Ok((p, false)) => fail("mono-mul", args(), format!("product is {:?} stored_ok={} ; expected x^{e:?} (and == to the directly constructed monomial)", p.exps(), p.stored_ok())),
                Err(p) => fail("mono-mul", args(), format!("product panicked: {p}")),
            }
            // quotient where it is a monomial of the kind; divisibility
            let q: Exp = monos[i].iter().zip(&monos[j]).map(|(a, b)| a - b).collect();
            let divisible = X::SIGNED || q.iter().all(|d| *d >= 0);
            match catch(|| lib[j].divides(&lib[i])) {
                Ok(d) if d == divisible => {}
                r => fail("mono-div", args(), format!("divides = {r:?}, expected {divisible}")),
            }
            if divisible {
                match catch(|| {
                    let p1 = lib[i].clone() / lib[j].clone();
                    let ok = p1.exps() == q && p1.stored_ok() && p1 == X::from_exps(&q);
                    (p1.exps(), p1.stored_ok(), ok)
                }) {
                    Ok((_, _, true)) => {}
                    r => fail("mono-div", args(), format!("quotient = {r:?} ; expected x^{q:?}")),
                }
            }
        }
    }
    // order axioms on all pairs / triples
    for (oname, m) in [("lex", &lexm), ("grlex", &grm)] {
        for i in 0..n {
            for j in 0..n {
                if m[i][j] != m[j][i].reverse() {
                    fail("order", format!("{oname}:antisym:{:?}|{:?}", monos[i], monos[j]), format!("cmp(a,b)={:?} but cmp(b,a)={:?}", m[i][j], m[j][i]));
                }
                if (m[i][j] == Ordering::Equal) != (i == j) {
                    fail("order", format!("{oname}:total:{:?}|{:?}", monos[i], monos[j]), format!("cmp(a,b)={:?} for {} monomials", m[i][j], if i == j { "equal" } else { "different" }));
                }
            }
        }
    }
    let lexm = &lexm;
    let grm = &grm;
    let prod = &prod;
    let monos_r = &monos;
    run.par_for(n, |i| {
        if out_of_time(run) {
            return;
        }
        for j in 0..n {
            for k in 0..n {
                tick(C::MonoTriples, 1);
                for (oname, m) in [("lex", lexm), ("grlex", grm)] {
                    // transitivity
                    if m[i][j] != Ordering::Greater && m[j][k] != Ordering::Greater && m[i][k] == Ordering::Greater {
                        run.fail(
                            &format!("poly:order:{name}:{oname}:trans:{:?}|{:?}|{:?}", monos_r[i], monos_r[j], monos_r[k]),
                            "a<=b, b<=c but a>c",
                            json!({"type": name}),
                        );
                    }
                    // compatibility with multiplication: a < b => a*c < b*c
                    if m[i][j] == Ordering::Less {
                        if let (Some(ac), Some(bc)) = (&prod[i][k], &prod[j][k]) {
                            tick(C::Ev, 1);
                            let r = catch(|| if oname == "lex" { ac.cmp_lex(bc) } else { ac.cmp_grlex(bc) });
                            if r != Ok(Ordering::Less) {
                                run.fail(
                                    &format!("poly:order:{name}:{oname}:mul:{:?}|{:?}|{:?}", monos_r[i], monos_r[j], monos_r[k]),
                                    &format!("a<b but cmp(a*c, b*c) = {r:?}"),
                                    json!({"type": name}),
                                );
                            }
                        }
                    }
                }
            }
        }
        flush(run);
    });
    flush(run);
    json!({"monomial_kind": name, "box": format!("{:?}", axes(X::NV, X::SIGNED, BoxKind::Full, wide)[0]), "monomials": n, "pairs": n * n, "triples": n * n * n})
}

// ---------------------------------------------------------------------------------------------
// layer E: evaluation (only `&i64: Pow<&usize>` exists, so Z with unsigned exponents)
// ---------------------------------------------------------------------------------------------

macro_rules! eval_layer {
    ($run:expr, $ty:ty, $nv:expr, $terms:expr, $grid:expr, |$p:ident, $pt:ident| $call:expr) => {{
        let run: &Run = $run;
        type P = $ty;
        let name = <P as Sut>::name();
        let grid1: Vec<i64> = $grid;
        let pts: Vec<Vec<i64>> = box_monos(&vec![grid1.clone(); $nv]);
        let coeffs = Z::coeffs();
        let full = box_monos(&axes($nv, false, BoxKind::Full, false));
        let ev = |$p: &P, $pt: &Vec<i64>| -> i64 { $call };
        let rev = |r: &RP<Z>, pt: &Vec<i64>| -> Z { r.eval(&pt.iter().map(|x| z(*x)).collect::<Vec<_>>()) };
        // value = reference value on every polynomial of A
        for_each_poly(run, &full, &coeffs, $terms, &|r: &RP<Z>| {
            let Ok(p) = catch(|| to_lib::<P>(r)) else { return };
            for pt in &pts {
                tick(C::EvalPts, 1);
                tick(C::Ev, 1);
                let got = catch(|| ev(&p, pt));
                if got.as_ref().ok().map(|g| z(*g)) != Some(rev(r, pt)) {
                    run.fail(&format!("poly:eval:{name}:{}@{pt:?}", r.show()), &format!("eval = {got:?}, value of the polynomial is {}", rev(r, pt)), json!({"type": name}));
                }
            }
        });
        // homomorphism over all ordered pairs of the small-box alphabet
        let small = box_monos(&axes($nv, false, if $nv == 3 { BoxKind::Small } else { BoxKind::Full }, false));
        let polys: Vec<(P, RP<Z>)> = enum_polys(&small, &coeffs, 2).iter().filter_map(lib_pair::<P>).collect();
        let vals: Vec<Vec<i64>> = polys.iter().map(|(p, _)| pts.iter().map(|pt| ev(p, pt)).collect()).collect();
        run.par_for(polys.len(), |i| {
            if out_of_time(run) {
                return;
            }
            for j in 0..polys.len() {
                let (a, b) = (&polys[i], &polys[j]);
                let Ok((s, m)) = catch(|| (&a.0 + &b.0, &a.0 * &b.0)) else { continue };
                for (k, pt) in pts.iter().enumerate() {
                    tick(C::EvalPts, 1);
                    tick(C::Ev, 2);
                    let got = catch(|| (ev(&s, pt), ev(&m, pt)));
                    let exp = (vals[i][k] + vals[j][k], vals[i][k] * vals[j][k]);
                    if got != Ok(exp) {
                        run.fail(
                            &format!("poly:eval-hom:{name}:{}|{}@{pt:?}", a.1.show(), b.1.show()),
                            &format!("(eval(f+g), eval(f*g)) = {got:?} but (eval f + eval g, eval f * eval g) = {exp:?}"),
                            json!({"type": name}),
                        );
                    }
                }
            }
            flush(run);
        });
        flush(run);
        json!({"type": name, "grid": grid1, "points": pts.len(), "pair_alphabet": polys.len()})
    }};
}

// ---------------------------------------------------------------------------------------------

fn main() {
    let run = Run::new("C16", "model_checking");
    let th = run.thorough();
    let bud = Budget {
        terms: if th { 3 } else { 2 },
        pair_budget: if th { 2_500_000 } else { 200_000 },
        hist_depth: if th { 4 } else { 3 },
        hist_states: 1_500_000,
        all_specials: th,
    };
    // the (type, ring) instances, monomial kinds and eval instances are independent jobs; a few of them
    // run concurrently (each one parallelises its own enumeration with `par_for`)
    type Job<'a> = Box<dyn Fn() -> Value + Send + Sync + 'a>;
    let mut jobs: Vec<(&'static str, Job)> = vec![];
    let mut weights: Vec<u32> = vec![];
    let (r, b) = (&run, &bud);
    macro_rules! ring {
        ($r:ty, $w:expr) => {{
            jobs.push(("kind", Box::new(move || run_kind::<PolyBase<MultiVar<'x', isize>, $r>>(r, b))));
            jobs.push(("kind", Box::new(move || run_kind::<PolyBase<MultiVar<'x', usize>, $r>>(r, b))));
            jobs.push(("kind", Box::new(move || run_kind::<PolyBase<Var3<'x', 'y', 'z', usize>, $r>>(r, b))));
            jobs.push(("kind", Box::new(move || run_kind::<PolyBase<Var2<'x', 'y', isize>, $r>>(r, b))));
            jobs.push(("kind", Box::new(move || run_kind::<PolyBase<Var2<'x', 'y', usize>, $r>>(r, b))));
            jobs.push(("kind", Box::new(move || run_kind::<PolyBase<Var<'x', isize>, $r>>(r, b))));
            jobs.push(("kind", Box::new(move || run_kind::<PolyBase<Var<'x', usize>, $r>>(r, b))));
            jobs.push(("kind", Box::new(move || run_kind::<HPoly<'x', $r>>(r, b))));
            jobs.push(("kind", Box::new(move || run_kind::<Lc<Free<i32>, $r>>(r, b))));
            // heaviest first: three-variable Laurent kinds, larger coefficient alphabets
            weights.extend([900 + $w, 500 + $w, 400 + $w, 300 + $w, 200 + $w, 100 + $w, 50 + $w, 1, 20 + $w]);
        }};
    }
    ring!(i64, 30);
    ring!(Ratio<i64>, 50);
    ring!(GaussInt<i64>, 40);
    ring!(FF<3>, 10);
    ring!(FF2, 5);
    jobs.push(("order", Box::new(move || mono_layer::<Var<'x', usize>>(r, th))));
    jobs.push(("order", Box::new(move || mono_layer::<Var<'x', isize>>(r, th))));
    jobs.push(("order", Box::new(move || mono_layer::<Var2<'x', 'y', usize>>(r, th))));
    jobs.push(("order", Box::new(move || mono_layer::<Var2<'x', 'y', isize>>(r, th))));
    jobs.push(("order", Box::new(move || mono_layer::<Var3<'x', 'y', 'z', usize>>(r, th))));
    jobs.push(("order", Box::new(move || mono_layer::<Var3<'x', 'y', 'z', isize>>(r, th))));
    jobs.push(("order", Box::new(move || mono_layer::<MultiVar<'x', usize>>(r, th))));
    jobs.push(("order", Box::new(move || mono_layer::<MultiVar<'x', isize>>(r, th))));
    jobs.push(("eval", Box::new(move || eval_layer!(r, PolyBase<Var<'x', usize>, i64>, 1, b.terms, vec![-2, -1, 0, 1, 2, 3], |p, pt| p.eval(&pt[0])))));
    jobs.push(("eval", Box::new(move || eval_layer!(r, PolyBase<Var2<'x', 'y', usize>, i64>, 2, b.terms, vec![-2, -1, 0, 1, 3], |p, pt| p.eval(&pt[0], &pt[1])))));
    jobs.push(("eval", Box::new(move || eval_layer!(r, PolyBase<Var3<'x', 'y', 'z', usize>, i64>, 3, b.terms, vec![-1, 0, 2], |p, pt| p.eval(&pt[0], &pt[1], &pt[2])))));
    weights.resize(jobs.len(), 60);
    let mut order: Vec<usize> = (0..jobs.len()).collect();
    order.sort_by_key(|&i| std::cmp::Reverse(weights[i]));
    let results: std::sync::Mutex<Vec<(usize, Value)>> = std::sync::Mutex::new(vec![]);
    run.par_for_threads(jobs.len(), 6, |x| {
        let i = order[x];
        let t0 = std::time::Instant::now();
        let mut v = (jobs[i].1)();
        if let Some(o) = v.as_object_mut() {
            o.insert("wall_s".into(), json!((t0.elapsed().as_secs_f64() * 100.0).round() / 100.0));
        }
        results.lock().unwrap().push((i, v));
    });
    let mut results = results.into_inner().unwrap();
    results.sort_by_key(|x| x.0);
    let pick = |what: &str| -> Vec<Value> { results.iter().filter(|(i, _)| jobs[*i].0 == what).map(|(_, v)| v.clone()).collect() };
    let (kinds, orders, evals) = (pick("kind"), pick("order"), pick("eval"));

    flush(&run);
    let states: u64 = kinds.iter().map(|k| k["_states"].as_u64().unwrap_or(0)).sum();
    let transitions: u64 = kinds.iter().map(|k| k["_transitions"].as_u64().unwrap_or(0)).sum();
    let ev = run.get("evaluations");
    run.sample(json!({"op": "mul", "a": "1*x^[1, 0] + 1*x^[0, 1]", "b": "1*x^[1, 0] + -1*x^[0, 1]", "expected": "1*x^[2, 0] + -1*x^[0, 2] (the cross terms cancel; nterms = 2)"}));
    run.sample(json!({"op": "add over F_3", "a": "1*x^[1]", "b": "2*x^[1]", "expected": "0 (nterms = 0, is_zero)"}));
    run.sample(json!({"op": "mul (Laurent)", "a": "1*x^[-1, 0, 0]", "b": "1*x^[1, 0, 0]", "expected": "1*x^[0, 0, 0] (is_one; no zero exponent stored)"}));
    let coverage = json!({
        "states": states,
        "transitions": transitions,
        "traces_validated_against_impl": ev,
        "evaluations": ev,
        "distinct_nontrivial": run.get("polynomials_checked") + run.get("pairs") + run.get("triples") + run.get("monomial_triples"),
        "rule": "every polynomial of the enumeration A (layer U/S), every ordered pair of the pair alphabet (P), every triple of the triple alphabet (T), every monomial pair/triple of the box (O), every reachable state of the history BFS (H); enumerations are duplicate-free by construction (distinct monomial sets x coefficient assignments); an evaluation = one library operation or observer battery compared with the reference polynomial",
        "per_type": kinds,
        "monomial_orders": orders,
        "eval": evals,
        "exhaustive": true,
    });
    run.finish_ref(
        coverage,
        &[
            "reference: BTreeMap<Vec<i64>, coeff> without zero coefficients (in c16.rs), coefficients by vcore::refnum",
            "lex / graded lex are judged against the textbook definitions with x0 > x1 > x2 (the convention documented in the library source); the order axioms are reported under separate keys (poly:order:*) from the definition check (poly:order-def:*)",
            "eval exists only where `&R: Pow<&I>` does: R = i64 with unsigned exponents (Poly, Poly2, Poly3); PolyN has no eval",
            "HPoly: sums are defined for equal degrees only (the library asserts), other sums are outside the domain",
            "binary operations on all ordered pairs use the largest rung of a fixed ladder of enumerations that fits the pair budget (recorded per type); the full enumeration A is covered by the unary layer and (its polynomials with at most two terms) by the special partners in both operand orders",
            "LPoly3 (Var3 with signed exponents) is covered only in the monomial layer (orders, product, quotient)",
        ],
    );
}
