//! C13 — sparse and dense matrix containers implement ordinary matrix algebra; a composed
//! coordinate transform (`Trans`) applies the product of its factors, before and after `reduce`.
//!
//! Part 1 (containers): every public operation of `SpMat`, `SpVec`, `Mat` on *all* operands of a
//! bounded shape/alphabet, each operand in every "storage variant" (every subset of its zero
//! positions explicitly stored), compared entry by entry with the dense reference `RMat`.
//! Part 2 (`Trans`): explicit-state BFS over operation histories.

use checks::bridge::Bridge;
use sprs::PermOwned;
use std::cell::Cell;
use std::collections::{BTreeSet, HashMap};
use std::fmt::Debug;
use std::hash::{Hash, Hasher};
use std::sync::atomic::{AtomicU64, Ordering};
use std::sync::Arc;
use vcore::bfs::bfs;
use vcore::refmat::RMat;
use vcore::refnum::RefRing;
use vcore::{catch, json, Run};
use yui::{Ratio, Ring, RingOps, FF};
use yui_matrix::dense::Mat;
use yui_matrix::sparse::triang::TriangularType;
use yui_matrix::sparse::{MatTrait, SpMat, SpVec, Trans};

// ------------------------------------------------------------------------------------------
// operands
// ------------------------------------------------------------------------------------------

/// A sparse operand: per position `None` = not stored, `Some(v)` = stored value (possibly 0).
#[derive(Clone, Debug)]
struct Opd<T: RefRing> {
    m: usize,
    n: usize,
    c: Vec<Option<T>>, // row major
}

impl<T: RefRing> Opd<T> {
    fn dense(&self) -> RMat<T> {
        RMat::from_fn(self.m, self.n, |i, j| self.c[i * self.n + j].clone().unwrap_or_else(T::zero))
    }
    /// `.` = zero that is not stored, `0` = explicitly stored zero
    fn show(&self) -> String {
        let rows: Vec<String> = (0..self.m)
            .map(|i| {
                (0..self.n)
                    .map(|j| match &self.c[i * self.n + j] {
                        None => ".".to_string(),
                        Some(v) => v.show(),
                    })
                    .collect::<Vec<_>>()
                    .join(" ")
            })
            .collect();
        format!("{}x{}[{}]", self.m, self.n, rows.join(";"))
    }
    fn stored_zeros(&self) -> usize {
        self.c.iter().filter(|x| matches!(x, Some(v) if v.is_zero())).count()
    }
    fn nontrivial(&self) -> bool {
        self.m > 0 && self.n > 0 && self.c.iter().any(|x| matches!(x, Some(v) if !v.is_zero()))
    }
    fn at(&self, i: usize, j: usize) -> &Option<T> {
        &self.c[i * self.n + j]
    }
    fn block(&self, r: std::ops::Range<usize>, c: std::ops::Range<usize>) -> Opd<T> {
        let mut out = vec![];
        for i in r.clone() {
            for j in c.clone() {
                out.push(self.at(i, j).clone());
            }
        }
        Opd { m: r.len(), n: c.len(), c: out }
    }
}

/// symbol alphabet of a cell; values that coincide in the ring are merged
fn symbols<T: RefRing>(unstored: bool, stored0: bool, vals: &[i64]) -> Vec<Option<T>> {
    let mut v: Vec<Option<T>> = vec![];
    if unstored {
        v.push(None);
    }
    if stored0 {
        v.push(Some(T::zero()));
    }
    for &x in vals {
        let t = T::from_i64(x);
        if !t.is_zero() && !v.iter().any(|y| y.as_ref() == Some(&t)) {
            v.push(Some(t));
        }
    }
    v
}

fn count(syms: usize, cells: usize) -> usize {
    syms.checked_pow(cells as u32).expect("enumeration size overflow")
}

fn nth_opd<T: RefRing>(m: usize, n: usize, syms: &[Option<T>], mut idx: usize) -> Opd<T> {
    let mut c = Vec::with_capacity(m * n);
    for _ in 0..m * n {
        c.push(syms[idx % syms.len()].clone());
        idx /= syms.len();
    }
    Opd { m, n, c }
}

fn perms(k: usize) -> Vec<Vec<usize>> {
    fn rec(k: usize, cur: &mut Vec<usize>, out: &mut Vec<Vec<usize>>) {
        if cur.len() == k {
            out.push(cur.clone());
            return;
        }
        for i in 0..k {
            if !cur.contains(&i) {
                cur.push(i);
                rec(k, cur, out);
                cur.pop();
            }
        }
    }
    let mut out = vec![];
    rec(k, &mut vec![], &mut out);
    out
}

/// ordered selections of distinct indices of 0..n (all lengths)
fn selections(n: usize) -> Vec<Vec<usize>> {
    fn rec(n: usize, cur: &mut Vec<usize>, out: &mut Vec<Vec<usize>>) {
        out.push(cur.clone());
        for i in 0..n {
            if !cur.contains(&i) {
                cur.push(i);
                rec(n, cur, out);
                cur.pop();
            }
        }
    }
    let mut out = vec![];
    rec(n, &mut vec![], &mut out);
    out
}

// ------------------------------------------------------------------------------------------
// library value -> reference value (public read API only)
// ------------------------------------------------------------------------------------------

/// reads the raw CSC arrays; panics (caught by the caller) when they are not a valid matrix
fn sp_r<R: Bridge>(a: &SpMat<R>) -> RMat<R::Ref> {
    let (m, n) = a.shape();
    let mut r = RMat::zero(m, n);
    let (offs, rows, vals) = a.data();
    assert!(offs.len() == n + 1, "col_offsets has length {} for {} columns", offs.len(), n);
    assert!(rows.len() == vals.len() && offs[n] == vals.len(), "inconsistent CSC array lengths");
    for j in 0..n {
        for k in offs[j]..offs[j + 1] {
            let i = rows[k];
            assert!(i < m, "row index {i} out of range in a matrix with {m} rows");
            assert!(k == offs[j] || rows[k - 1] < i, "row indices of column {j} not strictly increasing");
            r.set(i, j, vals[k].to_ref());
        }
    }
    r
}

fn spv_r<R: Bridge>(v: &SpVec<R>) -> Vec<R::Ref> {
    let n = v.dim();
    let mut out = vec![<R::Ref as RefRing>::zero(); n];
    let (ix, vals) = v.data();
    assert!(ix.len() == vals.len(), "inconsistent index/value lengths");
    for k in 0..ix.len() {
        assert!(ix[k] < n, "index {} out of range in a vector of dimension {n}", ix[k]);
        assert!(k == 0 || ix[k - 1] < ix[k], "indices not strictly increasing");
        out[ix[k]] = vals[k].to_ref();
    }
    out
}

fn mat_r<R: Bridge>(a: &Mat<R>) -> RMat<R::Ref> {
    let (m, n) = a.shape();
    RMat::from_fn(m, n, |i, j| a[(i, j)].to_ref())
}

fn show_vec<T: RefRing>(v: &[T]) -> String {
    format!("[{}]", v.iter().map(|x| x.show()).collect::<Vec<_>>().join(","))
}

fn show_cells<T: RefRing>(v: &[Option<T>]) -> String {
    format!("[{}]", v.iter().map(|x| x.as_ref().map(|y| y.show()).unwrap_or(".".into())).collect::<Vec<_>>().join(" "))
}

// ------------------------------------------------------------------------------------------
// construction WITH stored zeros (from_sorted_entries / from_col_vecs keep them)
// ------------------------------------------------------------------------------------------

fn build_spvec<R>(cells: &[Option<R::Ref>]) -> SpVec<R>
where
    R: Ring + Bridge,
    for<'x> &'x R: RingOps<R>,
{
    SpVec::from_sorted_entries(cells.len(), cells.iter().enumerate().filter_map(|(i, c)| c.as_ref().map(|v| (i, R::from_ref(v)))))
}

fn build_sp<R>(o: &Opd<R::Ref>) -> SpMat<R>
where
    R: Ring + Bridge,
    for<'x> &'x R: RingOps<R>,
{
    SpMat::from_col_vecs(
        o.m,
        (0..o.n).map(|j| {
            let col: Vec<Option<R::Ref>> = (0..o.m).map(|i| o.at(i, j).clone()).collect();
            build_spvec::<R>(&col)
        }),
    )
}

fn mk_mat<R>(d: &RMat<R::Ref>) -> Mat<R>
where
    R: Ring + Bridge,
    for<'x> &'x R: RingOps<R>,
{
    Mat::from_data((d.m, d.n), d.e.iter().map(|x| R::from_ref(x)))
}

fn dense_sp<R>(d: &RMat<R::Ref>) -> SpMat<R>
where
    R: Ring + Bridge,
    for<'x> &'x R: RingOps<R>,
{
    SpMat::from_dense_data((d.m, d.n), d.e.iter().map(|x| R::from_ref(x)))
}

// ------------------------------------------------------------------------------------------
// bookkeeping
// ------------------------------------------------------------------------------------------

struct Ck<'a> {
    run: &'a Run,
    ring: &'static str,
    evals: Cell<u64>,
    cases: Cell<u64>,
    nontrivial: Cell<u64>,
    stored_zero_cases: Cell<u64>,
}

impl<'a> Ck<'a> {
    fn new(run: &'a Run, ring: &'static str) -> Self {
        Ck { run, ring, evals: Cell::new(0), cases: Cell::new(0), nontrivial: Cell::new(0), stored_zero_cases: Cell::new(0) }
    }
    fn case(&self, nontrivial: bool, stored_zero: bool) {
        self.cases.set(self.cases.get() + 1);
        if nontrivial {
            self.nontrivial.set(self.nontrivial.get() + 1);
        }
        if stored_zero {
            self.stored_zero_cases.set(self.stored_zero_cases.get() + 1);
        }
    }
    fn fail(&self, op: &str, args: &str, what: String) {
        self.run.fail(&format!("c13:{op}:{}:{args}", self.ring), &what, json!({"op": op, "ring": self.ring, "args": args}));
    }
    fn mat<T: RefRing>(&self, op: &str, args: &dyn Fn() -> String, f: impl FnOnce() -> RMat<T>, exp: &RMat<T>) {
        self.evals.set(self.evals.get() + 1);
        match catch(f) {
            Ok(g) if g == *exp => {}
            Ok(g) => self.fail(op, &args(), format!("got {} expected {}", g.show(), exp.show())),
            Err(p) => self.fail(op, &args(), format!("panicked: {p}; expected {}", exp.show())),
        }
    }
    fn val<V: PartialEq + Debug>(&self, op: &str, args: &dyn Fn() -> String, f: impl FnOnce() -> V, exp: V) {
        self.evals.set(self.evals.get() + 1);
        match catch(f) {
            Ok(g) if g == exp => {}
            Ok(g) => self.fail(op, &args(), format!("got {g:?} expected {exp:?}")),
            Err(p) => self.fail(op, &args(), format!("panicked: {p}; expected {exp:?}")),
        }
    }
}

impl<'a> Drop for Ck<'a> {
    fn drop(&mut self) {
        self.run.add("evaluations", self.evals.get());
        self.run.add("cases", self.cases.get());
        self.run.add("cases_nontrivial", self.nontrivial.get());
        self.run.add("cases_with_stored_zero", self.stored_zero_cases.get());
    }
}

fn perm_expected<T: RefRing>(d: &RMat<T>, p: &[usize], q: &[usize]) -> RMat<T> {
    let mut e = RMat::zero(d.m, d.n);
    for i in 0..d.m {
        for j in 0..d.n {
            e.set(p[i], q[j], d.at(i, j).clone());
        }
    }
    e
}

fn ranges(n: usize) -> Vec<(usize, usize)> {
    let mut v = vec![];
    for a in 0..=n {
        for b in a..=n {
            v.push((a, b));
        }
    }
    v
}

// ------------------------------------------------------------------------------------------
// SpMat, one operand
// ------------------------------------------------------------------------------------------

fn unary_spmat<R>(ck: &Ck, o: &Opd<R::Ref>)
where
    R: Ring + Bridge,
    for<'x> &'x R: RingOps<R>,
{
    let d = o.dense();
    let (m, n) = (o.m, o.n);
    let args = || o.show();
    let a: SpMat<R> = match catch(|| build_sp::<R>(o)) {
        Ok(a) => a,
        Err(p) => {
            ck.fail("SpMat::from_col_vecs", &args(), format!("panicked: {p}"));
            return;
        }
    };
    // is the storage variant really what was asked for? (vacuity guard, not a verdict)
    let pattern_ok = {
        let (offs, rows, _) = a.data();
        (0..n).all(|j| {
            let want: Vec<usize> = (0..m).filter(|&i| o.at(i, j).is_some()).collect();
            offs.len() == n + 1 && rows[offs[j]..offs[j + 1]] == want[..]
        })
    };
    ck.case(o.nontrivial(), o.stored_zeros() > 0 && pattern_ok);
    if !pattern_ok {
        ck.run.add("operands_whose_storage_pattern_was_not_kept", 1);
    }

    ck.mat("SpMat::from_col_vecs", &args, || sp_r(&a), &d);
    ck.val("SpMat::shape", &args, || (a.shape(), a.nrows(), a.ncols(), a.is_square()), ((m, n), m, n, m == n));
    ck.val("SpMat::is_zero", &args, || a.is_zero(), d.is_zero());
    {
        // (failures of the kind "true although a diagonal position is not stored" share one key per
        // size, so that they cannot crowd out other findings)
        let unstored_diag = m == n && (0..n).any(|i| o.at(i, i).is_none());
        let key = || if unstored_diag && !d.is_id() { format!("{m}x{n}:true-with-diagonal-position-not-stored") } else { o.show() };
        ck.evals.set(ck.evals.get() + 1);
        match catch(|| a.is_id()) {
            Ok(g) if g == d.is_id() => {}
            // `is_id` is a predicate, not one of the entry-producing operations the property lists;
            // its known weakness (true when a diagonal position is simply not stored, e.g. for a
            // zero matrix) is counted as an observation outside the verdict (DESIGN §10.2).
            Ok(true) if unstored_diag && !d.is_id() => ck.run.add("observation_is_id_true_with_unstored_diagonal", 1),
            Ok(g) => ck.fail("SpMat::is_id", &key(), format!("is_id() = {g} for {} (the matrix {} the identity)", o.show(), if d.is_id() { "is" } else { "is not" })),
            Err(p) => ck.fail("SpMat::is_id", &key(), format!("panicked: {p}")),
        }
    }
    for (t, name, upper) in [(TriangularType::Upper, "SpMat::is_triang(Upper)", true), (TriangularType::Lower, "SpMat::is_triang(Lower)", false)] {
        let exp = m == n && (0..m).all(|i| (0..n).all(|j| d.at(i, j).is_zero() || if upper { i <= j } else { i >= j }));
        ck.val(name, &args, || a.is_triang(t), exp);
    }
    ck.mat(
        "SpMat::iter",
        &args,
        || {
            let mut r = RMat::zero(m, n);
            let mut seen = BTreeSet::new();
            for (i, j, v) in a.iter() {
                assert!(i < m && j < n, "iter yields ({i},{j}) outside {m}x{n}");
                assert!(seen.insert((i, j)), "iter yields ({i},{j}) twice");
                r.set(i, j, v.to_ref());
            }
            r
        },
        &d,
    );
    {
        let mut exp: Vec<(usize, usize, R::Ref)> = vec![];
        for j in 0..n {
            for i in 0..m {
                if !d.at(i, j).is_zero() {
                    exp.push((i, j, d.at(i, j).clone()));
                }
            }
        }
        exp.sort_by_key(|e| (e.0, e.1));
        ck.val(
            "SpMat::iter_nz",
            &args,
            || {
                let mut v: Vec<(usize, usize, R::Ref)> = a.iter_nz().map(|(i, j, x)| (i, j, x.to_ref())).collect();
                v.sort_by_key(|e| (e.0, e.1));
                v
            },
            exp,
        );
    }
    ck.mat("SpMat::into_dense", &args, || mat_r(&a.clone().into_dense()), &d);
    ck.mat("Mat::from(SpMat)", &args, || mat_r(&Mat::from(a.clone())), &d);
    ck.val(
        "SpMat::disassemble",
        &args,
        || {
            let (o1, r1, v1) = a.clone().disassemble();
            let (o2, r2, v2) = a.data();
            o1 == o2 && r1 == r2 && v1 == v2
        },
        true,
    );
    for j in 0..n {
        ck.val("SpMat::col_vec", &|| format!("{} j={j}", o.show()), || spv_r(&a.col_vec(j)), d.col(j));
        // a * e_j = column j
        ck.val("SpMat*SpVec::unit", &|| format!("{} j={j}", o.show()), || spv_r(&(&a * &SpVec::<R>::unit(n, j))), d.col(j));
    }
    let dt = d.transpose();
    ck.mat("SpMat::transpose", &args, || sp_r(&a.transpose()), &dt);
    ck.mat("SpMat::transpose^2", &args, || sp_r(&a.transpose().transpose()), &d);
    ck.mat("SpMat::extract(transpose)", &args, || sp_r(&a.extract((n, m), |i, j| Some((j, i)))), &dt);
    {
        let exp = RMat::from_fn(m, n, |i, j| if i == j { <R::Ref as RefRing>::zero() } else { d.at(i, j).clone() });
        ck.mat("SpMat::extract(drop diagonal)", &args, || sp_r(&a.extract((m, n), |i, j| (i != j).then_some((i, j)))), &exp);
    }
    let nd = d.neg();
    ck.mat("SpMat::neg(ref)", &args, || sp_r(&-&a), &nd);
    ck.mat("SpMat::neg(val)", &args, || sp_r(&-a.clone()), &nd);

    // permutations: result[p(i)][q(j)] = a[i][j]
    let (pm, pn) = (perms(m), perms(n));
    for p in &pm {
        let po = PermOwned::new(p.clone());
        let idn: Vec<usize> = (0..n).collect();
        let e = perm_expected(&d, p, &idn);
        let ar = || format!("{} p={p:?}", o.show());
        ck.mat("SpMat::permute_rows", &ar, || sp_r(&a.permute_rows(po.view())), &e);
        ck.mat("SpMat::from_row_perm*a", &ar, || sp_r(&(&SpMat::<R>::from_row_perm(po.view()) * &a)), &e);
        {
            let mut pe = RMat::zero(m, m);
            for i in 0..m {
                pe.set(p[i], i, <R::Ref as RefRing>::one());
            }
            ck.mat("SpMat::from_row_perm", &ar, || sp_r(&SpMat::<R>::from_row_perm(po.view())), &pe);
        }
        for q in &pn {
            let qo = PermOwned::new(q.clone());
            let e = perm_expected(&d, p, q);
            ck.mat("SpMat::permute", &|| format!("{} p={p:?} q={q:?}", o.show()), || sp_r(&a.permute(po.view(), qo.view())), &e);
        }
    }
    for q in &pn {
        let qo = PermOwned::new(q.clone());
        let idm: Vec<usize> = (0..m).collect();
        let e = perm_expected(&d, &idm, q);
        let ar = || format!("{} q={q:?}", o.show());
        ck.mat("SpMat::permute_cols", &ar, || sp_r(&a.permute_cols(qo.view())), &e);
        ck.mat("a*SpMat::from_col_perm", &ar, || sp_r(&(&a * &SpMat::<R>::from_col_perm(qo.view()))), &e);
        {
            let mut qe = RMat::zero(n, n);
            for i in 0..n {
                qe.set(i, q[i], <R::Ref as RefRing>::one());
            }
            ck.mat("SpMat::from_col_perm", &ar, || sp_r(&SpMat::<R>::from_col_perm(qo.view())), &qe);
        }
    }

    // sub-matrices
    for &(i0, i1) in &ranges(m) {
        let rows: Vec<usize> = (i0..i1).collect();
        let alln: Vec<usize> = (0..n).collect();
        ck.mat("SpMat::submat_rows", &|| format!("{} rows={i0}..{i1}", o.show()), || sp_r(&a.submat_rows(i0..i1)), &d.submat(&rows, &alln));
        for &(j0, j1) in &ranges(n) {
            let cols: Vec<usize> = (j0..j1).collect();
            ck.mat(
                "SpMat::submat",
                &|| format!("{} rows={i0}..{i1} cols={j0}..{j1}", o.show()),
                || sp_r(&a.submat(i0..i1, j0..j1)),
                &d.submat(&rows, &cols),
            );
        }
    }
    for &(j0, j1) in &ranges(n) {
        let cols: Vec<usize> = (j0..j1).collect();
        let allm: Vec<usize> = (0..m).collect();
        ck.mat("SpMat::submat_cols", &|| format!("{} cols={j0}..{j1}", o.show()), || sp_r(&a.submat_cols(j0..j1)), &d.submat(&allm, &cols));
    }

    // four-way split and recombination at every split point; combine_blocks of independently
    // built blocks (every assignment of the m*n cells = every choice of four blocks)
    for k in 0..=m {
        for l in 0..=n {
            let ar = || format!("{} point=({k},{l})", o.show());
            let rs: [Vec<usize>; 2] = [(0..k).collect(), (k..m).collect()];
            let cs: [Vec<usize>; 2] = [(0..l).collect(), (l..n).collect()];
            let exp = [d.submat(&rs[0], &cs[0]), d.submat(&rs[0], &cs[1]), d.submat(&rs[1], &cs[0]), d.submat(&rs[1], &cs[1])];
            match catch(|| a.divide4((k, l))) {
                Ok(bl) => {
                    for t in 0..4 {
                        ck.mat("SpMat::divide4", &|| format!("{} point=({k},{l}) block={t}", o.show()), || sp_r(&bl[t]), &exp[t]);
                    }
                    ck.mat("SpMat::combine_blocks(divide4)", &ar, || sp_r(&SpMat::combine_blocks([&bl[0], &bl[1], &bl[2], &bl[3]])), &d);
                }
                Err(p) => ck.fail("SpMat::divide4", &ar(), format!("panicked: {p}")),
            }
            let blocks = catch(|| [build_sp::<R>(&o.block(0..k, 0..l)), build_sp::<R>(&o.block(0..k, l..n)), build_sp::<R>(&o.block(k..m, 0..l)), build_sp::<R>(&o.block(k..m, l..n))]);
            if let Ok(bl) = blocks {
                ck.mat("SpMat::combine_blocks", &ar, || sp_r(&SpMat::combine_blocks([&bl[0], &bl[1], &bl[2], &bl[3]])), &d);
            }
        }
    }

    // construction from entries (any order; zero entries may be listed), dense data, Mat
    let mut entries: Vec<(usize, usize, R::Ref)> = vec![];
    for i in 0..m {
        for j in 0..n {
            if let Some(v) = o.at(i, j) {
                entries.push((i, j, v.clone()));
            }
        }
    }
    let mut orders: Vec<Vec<usize>> = vec![];
    if entries.len() <= 4 {
        orders = perms(entries.len());
    } else {
        let l = entries.len();
        orders.push((0..l).collect());
        orders.push((0..l).rev().collect());
        orders.push((0..l).map(|i| (i + 1) % l).collect());
        let mut cm: Vec<usize> = (0..l).collect();
        cm.sort_by_key(|&t| (entries[t].1, entries[t].0));
        orders.push(cm);
    }
    for ord in &orders {
        ck.mat(
            "SpMat::from_entries",
            &|| format!("{} order={ord:?}", o.show()),
            || sp_r(&SpMat::<R>::from_entries((m, n), ord.iter().map(|&t| (entries[t].0, entries[t].1, R::from_ref(&entries[t].2))))),
            &d,
        );
    }
    ck.mat("SpMat::from_dense_data", &args, || sp_r(&dense_sp::<R>(&d)), &d);
    ck.mat("Mat::into_sparse", &args, || sp_r(&mk_mat::<R>(&d).into_sparse()), &d);
    ck.mat("SpMat::from(Mat)", &args, || sp_r(&SpMat::from(mk_mat::<R>(&d))), &d);
}

fn spmat_constants<R>(ck: &Ck, maxd: usize)
where
    R: Ring + Bridge,
    for<'x> &'x R: RingOps<R>,
{
    for m in 0..=maxd + 1 {
        for n in 0..=maxd + 1 {
            let ar = || format!("{m}x{n}");
            ck.mat("SpMat::zero", &ar, || sp_r(&SpMat::<R>::zero((m, n))), &RMat::zero(m, n));
            ck.val("SpMat::zero.is_zero", &ar, || SpMat::<R>::zero((m, n)).is_zero(), true);
            ck.mat("Mat::zero", &ar, || mat_r(&Mat::<R>::zero((m, n))), &RMat::zero(m, n));
        }
        let ar = || format!("{m}");
        ck.mat("SpMat::id", &ar, || sp_r(&SpMat::<R>::id(m)), &RMat::id(m));
        ck.val("SpMat::id.is_id", &ar, || SpMat::<R>::id(m).is_id(), true);
        ck.mat("Mat::id", &ar, || mat_r(&Mat::<R>::id(m)), &RMat::id(m));
        ck.val("SpVec::zero", &ar, || spv_r(&SpVec::<R>::zero(m)), vec![<R::Ref as RefRing>::zero(); m]);
    }
    ck.mat("SpMat::default", &|| String::new(), || sp_r(&SpMat::<R>::default()), &RMat::zero(0, 0));
    ck.mat("Mat::default", &|| String::new(), || mat_r(&Mat::<R>::default()), &RMat::zero(0, 0));
    ck.val("SpVec::default", &|| String::new(), || spv_r(&SpVec::<R>::default()), vec![]);
}

// ------------------------------------------------------------------------------------------
// SpMat, two operands
// ------------------------------------------------------------------------------------------

struct Built<R: Bridge> {
    o: Opd<R::Ref>,
    sp: SpMat<R>,
    d: RMat<R::Ref>,
}

fn built<R>(o: Opd<R::Ref>) -> Built<R>
where
    R: Ring + Bridge,
    for<'x> &'x R: RingOps<R>,
{
    let sp = build_sp::<R>(&o);
    let d = o.dense();
    Built { o, sp, d }
}

/// all ordered pairs (a of shape sa over symsa) x (b of shape sb over symsb)
fn for_pairs<R>(
    run: &Run,
    sa: (usize, usize),
    symsa: &[Option<R::Ref>],
    sb: (usize, usize),
    symsb: &[Option<R::Ref>],
    f: impl Fn(&Ck, &Built<R>, &Built<R>) + Sync,
) where
    R: Ring + Bridge,
    for<'x> &'x R: RingOps<R>,
{
    let ca = count(symsa.len(), sa.0 * sa.1);
    let cb = count(symsb.len(), sb.0 * sb.1);
    // the smaller side is prebuilt, the larger one is decoded on the fly
    let a_outer = ca >= cb;
    let (co, ci) = if a_outer { (ca, cb) } else { (cb, ca) };
    let inner: Vec<Built<R>> = (0..ci).map(|i| if a_outer { built::<R>(nth_opd(sb.0, sb.1, symsb, i)) } else { built::<R>(nth_opd(sa.0, sa.1, symsa, i)) }).collect();
    let chunk = (4096 / ci.max(1)).clamp(1, 256);
    run.par_for(co.div_ceil(chunk), |c| {
        let ck = Ck::new(run, R::NAME);
        for idx in c * chunk..((c + 1) * chunk).min(co) {
            let x = if a_outer { built::<R>(nth_opd(sa.0, sa.1, symsa, idx)) } else { built::<R>(nth_opd(sb.0, sb.1, symsb, idx)) };
            for y in &inner {
                let (a, b) = if a_outer { (&x, y) } else { (y, &x) };
                ck.case(a.o.nontrivial() && b.o.nontrivial(), a.o.stored_zeros() + b.o.stored_zeros() > 0);
                f(&ck, a, b);
            }
        }
    });
}

fn pair_args<R: Bridge>(a: &Built<R>, b: &Built<R>) -> String {
    format!("{}|{}", a.o.show(), b.o.show())
}

fn binary_addsub<R>(ck: &Ck, a: &Built<R>, b: &Built<R>, all_forms: bool)
where
    R: Ring + Bridge,
    for<'x> &'x R: RingOps<R>,
{
    let ar = || pair_args(a, b);
    let (x, y) = (&a.sp, &b.sp);
    let s = a.d.add(&b.d);
    let t = a.d.sub(&b.d);
    ck.mat("SpMat::add(ref,ref)", &ar, || sp_r(&(x + y)), &s);
    ck.mat("SpMat::sub(ref,ref)", &ar, || sp_r(&(x - y)), &t);
    if all_forms {
        ck.mat("SpMat::add(val,val)", &ar, || sp_r(&(x.clone() + y.clone())), &s);
        ck.mat("SpMat::add(val,ref)", &ar, || sp_r(&(x.clone() + y)), &s);
        ck.mat("SpMat::add(ref,val)", &ar, || sp_r(&(x + y.clone())), &s);
        ck.mat(
            "SpMat::add_assign(ref)",
            &ar,
            || {
                let mut z = x.clone();
                z += y;
                sp_r(&z)
            },
            &s,
        );
        ck.mat(
            "SpMat::add_assign(val)",
            &ar,
            || {
                let mut z = x.clone();
                z += y.clone();
                sp_r(&z)
            },
            &s,
        );
        ck.mat("SpMat::sub(val,val)", &ar, || sp_r(&(x.clone() - y.clone())), &t);
        ck.mat("SpMat::sub(val,ref)", &ar, || sp_r(&(x.clone() - y)), &t);
        ck.mat("SpMat::sub(ref,val)", &ar, || sp_r(&(x - y.clone())), &t);
        ck.mat(
            "SpMat::sub_assign(ref)",
            &ar,
            || {
                let mut z = x.clone();
                z -= y;
                sp_r(&z)
            },
            &t,
        );
        ck.mat(
            "SpMat::sub_assign(val)",
            &ar,
            || {
                let mut z = x.clone();
                z -= y.clone();
                sp_r(&z)
            },
            &t,
        );
    }
}

fn binary_mul<R>(ck: &Ck, a: &Built<R>, b: &Built<R>, all_forms: bool)
where
    R: Ring + Bridge,
    for<'x> &'x R: RingOps<R>,
{
    let ar = || pair_args(a, b);
    let (x, y) = (&a.sp, &b.sp);
    let p = a.d.mul(&b.d);
    ck.mat("SpMat::mul(ref,ref)", &ar, || sp_r(&(x * y)), &p);
    if all_forms {
        ck.mat("SpMat::mul(val,val)", &ar, || sp_r(&(x.clone() * y.clone())), &p);
        ck.mat("SpMat::mul(val,ref)", &ar, || sp_r(&(x.clone() * y)), &p);
        ck.mat("SpMat::mul(ref,val)", &ar, || sp_r(&(x * y.clone())), &p);
        if b.o.m == b.o.n {
            ck.mat(
                "SpMat::mul_assign(ref)",
                &ar,
                || {
                    let mut z = x.clone();
                    z *= y;
                    sp_r(&z)
                },
                &p,
            );
            ck.mat(
                "SpMat::mul_assign(val)",
                &ar,
                || {
                    let mut z = x.clone();
                    z *= y.clone();
                    sp_r(&z)
                },
                &p,
            );
        }
    }
}

/// [a | b]
fn binary_concat<R>(ck: &Ck, a: &Built<R>, b: &Built<R>)
where
    R: Ring + Bridge,
    for<'x> &'x R: RingOps<R>,
{
    let ar = || pair_args(a, b);
    let (n1, n2) = (a.d.n, b.d.n);
    let e = RMat::from_fn(a.d.m, n1 + n2, |i, j| if j < n1 { a.d.at(i, j).clone() } else { b.d.at(i, j - n1).clone() });
    ck.mat("SpMat::concat", &ar, || sp_r(&a.sp.concat(&b.sp)), &e);
    ck.mat(
        "SpMat::extend_cols",
        &ar,
        || {
            let mut z = a.sp.clone();
            z.extend_cols(b.sp.clone());
            sp_r(&z)
        },
        &e,
    );
}

/// [a ; b]
fn binary_stack<R>(ck: &Ck, a: &Built<R>, b: &Built<R>)
where
    R: Ring + Bridge,
    for<'x> &'x R: RingOps<R>,
{
    let ar = || pair_args(a, b);
    let m1 = a.d.m;
    let e = RMat::from_fn(m1 + b.d.m, a.d.n, |i, j| if i < m1 { a.d.at(i, j).clone() } else { b.d.at(i - m1, j).clone() });
    ck.mat("SpMat::stack", &ar, || sp_r(&a.sp.stack(&b.sp)), &e);
}

/// matrix (a) times vector (b is an n x 1 operand, used as SpVec with the same storage variant)
fn binary_matvec<R>(ck: &Ck, a: &Built<R>, b: &Built<R>)
where
    R: Ring + Bridge,
    for<'x> &'x R: RingOps<R>,
{
    let ar = || pair_args(a, b);
    let v: SpVec<R> = build_spvec::<R>(&b.o.c);
    let e = a.d.mul_vec(&b.d.col(0));
    ck.val("SpMat*SpVec(ref,ref)", &ar, || spv_r(&(&a.sp * &v)), e.clone());
    ck.val("SpMat*SpVec(val,val)", &ar, || spv_r(&(a.sp.clone() * v.clone())), e.clone());
    ck.val("SpMat*SpVec(val,ref)", &ar, || spv_r(&(a.sp.clone() * &v)), e.clone());
    ck.val("SpMat*SpVec(ref,val)", &ar, || spv_r(&(&a.sp * v.clone())), e);
}

// ------------------------------------------------------------------------------------------
// SpVec
// ------------------------------------------------------------------------------------------

fn unary_spvec<R>(ck: &Ck, cells: &[Option<R::Ref>])
where
    R: Ring + Bridge,
    for<'x> &'x R: RingOps<R>,
{
    let n = cells.len();
    let zero = <R::Ref as RefRing>::zero;
    let d: Vec<R::Ref> = cells.iter().map(|c| c.clone().unwrap_or_else(zero)).collect();
    let args = || show_cells(cells);
    let v: SpVec<R> = match catch(|| build_spvec::<R>(cells)) {
        Ok(v) => v,
        Err(p) => {
            ck.fail("SpVec::from_sorted_entries", &args(), format!("panicked: {p}"));
            return;
        }
    };
    let kept = {
        let (ix, _) = v.data();
        let want: Vec<usize> = (0..n).filter(|&i| cells[i].is_some()).collect();
        ix == &want[..]
    };
    let has_sz = cells.iter().any(|c| matches!(c, Some(x) if x.is_zero()));
    ck.case(d.iter().any(|x| !x.is_zero()), has_sz && kept);

    ck.val("SpVec::from_sorted_entries", &args, || spv_r(&v), d.clone());
    ck.val("SpVec::dim", &args, || v.dim(), n);
    ck.val("SpVec::is_zero", &args, || v.is_zero(), d.iter().all(|x| x.is_zero()));
    ck.val(
        "SpVec::iter",
        &args,
        || {
            let mut r = vec![zero(); n];
            let mut seen = BTreeSet::new();
            for (i, x) in v.iter() {
                assert!(i < n && seen.insert(i), "iter yields index {i} out of range or twice");
                r[i] = x.to_ref();
            }
            r
        },
        d.clone(),
    );
    ck.val(
        "SpVec::iter_nz",
        &args,
        || {
            let mut r: Vec<(usize, R::Ref)> = v.iter_nz().map(|(i, x)| (i, x.to_ref())).collect();
            r.sort_by_key(|e| e.0);
            r
        },
        (0..n).filter(|&i| !d[i].is_zero()).map(|i| (i, d[i].clone())).collect::<Vec<_>>(),
    );
    ck.val("SpVec::to_dense", &args, || v.to_dense().iter().map(|x| x.to_ref()).collect::<Vec<_>>(), d.clone());
    ck.val("SpVec::into_vec", &args, || v.clone().into_vec().iter().map(|x| x.to_ref()).collect::<Vec<_>>(), d.clone());
    ck.val("Vec::from(SpVec)", &args, || Vec::<R>::from(v.clone()).iter().map(|x| x.to_ref()).collect::<Vec<_>>(), d.clone());
    ck.mat("SpVec::into_mat", &args, || sp_r(&v.clone().into_mat()), &RMat::from_fn(n, 1, |i, _| d[i].clone()));
    ck.val("SpVec::from(Vec)", &args, || spv_r(&SpVec::<R>::from(d.iter().map(|x| R::from_ref(x)).collect::<Vec<R>>())), d.clone());
    let stored: Vec<(usize, R::Ref)> = (0..n).filter_map(|i| cells[i].clone().map(|x| (i, x))).collect();
    for ord in perms(stored.len().min(4)) {
        // (for more than 4 stored entries only the first 4 are permuted)
        let mut e: Vec<(usize, R::Ref)> = ord.iter().map(|&t| stored[t].clone()).collect();
        e.extend(stored.iter().skip(4).cloned());
        ck.val("SpVec::from_entries", &|| format!("{} order={ord:?}", show_cells(cells)), || spv_r(&SpVec::<R>::from_entries(n, e.iter().map(|(i, x)| (*i, R::from_ref(x))))), d.clone());
    }
    let nd: Vec<R::Ref> = d.iter().map(|x| x.neg()).collect();
    ck.val("SpVec::neg(ref)", &args, || spv_r(&-&v), nd.clone());
    ck.val("SpVec::neg(val)", &args, || spv_r(&-v.clone()), nd);
    for p in perms(n) {
        let po = PermOwned::new(p.clone());
        let mut e = vec![zero(); n];
        for i in 0..n {
            e[p[i]] = d[i].clone();
        }
        ck.val("SpVec::permute", &|| format!("{} p={p:?}", show_cells(cells)), || spv_r(&v.permute(po.view())), e);
    }
    for (a, b) in ranges(n) {
        ck.val("SpVec::subvec", &|| format!("{} range={a}..{b}", show_cells(cells)), || spv_r(&v.subvec(a..b)), d[a..b].to_vec());
    }
    for k in 0..=n {
        ck.val(
            "SpVec::split",
            &|| format!("{} at={k}", show_cells(cells)),
            || {
                let (x, y) = v.split(k);
                (spv_r(&x), spv_r(&y))
            },
            (d[..k].to_vec(), d[k..].to_vec()),
        );
    }
    {
        let e: Vec<R::Ref> = d.iter().rev().cloned().collect();
        ck.val("SpVec::extract(reverse)", &args, || spv_r(&v.extract(n, |i| Some(n - 1 - i))), e);
        let e: Vec<R::Ref> = (0..n).step_by(2).map(|i| d[i].clone()).collect();
        ck.val("SpVec::extract(even)", &args, || spv_r(&v.extract(n.div_ceil(2), |i| (i % 2 == 0).then_some(i / 2))), e);
    }
    for i in 0..n {
        let mut e = vec![zero(); n];
        e[i] = <R::Ref as RefRing>::one();
        ck.val("SpVec::unit", &|| format!("n={n} i={i}"), || spv_r(&SpVec::<R>::unit(n, i)), e);
    }
}

fn binary_spvec<R>(ck: &Ck, ca: &[Option<R::Ref>], cb: &[Option<R::Ref>])
where
    R: Ring + Bridge,
    for<'x> &'x R: RingOps<R>,
{
    let zero = <R::Ref as RefRing>::zero;
    let da: Vec<R::Ref> = ca.iter().map(|c| c.clone().unwrap_or_else(zero)).collect();
    let db: Vec<R::Ref> = cb.iter().map(|c| c.clone().unwrap_or_else(zero)).collect();
    let ar = || format!("{}|{}", show_cells(ca), show_cells(cb));
    let (Ok(x), Ok(y)) = (catch(|| build_spvec::<R>(ca)), catch(|| build_spvec::<R>(cb))) else { return };
    let sz = |c: &[Option<R::Ref>]| c.iter().any(|c| matches!(c, Some(x) if x.is_zero()));
    ck.case(da.iter().any(|x| !x.is_zero()) && db.iter().any(|x| !x.is_zero()), sz(ca) || sz(cb));
    let cat: Vec<R::Ref> = da.iter().chain(db.iter()).cloned().collect();
    ck.val("SpVec::stack", &ar, || spv_r(&x.stack(&y)), cat.clone());
    ck.val("SpVec::stack_vecs", &ar, || spv_r(&SpVec::stack_vecs([x.clone(), y.clone()])), cat.clone());
    {
        let mut e = cat.clone();
        e.extend(da.iter().cloned());
        ck.val("SpVec::stack_vecs(3)", &ar, || spv_r(&SpVec::stack_vecs([x.clone(), y.clone(), x.clone()])), e);
    }
    if ca.len() == cb.len() {
        let s: Vec<R::Ref> = da.iter().zip(&db).map(|(p, q)| p.add(q)).collect();
        let t: Vec<R::Ref> = da.iter().zip(&db).map(|(p, q)| p.sub(q)).collect();
        ck.val("SpVec::add(ref,ref)", &ar, || spv_r(&(&x + &y)), s.clone());
        ck.val("SpVec::add(val,val)", &ar, || spv_r(&(x.clone() + y.clone())), s.clone());
        ck.val("SpVec::add(val,ref)", &ar, || spv_r(&(x.clone() + &y)), s.clone());
        ck.val("SpVec::add(ref,val)", &ar, || spv_r(&(&x + y.clone())), s.clone());
        ck.val(
            "SpVec::add_assign",
            &ar,
            || {
                let mut z = x.clone();
                z += &y;
                let mut w = x.clone();
                w += y.clone();
                (spv_r(&z), spv_r(&w))
            },
            (s.clone(), s),
        );
        ck.val("SpVec::sub(ref,ref)", &ar, || spv_r(&(&x - &y)), t.clone());
        ck.val("SpVec::sub(val,val)", &ar, || spv_r(&(x.clone() - y.clone())), t.clone());
        ck.val("SpVec::sub(val,ref)", &ar, || spv_r(&(x.clone() - &y)), t.clone());
        ck.val("SpVec::sub(ref,val)", &ar, || spv_r(&(&x - y.clone())), t.clone());
        ck.val(
            "SpVec::sub_assign",
            &ar,
            || {
                let mut z = x.clone();
                z -= &y;
                let mut w = x.clone();
                w -= y.clone();
                (spv_r(&z), spv_r(&w))
            },
            (t.clone(), t),
        );
    }
}

// ------------------------------------------------------------------------------------------
// Mat (dense)
// ------------------------------------------------------------------------------------------

fn nth_dense<T: RefRing>(m: usize, n: usize, vals: &[T], mut idx: usize) -> RMat<T> {
    let mut e = Vec::with_capacity(m * n);
    for _ in 0..m * n {
        e.push(vals[idx % vals.len()].clone());
        idx /= vals.len();
    }
    RMat { m, n, e }
}

fn dense_values<T: RefRing>(vals: &[i64]) -> Vec<T> {
    let mut v: Vec<T> = vec![];
    for &x in vals {
        let t = T::from_i64(x);
        if !v.contains(&t) {
            v.push(t);
        }
    }
    v
}

/// `elementary`: also all 2x2 blocks of left/right_elementary (4^4 per row/column pair)
fn unary_mat<R>(ck: &Ck, d: &RMat<R::Ref>, scal: &[R::Ref], elementary: bool)
where
    R: Ring + Bridge,
    for<'x> &'x R: RingOps<R>,
{
    let (m, n) = (d.m, d.n);
    let args = || d.show();
    let zero = <R::Ref as RefRing>::zero;
    let a: Mat<R> = match catch(|| mk_mat::<R>(d)) {
        Ok(a) => a,
        Err(p) => {
            ck.fail("Mat::from_data", &args(), format!("panicked: {p}"));
            return;
        }
    };
    ck.case(m > 0 && n > 0 && !d.is_zero(), false);
    ck.mat("Mat::from_data", &args, || mat_r(&a), d);
    ck.val("Mat::shape", &args, || (a.shape(), a.nrows(), a.ncols(), a.is_square()), ((m, n), m, n, m == n));
    ck.mat(
        "Mat::iter",
        &args,
        || {
            let mut r = RMat::zero(m, n);
            let mut cnt = 0;
            for (i, j, v) in a.iter() {
                assert!(i < m && j < n, "iter yields ({i},{j}) outside {m}x{n}");
                r.set(i, j, v.to_ref());
                cnt += 1;
            }
            assert!(cnt == m * n, "iter yields {cnt} entries of {}", m * n);
            r
        },
        d,
    );
    ck.val("Mat::is_zero", &args, || a.is_zero(), d.is_zero());
    ck.val("Mat::is_id", &args, || a.is_id(), d.is_id());
    ck.val("Mat::is_diag", &args, || a.is_diag(), (0..m).all(|i| (0..n).all(|j| i == j || d.at(i, j).is_zero())));
    {
        let k = m.min(n);
        let e = RMat::from_fn(m, n, |i, j| if i == j { d.at(i, j).clone() } else { zero() });
        ck.mat("Mat::diag", &args, || mat_r(&Mat::<R>::diag((m, n), (0..k).map(|i| R::from_ref(d.at(i, i))))), &e);
    }
    for &(i0, i1) in &ranges(m) {
        let rows: Vec<usize> = (i0..i1).collect();
        let alln: Vec<usize> = (0..n).collect();
        ck.mat("Mat::submat_rows", &|| format!("{} rows={i0}..{i1}", d.show()), || mat_r(&a.submat_rows(i0..i1)), &d.submat(&rows, &alln));
        for &(j0, j1) in &ranges(n) {
            let cols: Vec<usize> = (j0..j1).collect();
            ck.mat("Mat::submat", &|| format!("{} rows={i0}..{i1} cols={j0}..{j1}", d.show()), || mat_r(&a.submat(i0..i1, j0..j1)), &d.submat(&rows, &cols));
        }
    }
    for &(j0, j1) in &ranges(n) {
        let cols: Vec<usize> = (j0..j1).collect();
        let allm: Vec<usize> = (0..m).collect();
        ck.mat("Mat::submat_cols", &|| format!("{} cols={j0}..{j1}", d.show()), || mat_r(&a.submat_cols(j0..j1)), &d.submat(&allm, &cols));
    }
    let nd = d.neg();
    ck.mat("Mat::neg(ref)", &args, || mat_r(&-&a), &nd);
    ck.mat("Mat::neg(val)", &args, || mat_r(&-a.clone()), &nd);
    // elementary row / column operations
    for i in 0..m {
        for j in 0..m {
            let e = RMat::from_fn(m, n, |r, c| d.at(if r == i { j } else if r == j { i } else { r }, c).clone());
            ck.mat(
                "Mat::swap_rows",
                &|| format!("{} i={i} j={j}", d.show()),
                || {
                    let mut z = a.clone();
                    z.swap_rows(i, j);
                    mat_r(&z)
                },
                &e,
            );
        }
    }
    for i in 0..n {
        for j in 0..n {
            let e = RMat::from_fn(m, n, |r, c| d.at(r, if c == i { j } else if c == j { i } else { c }).clone());
            ck.mat(
                "Mat::swap_cols",
                &|| format!("{} i={i} j={j}", d.show()),
                || {
                    let mut z = a.clone();
                    z.swap_cols(i, j);
                    mat_r(&z)
                },
                &e,
            );
        }
    }
    for s in scal {
        let sr = R::from_ref(s);
        for i in 0..m {
            let e = RMat::from_fn(m, n, |r, c| if r == i { d.at(r, c).mul(s) } else { d.at(r, c).clone() });
            ck.mat(
                "Mat::mul_row",
                &|| format!("{} i={i} r={}", d.show(), s.show()),
                || {
                    let mut z = a.clone();
                    z.mul_row(i, &sr);
                    mat_r(&z)
                },
                &e,
            );
            for j in 0..m {
                // row j += r * row i   (i = j: row i *= 1 + r)
                let e = RMat::from_fn(m, n, |r, c| if r == j { d.at(j, c).add(&d.at(i, c).mul(s)) } else { d.at(r, c).clone() });
                ck.mat(
                    "Mat::add_row_to",
                    &|| format!("{} i={i} j={j} r={}", d.show(), s.show()),
                    || {
                        let mut z = a.clone();
                        z.add_row_to(i, j, &sr);
                        mat_r(&z)
                    },
                    &e,
                );
            }
        }
        for i in 0..n {
            let e = RMat::from_fn(m, n, |r, c| if c == i { d.at(r, c).mul(s) } else { d.at(r, c).clone() });
            ck.mat(
                "Mat::mul_col",
                &|| format!("{} j={i} r={}", d.show(), s.show()),
                || {
                    let mut z = a.clone();
                    z.mul_col(i, &sr);
                    mat_r(&z)
                },
                &e,
            );
            for j in 0..n {
                let e = RMat::from_fn(m, n, |r, c| if c == j { d.at(r, j).add(&d.at(r, i).mul(s)) } else { d.at(r, c).clone() });
                ck.mat(
                    "Mat::add_col_to",
                    &|| format!("{} i={i} j={j} r={}", d.show(), s.show()),
                    || {
                        let mut z = a.clone();
                        z.add_col_to(i, j, &sr);
                        mat_r(&z)
                    },
                    &e,
                );
            }
        }
        for i in 0..m {
            for j in 0..n {
                let mut e = d.clone();
                e.set(i, j, s.clone());
                ck.mat(
                    "Mat::index_mut",
                    &|| format!("{} ({i},{j})={}", d.show(), s.show()),
                    || {
                        let mut z = a.clone();
                        z[(i, j)] = sr.clone();
                        mat_r(&z)
                    },
                    &e,
                );
            }
        }
    }
    // 2x2 blocks acting on a pair of distinct rows / columns
    if !elementary {
        return;
    }
    let ns = scal.len();
    for code in 0..ns.pow(4) {
        let q: [&R::Ref; 4] = [&scal[code % ns], &scal[code / ns % ns], &scal[code / ns / ns % ns], &scal[code / ns / ns / ns % ns]];
        let qr: [R; 4] = [R::from_ref(q[0]), R::from_ref(q[1]), R::from_ref(q[2]), R::from_ref(q[3])];
        let qs = || format!("[{},{},{},{}]", q[0].show(), q[1].show(), q[2].show(), q[3].show());
        for i in 0..m {
            for j in 0..m {
                if i == j {
                    continue;
                }
                // [a b; c d] from the left on rows (i, j)
                let e = RMat::from_fn(m, n, |r, c| {
                    if r == i {
                        q[0].mul(d.at(i, c)).add(&q[1].mul(d.at(j, c)))
                    } else if r == j {
                        q[2].mul(d.at(i, c)).add(&q[3].mul(d.at(j, c)))
                    } else {
                        d.at(r, c).clone()
                    }
                });
                ck.mat(
                    "Mat::left_elementary",
                    &|| format!("{} comps={} i={i} j={j}", d.show(), qs()),
                    || {
                        let mut z = a.clone();
                        z.left_elementary([&qr[0], &qr[1], &qr[2], &qr[3]], i, j);
                        mat_r(&z)
                    },
                    &e,
                );
            }
        }
        for i in 0..n {
            for j in 0..n {
                if i == j {
                    continue;
                }
                // [a c; b d] from the right on columns (i, j)
                let e = RMat::from_fn(m, n, |r, c| {
                    if c == i {
                        d.at(r, i).mul(q[0]).add(&d.at(r, j).mul(q[1]))
                    } else if c == j {
                        d.at(r, i).mul(q[2]).add(&d.at(r, j).mul(q[3]))
                    } else {
                        d.at(r, c).clone()
                    }
                });
                ck.mat(
                    "Mat::right_elementary",
                    &|| format!("{} comps={} i={i} j={j}", d.show(), qs()),
                    || {
                        let mut z = a.clone();
                        z.right_elementary([&qr[0], &qr[1], &qr[2], &qr[3]], i, j);
                        mat_r(&z)
                    },
                    &e,
                );
            }
        }
    }
}

fn binary_mat<R>(ck: &Ck, da: &RMat<R::Ref>, a: &Mat<R>, db: &RMat<R::Ref>, b: &Mat<R>, all_forms: bool)
where
    R: Ring + Bridge,
    for<'x> &'x R: RingOps<R>,
{
    let ar = || format!("{}|{}", da.show(), db.show());
    ck.case(da.m > 0 && da.n > 0 && db.m > 0 && db.n > 0 && !da.is_zero() && !db.is_zero(), false);
    if (da.m, da.n) == (db.m, db.n) {
        let s = da.add(db);
        let t = da.sub(db);
        ck.mat("Mat::add(ref,ref)", &ar, || mat_r(&(a + b)), &s);
        ck.mat("Mat::sub(ref,ref)", &ar, || mat_r(&(a - b)), &t);
        if all_forms {
            ck.mat("Mat::add(val,val)", &ar, || mat_r(&(a.clone() + b.clone())), &s);
            ck.mat("Mat::add(val,ref)", &ar, || mat_r(&(a.clone() + b)), &s);
            ck.mat("Mat::add(ref,val)", &ar, || mat_r(&(a + b.clone())), &s);
            ck.mat(
                "Mat::add_assign(ref)",
                &ar,
                || {
                    let mut z = a.clone();
                    z += b;
                    mat_r(&z)
                },
                &s,
            );
            ck.mat(
                "Mat::add_assign(val)",
                &ar,
                || {
                    let mut z = a.clone();
                    z += b.clone();
                    mat_r(&z)
                },
                &s,
            );
            ck.mat("Mat::sub(val,val)", &ar, || mat_r(&(a.clone() - b.clone())), &t);
            ck.mat("Mat::sub(val,ref)", &ar, || mat_r(&(a.clone() - b)), &t);
            ck.mat("Mat::sub(ref,val)", &ar, || mat_r(&(a - b.clone())), &t);
            ck.mat(
                "Mat::sub_assign(ref)",
                &ar,
                || {
                    let mut z = a.clone();
                    z -= b;
                    mat_r(&z)
                },
                &t,
            );
            ck.mat(
                "Mat::sub_assign(val)",
                &ar,
                || {
                    let mut z = a.clone();
                    z -= b.clone();
                    mat_r(&z)
                },
                &t,
            );
        }
    }
    if da.n == db.m {
        let p = da.mul(db);
        ck.mat("Mat::mul(ref,ref)", &ar, || mat_r(&(a * b)), &p);
        if all_forms {
            ck.mat("Mat::mul(val,val)", &ar, || mat_r(&(a.clone() * b.clone())), &p);
            ck.mat("Mat::mul(val,ref)", &ar, || mat_r(&(a.clone() * b)), &p);
            ck.mat("Mat::mul(ref,val)", &ar, || mat_r(&(a * b.clone())), &p);
            if db.m == db.n {
                ck.mat(
                    "Mat::mul_assign(ref)",
                    &ar,
                    || {
                        let mut z = a.clone();
                        z *= b;
                        mat_r(&z)
                    },
                    &p,
                );
                ck.mat(
                    "Mat::mul_assign(val)",
                    &ar,
                    || {
                        let mut z = a.clone();
                        z *= b.clone();
                        mat_r(&z)
                    },
                    &p,
                );
            }
        }
    }
}

// ------------------------------------------------------------------------------------------
// container sweep for one ring
// ------------------------------------------------------------------------------------------

/// cell alphabet for a pair of sparse operands with `cells` positions in total
fn pair_symbols<T: RefRing>(cells: usize) -> Vec<Vec<Option<T>>> {
    if cells <= 10 {
        vec![symbols::<T>(true, true, &[-1, 1, 2])]
    } else if cells <= 14 {
        vec![symbols::<T>(true, true, &[1])]
    } else {
        vec![symbols::<T>(true, false, &[1]), symbols::<T>(false, true, &[-1])]
    }
}

fn containers<R>(run: &Run)
where
    R: Ring + Bridge,
    for<'x> &'x R: RingOps<R>,
{
    let th = run.thorough();
    let maxd = if th { 3 } else { 2 };
    let s5 = symbols::<R::Ref>(true, true, &[-1, 1, 2]);
    {
        let ck = Ck::new(run, R::NAME);
        spmat_constants::<R>(&ck, maxd);
    }

    // ---- SpMat, one operand: every shape, every cell assignment --------------------------------
    for m in 0..=maxd {
        for n in 0..=maxd {
            let cnt = count(s5.len(), m * n);
            let chunk = 64;
            run.par_for(cnt.div_ceil(chunk), |c| {
                let ck = Ck::new(run, R::NAME);
                for idx in c * chunk..((c + 1) * chunk).min(cnt) {
                    unary_spmat::<R>(&ck, &nth_opd(m, n, &s5, idx));
                }
            });
            if run.over_budget() {
                run.cap("wall budget reached in the SpMat one-operand sweep");
                return;
            }
        }
    }
    if !th {
        // permutations / index remapping need a dimension 3 to tell p from its inverse
        let s3 = symbols::<R::Ref>(true, true, &[1]);
        for (m, n) in [(3usize, 0usize), (0, 3), (3, 1), (1, 3), (3, 2), (2, 3), (3, 3)] {
            let sy = if m * n <= 3 { &s5 } else { &s3 };
            let cnt = count(sy.len(), m * n);
            let chunk = 64;
            run.par_for(cnt.div_ceil(chunk), |c| {
                let ck = Ck::new(run, R::NAME);
                for idx in c * chunk..((c + 1) * chunk).min(cnt) {
                    unary_spmat::<R>(&ck, &nth_opd(m, n, sy, idx));
                }
            });
        }
    }
    run.sample(json!({"ring": R::NAME, "operand": nth_opd::<R::Ref>(2, 2, &s5, 7 + 5 * 1 + 25 * 2).show(),
        "note": "'.' = zero not stored, '0' = explicitly stored zero; every public SpMat operation is evaluated on it"}));

    // ---- SpMat, two operands ------------------------------------------------------------------------
    for m in 0..=maxd {
        for k in 0..=maxd {
            for n in 0..=maxd {
                if run.over_budget() {
                    run.cap("wall budget reached in the SpMat two-operand sweep");
                    return;
                }
                // product (m x k)(k x n)
                for sy in pair_symbols::<R::Ref>(m * k + k * n) {
                    let forms = m * k + k * n <= 8;
                    for_pairs::<R>(run, (m, k), &sy, (k, n), &sy, |ck, a, b| binary_mul(ck, a, b, forms));
                }
                // [m x k | m x n]
                for sy in pair_symbols::<R::Ref>(m * k + m * n) {
                    for_pairs::<R>(run, (m, k), &sy, (m, n), &sy, |ck, a, b| binary_concat(ck, a, b));
                }
                // [m x k ; n x k]
                for sy in pair_symbols::<R::Ref>(m * k + n * k) {
                    for_pairs::<R>(run, (m, k), &sy, (n, k), &sy, |ck, a, b| binary_stack(ck, a, b));
                }
            }
            // sum / difference (m x k) +- (m x k), matrix * vector
            for sy in pair_symbols::<R::Ref>(2 * m * k) {
                let forms = 2 * m * k <= 8;
                for_pairs::<R>(run, (m, k), &sy, (m, k), &sy, |ck, a, b| binary_addsub(ck, a, b, forms));
            }
            for sy in pair_symbols::<R::Ref>(m * k + k) {
                for_pairs::<R>(run, (m, k), &sy, (k, 1), &sy, |ck, a, b| binary_matvec(ck, a, b));
            }
        }
    }

    // ---- SpVec ------------------------------------------------------------------------------------
    let maxv = maxd + 1;
    for n in 0..=maxv {
        let cnt = count(s5.len(), n);
        run.par_for(cnt.div_ceil(16), |c| {
            let ck = Ck::new(run, R::NAME);
            for idx in c * 16..((c + 1) * 16).min(cnt) {
                unary_spvec::<R>(&ck, &nth_opd(n, 1, &s5, idx).c);
            }
        });
        for n2 in 0..=maxv {
            let cnt2 = count(s5.len(), n2);
            run.par_for(cnt, |i| {
                let ck = Ck::new(run, R::NAME);
                let a = nth_opd(n, 1, &s5, i).c;
                for j in 0..cnt2 {
                    binary_spvec::<R>(&ck, &a, &nth_opd(n2, 1, &s5, j).c);
                }
            });
        }
    }

    // ---- Mat ----------------------------------------------------------------------------------------
    let dv = dense_values::<R::Ref>(&[0, 1, -1, 2]);
    for m in 0..=maxd {
        for n in 0..=maxd {
            let cnt = count(dv.len(), m * n);
            let chunk = 16;
            run.par_for(cnt.div_ceil(chunk), |c| {
                let ck = Ck::new(run, R::NAME);
                for idx in c * chunk..((c + 1) * chunk).min(cnt) {
                    // the 4^4 two-by-two blocks of left/right_elementary only up to 2x3 / 3x2
                    unary_mat::<R>(&ck, &nth_dense(m, n, &dv, idx), &dv, m * n <= 6);
                }
            });
        }
    }
    for m in 0..=maxd {
        for k in 0..=maxd {
            for n in 0..=maxd {
                if run.over_budget() {
                    run.cap("wall budget reached in the Mat two-operand sweep");
                    return;
                }
                // (m x k) with (k x n): product; with (m x k) when n = k and m = k it is also the sum
                let shapes_b: Vec<(usize, usize)> = if n == k && m != k { vec![(k, n), (m, k)] } else { vec![(k, n)] };
                for (bm, bn) in shapes_b {
                    let cells = m * k + bm * bn;
                    let vals: Vec<R::Ref> = if cells <= 12 {
                        dv.clone()
                    } else if cells <= 15 {
                        dense_values::<R::Ref>(&[0, 1, -1])
                    } else {
                        dense_values::<R::Ref>(&[0, 1])
                    };
                    let (ca, cb) = (count(vals.len(), m * k), count(vals.len(), bm * bn));
                    let forms = cells <= 8;
                    let bs: Vec<(RMat<R::Ref>, Mat<R>)> = (0..cb)
                        .map(|j| {
                            let d = nth_dense(bm, bn, &vals, j);
                            let b = mk_mat::<R>(&d);
                            (d, b)
                        })
                        .collect();
                    let chunk = (2048 / cb.max(1)).clamp(1, 64);
                    run.par_for(ca.div_ceil(chunk), |c| {
                        let ck = Ck::new(run, R::NAME);
                        for i in c * chunk..((c + 1) * chunk).min(ca) {
                            let da = nth_dense(m, k, &vals, i);
                            let a = mk_mat::<R>(&da);
                            for (db, b) in &bs {
                                binary_mat::<R>(&ck, &da, &a, db, b, forms);
                            }
                        }
                    });
                }
            }
        }
    }
}

// ------------------------------------------------------------------------------------------
// Trans: see part 2 below
// ------------------------------------------------------------------------------------------


/// one operation of a history
#[derive(Clone, Debug)]
enum Act<T: RefRing> {
    Append(RMat<T>, RMat<T>),
    Perm(Vec<usize>),
    Sub(Vec<usize>),
    Reduce,
    /// `self.merge(other)`, `other` given by its own history
    Merge(Arc<Hist<T>>),
}

#[derive(Clone, Debug)]
struct Hist<T: RefRing> {
    dim0: usize,
    acts: Vec<Act<T>>,
}

impl<T: RefRing> Hist<T> {
    fn show(&self) -> String {
        let a: Vec<String> = self
            .acts
            .iter()
            .map(|a| match a {
                Act::Append(f, b) => format!("append(f={},b={})", f.show(), b.show()),
                Act::Perm(p) => format!("append_perm({p:?})"),
                Act::Sub(ix) => format!("sub({ix:?})"),
                Act::Reduce => "reduce".to_string(),
                Act::Merge(h) => format!("merge({})", h.show()),
            })
            .collect();
        format!("id({}).{}", self.dim0, a.join("."))
    }
}

/// Model state: the pair of dense matrices the transform must represent, the dimensions, and
/// the class of the number of stored factors (0, 1, >= 2 — the implementation special-cases
/// these).  `hist` is a witness history that rebuilds a real `Trans` in this state; it does not
/// take part in equality.
#[derive(Clone)]
struct St<T: RefRing> {
    key: String,
    src: usize,
    tgt: usize,
    nf: u8,
    f: RMat<T>,
    b: RMat<T>,
    hist: Arc<Hist<T>>,
}

impl<T: RefRing> PartialEq for St<T> {
    fn eq(&self, o: &Self) -> bool {
        self.key == o.key
    }
}
impl<T: RefRing> Eq for St<T> {}
impl<T: RefRing> Hash for St<T> {
    fn hash<H: Hasher>(&self, h: &mut H) {
        self.key.hash(h)
    }
}

fn mk_state<T: RefRing>(src: usize, tgt: usize, nf: u8, f: RMat<T>, b: RMat<T>, hist: Arc<Hist<T>>) -> St<T> {
    let key = format!("{src}>{tgt}|nf{nf}|F={}|B={}", f.show(), b.show());
    St { key, src, tgt, nf, f, b, hist }
}

fn perm_mats<T: RefRing>(p: &[usize]) -> (RMat<T>, RMat<T>) {
    // forward: new[p(i)] = old[i]; backward is its inverse
    let n = p.len();
    let mut f = RMat::zero(n, n);
    let mut b = RMat::zero(n, n);
    for i in 0..n {
        f.set(p[i], i, T::one());
        b.set(i, p[i], T::one());
    }
    (f, b)
}

fn sub_mats<T: RefRing>(n: usize, ix: &[usize]) -> (RMat<T>, RMat<T>) {
    // forward keeps the coordinates ix[0], ix[1], ..; backward is the inclusion
    let mut f = RMat::zero(ix.len(), n);
    let mut b = RMat::zero(n, ix.len());
    for (i, &j) in ix.iter().enumerate() {
        f.set(i, j, T::one());
        b.set(j, i, T::one());
    }
    (f, b)
}

/// reference successor
fn step_ref<T: RefRing>(s: &St<T>, a: &Act<T>, other: Option<&St<T>>) -> (usize, u8, RMat<T>, RMat<T>) {
    let app = |f: &RMat<T>, b: &RMat<T>| (f.m, (s.nf + 1).min(2), f.mul(&s.f), s.b.mul(b));
    match a {
        Act::Append(f, b) => app(f, b),
        Act::Perm(p) => {
            let (f, b) = perm_mats::<T>(p);
            app(&f, &b)
        }
        Act::Sub(ix) => {
            let (f, b) = sub_mats::<T>(s.tgt, ix);
            app(&f, &b)
        }
        Act::Reduce => (s.tgt, s.nf.min(1), s.f.clone(), s.b.clone()),
        Act::Merge(_) => {
            let o = other.expect("merge partner");
            (o.tgt, (s.nf + o.nf).min(2), o.f.mul(&s.f), s.b.mul(&o.b))
        }
    }
}

fn replay<R>(h: &Hist<R::Ref>) -> Trans<R>
where
    R: Ring + Bridge,
    for<'x> &'x R: RingOps<R>,
{
    let mut t = Trans::<R>::id(h.dim0);
    for a in &h.acts {
        apply::<R>(&mut t, a);
    }
    t
}

fn apply<R>(t: &mut Trans<R>, a: &Act<R::Ref>)
where
    R: Ring + Bridge,
    for<'x> &'x R: RingOps<R>,
{
    match a {
        Act::Append(f, b) => t.append(dense_sp::<R>(f), dense_sp::<R>(b)),
        Act::Perm(p) => t.append_perm(PermOwned::new(p.clone()).view()),
        Act::Sub(ix) => *t = t.sub(ix),
        Act::Reduce => t.reduce(),
        Act::Merge(h) => t.merge(replay::<R>(h)),
    }
}

struct TCk<'a> {
    run: &'a Run,
    ring: &'static str,
    obs: &'a AtomicU64,
}

impl<'a> TCk<'a> {
    fn fail(&self, state: &str, action: &str, what: String, hist: &str) {
        self.run.fail(
            &format!("c13:Trans:{}:{state}:{action}", self.ring),
            &what,
            json!({"ring": self.ring, "state": state, "action": action, "witness_history": hist}),
        );
    }

    /// all observations of one transform against (F, B); returns the first discrepancy
    fn observe<R>(&self, t: &Trans<R>, src: usize, tgt: usize, f: &RMat<R::Ref>, b: &RMat<R::Ref>) -> Result<(), String>
    where
        R: Ring + Bridge,
        for<'x> &'x R: RingOps<R>,
    {
        let one_pass = |t: &Trans<R>, when: &str| -> Result<(), String> {
            self.obs.fetch_add(1, Ordering::Relaxed);
            if (t.src_dim(), t.tgt_dim()) != (src, tgt) {
                return Err(format!("{when}: dims ({},{}) expected ({src},{tgt})", t.src_dim(), t.tgt_dim()));
            }
            let fm = sp_r(&t.forward_mat());
            if fm != *f {
                return Err(format!("{when}: forward_mat = {} expected {}", fm.show(), f.show()));
            }
            let bm = sp_r(&t.backward_mat());
            if bm != *b {
                return Err(format!("{when}: backward_mat = {} expected {}", bm.show(), b.show()));
            }
            if t.is_id() && !(f.is_id() && b.is_id()) {
                return Err(format!("{when}: is_id() holds but the maps are F={} B={}", f.show(), b.show()));
            }
            // basis vectors and one dense vector (1,2,..)
            let probes = |n: usize| -> Vec<Vec<R::Ref>> {
                let mut v: Vec<Vec<R::Ref>> = (0..n)
                    .map(|i| (0..n).map(|k| if k == i { <R::Ref as RefRing>::one() } else { <R::Ref as RefRing>::zero() }).collect())
                    .collect();
                v.push((0..n).map(|k| <R::Ref as RefRing>::from_i64(k as i64 + 1)).collect());
                v
            };
            for v in probes(src) {
                let sv = SpVec::<R>::from(v.iter().map(|x| R::from_ref(x)).collect::<Vec<R>>());
                let got = spv_r(&t.forward(&sv));
                let exp = f.mul_vec(&v);
                if got != exp {
                    return Err(format!("{when}: forward({}) = {} expected F*v = {}", show_vec(&v), show_vec(&got), show_vec(&exp)));
                }
            }
            for v in probes(tgt) {
                let sv = SpVec::<R>::from(v.iter().map(|x| R::from_ref(x)).collect::<Vec<R>>());
                let got = spv_r(&t.backward(&sv));
                let exp = b.mul_vec(&v);
                if got != exp {
                    return Err(format!("{when}: backward({}) = {} expected B*v = {}", show_vec(&v), show_vec(&got), show_vec(&exp)));
                }
            }
            Ok(())
        };
        one_pass(t, "before reduce")?;
        let mut t2 = t.clone();
        t2.reduce();
        one_pass(&t2, "after reduce")?;
        if !self.run.thorough() {
            return Ok(());
        }
        // a second reduce must not change anything
        t2.reduce();
        one_pass(&t2, "after reduce twice")
    }
}

/// all 0/±1 matrices of a shape, as reference matrices
fn pm1_mats<T: RefRing>(m: usize, n: usize) -> Vec<RMat<T>> {
    let vals = dense_values::<T>(&[0, 1, -1]);
    (0..count(vals.len(), m * n)).map(|i| nth_dense(m, n, &vals, i)).collect()
}

/// the partner b of f in the history alphabet: b = phi(f)^T entrywise with the fixed-point-free
/// bijection phi_s: x -> x + s (mod 3) on {-1,0,1}.  f runs over ALL 0/±1 matrices and so does b;
/// b is never the transpose of f, so an f/b mix-up or a wrong composition order is visible.
fn partner<T: RefRing>(f: &RMat<T>, shift: i64) -> RMat<T> {
    let code = |x: &T| -> i64 {
        if x.is_zero() {
            0
        } else if *x == T::one() {
            1
        } else {
            -1
        }
    };
    RMat::from_fn(f.n, f.m, |i, j| {
        let c = (code(f.at(j, i)) + 1 + shift).rem_euclid(3) - 1;
        T::from_i64(c)
    })
}

struct TransStats {
    states: u64,
    transitions: u64,
    per_level: Vec<u64>,
}

fn trans_bfs<R>(run: &Run, depth: usize, pool_level: usize, shifts: &[i64]) -> TransStats
where
    R: Ring + Bridge,
    for<'x> &'x R: RingOps<R>,
{
    type T<R> = <R as Bridge>::Ref;
    let obs = AtomicU64::new(0);
    let trans = AtomicU64::new(0);
    let ck = TCk { run, ring: R::NAME, obs: &obs };

    // action alphabet per target dimension
    let appends: Vec<Vec<Act<T<R>>>> = (0..=3usize)
        .map(|d| {
            let mut v = vec![];
            if d <= 2 {
                for k in 0..=2usize {
                    for f in pm1_mats::<T<R>>(k, d) {
                        for &s in shifts {
                            let b = partner(&f, s);
                            v.push(Act::Append(f.clone(), b));
                            if k * d == 0 {
                                break; // empty matrices: one partner only
                            }
                        }
                    }
                }
            }
            for p in perms(d) {
                v.push(Act::Perm(p));
            }
            for ix in selections(d) {
                v.push(Act::Sub(ix));
            }
            v.push(Act::Reduce);
            v
        })
        .collect();

    let init: Vec<St<T<R>>> = (0..=3usize).map(|n| mk_state(n, n, 0, RMat::id(n), RMat::id(n), Arc::new(Hist { dim0: n, acts: vec![] }))).collect();
    for s in &init {
        match catch(|| replay::<R>(&s.hist)) {
            Ok(t) => {
                if let Err(w) = catch(|| ck.observe::<R>(&t, s.src, s.tgt, &s.f, &s.b)).unwrap_or_else(|p| Err(format!("panicked: {p}"))) {
                    ck.fail(&s.key, "init", w, &s.hist.show());
                }
                if !t.is_id() {
                    ck.fail(&s.key, "init", "Trans::id(n).is_id() is false".into(), &s.hist.show());
                }
            }
            Err(p) => ck.fail(&s.key, "init", format!("panicked: {p}"), &s.hist.show()),
        }
    }

    let mut all: HashMap<String, (St<T<R>>, usize)> = HashMap::new(); // state, level first reached
    for s in &init {
        all.insert(s.key.clone(), (s.clone(), 0));
    }
    let mut frontier = init.clone();
    let mut per_level = vec![frontier.len() as u64];
    for level in 0..depth {
        let last = level + 1 == depth;
        let mut pool: Vec<St<T<R>>> = all.values().filter(|(_, l)| *l <= pool_level).map(|(s, _)| s.clone()).collect();
        pool.sort_by(|a, b| a.key.cmp(&b.key));
        let expand = |s: &St<T<R>>, _d: usize| -> Vec<St<T<R>>> {
            let mut out = vec![];
            let t0 = match catch(|| replay::<R>(&s.hist)) {
                Ok(t) => t,
                Err(p) => {
                    ck.fail(&s.key, "replay", format!("replaying the witness history panicked: {p}"), &s.hist.show());
                    return out;
                }
            };
            // one transition = one execution of the real operation + all observations
            let mut go = |base: &St<T<R>>, tbase: &Trans<R>, a: Act<T<R>>, other: Option<&St<T<R>>>, label: String| {
                trans.fetch_add(1, Ordering::Relaxed);
                let (tgt, nf, f, b) = step_ref(base, &a, other);
                let mut acts = base.hist.acts.clone();
                acts.push(a.clone());
                let hist = Arc::new(Hist { dim0: base.hist.dim0, acts });
                let r = catch(|| {
                    let mut t = tbase.clone();
                    apply::<R>(&mut t, &a);
                    if let Act::Merge(h) = &a {
                        // the by-reference variant must agree
                        let t2 = tbase.merged(&replay::<R>(h));
                        ck.observe::<R>(&t2, base.src, tgt, &f, &b).map_err(|w| format!("merged(): {w}"))?;
                    }
                    ck.observe::<R>(&t, base.src, tgt, &f, &b)
                });
                match r {
                    Ok(Ok(())) => {
                        if !last {
                            out.push(mk_state(base.src, tgt, nf, f, b, hist));
                        }
                    }
                    Ok(Err(w)) => ck.fail(&base.key, &label, w, &hist.show()),
                    Err(p) => ck.fail(&base.key, &label, format!("panicked: {p}"), &hist.show()),
                }
            };
            for a in &appends[s.tgt] {
                let label = match a {
                    Act::Append(f, b) => format!("append(f={},b={})", f.show(), b.show()),
                    Act::Perm(p) => format!("append_perm({p:?})"),
                    Act::Sub(ix) => format!("sub({ix:?})"),
                    Act::Reduce => "reduce".to_string(),
                    Act::Merge(_) => unreachable!(),
                };
                go(s, &t0, a.clone(), None, label);
            }
            for o in &pool {
                if o.src == s.tgt {
                    go(s, &t0, Act::Merge(o.hist.clone()), Some(o), format!("merge({})", o.key));
                }
                if o.tgt == s.src && o.key != s.key {
                    if let Ok(to) = catch(|| replay::<R>(&o.hist)) {
                        go(o, &to, Act::Merge(s.hist.clone()), Some(s), format!("merge({})", s.key));
                    }
                }
            }
            out
        };
        let (_, seen) = bfs(run, frontier.clone(), 1, u64::MAX, expand);
        let mut next = vec![];
        for s in seen {
            if !all.contains_key(&s.key) {
                all.insert(s.key.clone(), (s.clone(), level + 1));
                next.push(s);
            }
        }
        next.sort_by(|a, b| a.key.cmp(&b.key));
        per_level.push(next.len() as u64);
        if std::env::var("VERIF_PROGRESS").is_ok() {
            eprintln!("[c13] trans {} level {} -> {} new states, {} transitions so far, {:.1}s", R::NAME, level + 1, next.len(), trans.load(Ordering::Relaxed), run.elapsed());
        }
        frontier = next;
        if run.over_budget() {
            run.cap("wall budget reached in the Trans history search");
            break;
        }
    }
    run.add("trans_observation_passes", obs.load(Ordering::Relaxed));
    if let Some(s) = all.values().find(|(s, l)| *l == 2 && s.nf == 2 && s.src == 2 && s.tgt == 2) {
        run.sample(json!({"ring": R::NAME, "trans_state": s.0.key, "witness_history": s.0.hist.show()}));
    }
    TransStats { states: all.len() as u64, transitions: trans.load(Ordering::Relaxed), per_level }
}

/// histories of length 1 (and 2 when `two`) over the FULL product of pairs (f, b)
fn trans_full_pairs<R>(run: &Run, two: bool) -> u64
where
    R: Ring + Bridge,
    for<'x> &'x R: RingOps<R>,
{
    type T<R> = <R as Bridge>::Ref;
    let obs = AtomicU64::new(0);
    let n_exec = AtomicU64::new(0);
    let ck = TCk { run, ring: R::NAME, obs: &obs };
    // all pairs by (source dim d, target dim k)
    let mut pairs: Vec<(RMat<T<R>>, RMat<T<R>>)> = vec![];
    for d in 0..=2usize {
        for k in 0..=2usize {
            for f in pm1_mats::<T<R>>(k, d) {
                for b in pm1_mats::<T<R>>(d, k) {
                    pairs.push((f.clone(), b));
                }
            }
        }
    }
    let chunk = 16;
    run.par_for(pairs.len().div_ceil(chunk), |c| {
        for i in c * chunk..((c + 1) * chunk).min(pairs.len()) {
            let (f, b) = &pairs[i];
            let (d, k) = (f.n, f.m);
            let st = format!("new(f={},b={})", f.show(), b.show());
            n_exec.fetch_add(1, Ordering::Relaxed);
            let r = catch(|| {
                let t = Trans::<R>::new(dense_sp::<R>(f), dense_sp::<R>(b));
                ck.observe::<R>(&t, d, k, f, b)?;
                let mut t2 = Trans::<R>::id(d);
                t2.append(dense_sp::<R>(f), dense_sp::<R>(b));
                ck.observe::<R>(&t2, d, k, f, b)?;
                Ok::<Trans<R>, String>(t)
            });
            let t = match r {
                Ok(Ok(t)) => t,
                Ok(Err(w)) => {
                    ck.fail(&st, "new", w, &st);
                    continue;
                }
                Err(p) => {
                    ck.fail(&st, "new", format!("panicked: {p}"), &st);
                    continue;
                }
            };
            if !two {
                continue;
            }
            // second append: every pair again, except 2x2 after 2x2 (6561^2 executions; those
            // histories are covered with the paired alphabet by the BFS)
            for (f2, b2) in pairs.iter().filter(|(f2, _)| f2.n == k && !(d == 2 && k == 2 && f2.m == 2)) {
                n_exec.fetch_add(1, Ordering::Relaxed);
                let (ef, eb) = (f2.mul(f), b.mul(b2));
                let r = catch(|| {
                    let mut u = t.clone();
                    u.append(dense_sp::<R>(f2), dense_sp::<R>(b2));
                    ck.observe::<R>(&u, d, f2.m, &ef, &eb)
                });
                let act = format!("append(f={},b={})", f2.show(), b2.show());
                match r {
                    Ok(Ok(())) => {}
                    Ok(Err(w)) => ck.fail(&st, &act, w, &format!("{st}.{act}")),
                    Err(p) => ck.fail(&st, &act, format!("panicked: {p}"), &format!("{st}.{act}")),
                }
            }
        }
    });
    run.add("trans_observation_passes", obs.load(Ordering::Relaxed));
    n_exec.load(Ordering::Relaxed)
}

fn main() {
    let run = Run::new("C13", "model_checking");
    let th = run.thorough();
    let mut timing = vec![];
    let mut t0 = run.elapsed();
    let mut lap = |run: &Run, what: &str| {
        let now = run.elapsed();
        timing.push(json!({"part": what, "wall_s": ((now - t0) * 10.0).round() / 10.0}));
        if std::env::var("VERIF_PROGRESS").is_ok() {
            eprintln!("[c13] {what}: {:.1}s (total {:.1}s)", now - t0, now);
        }
        t0 = now;
    };

    // ---- part 2 first (it is the model-checking part; cheap) ------------------------------------
    let depth = if th { 4 } else { 3 };
    let tz = trans_bfs::<i64>(&run, depth, 1, &[1]);
    lap(&run, "Trans histories i64");
    let depth_f3 = if th { 4 } else { 2 };
    let tf = trans_bfs::<FF<3>>(&run, depth_f3, 1, &[1, 2]);
    lap(&run, "Trans histories FF<3>");
    let tq = trans_bfs::<Ratio<i64>>(&run, if th { 3 } else { 2 }, 1, &[2]);
    lap(&run, "Trans histories Ratio<i64>");
    let full = trans_full_pairs::<i64>(&run, th) + trans_full_pairs::<FF<3>>(&run, false);
    lap(&run, "Trans full pair product");

    // ---- part 1 -------------------------------------------------------------------------------------
    containers::<i64>(&run);
    lap(&run, "containers i64");
    containers::<Ratio<i64>>(&run);
    lap(&run, "containers Ratio<i64>");
    containers::<FF<3>>(&run);
    lap(&run, "containers FF<3>");

    if run.get("cases_with_stored_zero") == 0 {
        run.cap("no operand with an explicitly stored zero could be constructed");
    }
    let states = tz.states + tf.states + tq.states;
    let transitions = tz.transitions + tf.transitions + tq.transitions;
    let coverage = json!({
        "states": states,
        "transitions": transitions,
        "traces_validated_against_impl": transitions + full,
        "trans": {
            "depth_bound": depth,
            "i64": {"states": tz.states, "transitions": tz.transitions, "new_states_per_level": tz.per_level},
            "FF<3>": {"states": tf.states, "transitions": tf.transitions, "new_states_per_level": tf.per_level, "depth_bound": depth_f3, "partner_shifts": [1, 2]},
            "Ratio<i64>": {"states": tq.states, "transitions": tq.transitions, "new_states_per_level": tq.per_level, "depth_bound": if th { 3 } else { 2 }},
            "full_pair_product_executions": full,
            "observation_passes": run.get("trans_observation_passes"),
            "state": "(src dim, tgt dim, F, B, class of the number of stored factors 0/1/>=2); a witness history rebuilds the real Trans",
            "actions": "append(f, phi(f)^T) for all 0/+-1 f of shape k x tgt (k,tgt <= 2); append_perm(all p); sub(all ordered selections of distinct indices); reduce; merge(other)/merged(&other) in both roles with every state reached at level <= 1; initial states id(0..=3)",
            "invariant": "src/tgt dims; forward_mat = F; backward_mat = B; forward(v) = F v and backward(w) = B w for all basis vectors and (1,2,..); is_id() => F = B = I; all of it again after reduce() (thorough: and after a second reduce())",
        },
        "evaluations": run.get("evaluations"),
        "distinct_nontrivial": run.get("cases_nontrivial"),
        "cases": run.get("cases"),
        "cases_with_stored_zero": run.get("cases_with_stored_zero"),
        "rule": "a case = one operand tuple of one operation group (one-operand SpMat/SpVec/Mat sweep, or an ordered pair for + - * concat stack extend_cols mat*vec), operands enumerated completely as cell assignments over {not stored, stored 0, -1, 1, 2} (SpMat/SpVec) or {0,1,-1,2} (Mat) for every shape in the bound; distinct by construction; nontrivial = no zero dimension and every operand non-zero; 'evaluations' = library calls whose result was compared entry by entry with the dense reference",
        "bounds": {
            "shapes": if th { "{0,1,2,3}^2 (vectors up to dimension 4)" } else { "{0,1,2}^2 (vectors up to dimension 3); one-operand SpMat sweep also 3x0,0x3,3x1,1x3 (full alphabet) and 3x2,2x3,3x3 over {., 0, 1}" },
            "pair_alphabet": "total cells <= 10: {., 0, -1, 1, 2}; 11..14: {., 0, 1}; more: {., 1} and {0, -1} (dense: <= 12: {0,1,-1,2}; <= 15: {0,1,-1}; more: {0,1})",
        },
        "timing": timing,
        "exhaustive": true,
    });
    run.finish(
        coverage,
        &[
            "dense reference: vcore::refmat::RMat over BigInt-based vcore::refnum rings",
            "operands with explicitly stored zeros are built with SpVec::from_sorted_entries + SpMat::from_col_vecs (checked: the storage pattern is the requested one)",
            "permutation convention as documented by the library: permute(p,q) sends entry (i,j) to (p(i),q(j)); from_row_perm(p)*a = a.permute_rows(p); a*from_col_perm(q) = a.permute_cols(q)",
            "COO duplicates (from_entries listing a position twice) are not in the domain; sub(indices) is called with distinct indices",
            "Trans BFS merges real transforms with equal (dims, F, B, factor-count class); pairs (f,b) of the history alphabet are (f, phi(f)^T), the full product of pairs is covered for histories of length 1 (thorough, i64: also length 2 except a 2x2 pair after a 2x2 pair)",
            "not compared: PartialEq between differently stored equal matrices, nnz/density/redundancy/mean_weight (storage statistics), Display/serde",
        ],
    );
}
