//! C06 — canonical (Lee) classes and the s-type invariant behave as knot invariants.

use checks::bridge::Bridge;
use checks::khconv::*;
use checks::linkconv::*;
use vcore::reflink::{braid_closure, Diagram};
use vcore::{catch, json, Run};
use yui::poly::Poly;
use yui::{EucRing, EucRingOps, Ratio, FF, FF2};
use yui_homology::{ChainComplexTrait, SummandTrait};
use yui_kh::kh::{ss_invariant, KhChainExt, KhComplex, KhHomology};

fn is_knot(d: &Diagram) -> bool {
    d.components().len() == 1
}

/// canonical cycles: degree 0, cycles, non-torsion classes for h != 0
fn check_canon<R>(run: &Run, ring: &str, name: &str, d: &Diagram, h: &R, hname: &str, h_nonzero: bool, reduced: bool)
where
    R: EucRing,
    for<'x> &'x R: EucRingOps<R>,
{
    use num_traits::Zero;
    let key = format!("canon:{ring}:h={hname}:red={}:{name}:{}", reduced as u8, code_string(d));
    let detail = || json!({"pd": d.pd(), "ring": ring, "h": hname, "reduced": reduced});
    run.add("evaluations", 1);
    let l = to_link(d);
    let r = catch(|| {
        let c = KhComplex::<R>::new(&l, h, &R::zero(), reduced);
        let zs = c.canon_cycles().clone();
        let kh = KhHomology::from(&c);
        let mut out = vec![];
        for z in &zs {
            let hdeg = z.h_deg();
            let dz_zero = c.d(0, z).is_zero();
            let v = kh[0].vectorize_euc(z);
            let rank = kh[0].rank();
            let free_nonzero = v.iter().any(|(i, a)| i < rank && !a.is_zero());
            out.push((z.is_zero(), hdeg, dz_zero, free_nonzero));
        }
        (out, kh[0].rank())
    });
    match r {
        Ok((zs, _rank)) => {
            run.add("canonical_cycles", zs.len() as u64);
            for (k, (zero, hdeg, dz, free)) in zs.iter().enumerate() {
                // (for h = 0 the property only asks for a cycle of degree 0; the zero chain is one)
                if (*zero && h_nonzero) || *hdeg != 0 {
                    run.fail(&key, &format!("canonical cycle {k}: zero={zero} h_deg={hdeg}"), detail());
                } else if !dz {
                    run.fail(&key, &format!("canonical cycle {k} is not a cycle"), detail());
                } else if h_nonzero && !free {
                    run.fail(&key, &format!("canonical class {k} is torsion or zero although h != 0"), detail());
                }
            }
        }
        Err(p) if is_machine_overflow(&p) && ring == "Z" => {
            // i64 overflow (checked arithmetic): outside the domain for i64; Z is decided with BigInt
            OVERFLOW_FALLBACKS.fetch_add(1, std::sync::atomic::Ordering::Relaxed);
            let hb: num_bigint::BigInt = hname.parse().expect("integer h");
            check_canon::<num_bigint::BigInt>(run, "Z(BigInt)", name, d, &hb, hname, h_nonzero, reduced);
        }
        Err(p) => run.fail(&key, &format!("panicked: {p}"), detail()),
    }
}

fn lee_rank(run: &Run, name: &str, d: &Diagram) {
    let l = to_link(d);
    let want = 1usize << d.components().len();
    for (ring, r) in [
        ("Z:(1,0)", catch(|| total_table(&KhHomology::<i64>::new(&l, &1, &0, false))).map(|t| (t.values().map(|m| m.rank).sum::<usize>(), t.values().all(|m| m.tors.is_empty())))),
        ("Q:(0,1)", catch(|| total_table(&KhHomology::<Ratio<i64>>::new(&l, &Ratio::from(0), &Ratio::from(1), false))).map(|t| (t.values().map(|m| m.rank).sum::<usize>(), t.values().all(|m| m.tors.is_empty())))),
    ] {
        run.add("evaluations", 1);
        let key = format!("lee:{ring}:{name}:{}", code_string(d));
        match r {
            Ok((rank, free)) => {
                if rank != want || !free {
                    run.fail(&key, &format!("total rank {rank} (free: {free}), expected free of rank 2^components = {want}"), json!({"pd": d.pd()}));
                }
            }
            Err(p) => run.fail(&key, &format!("panicked: {p}"), json!({"pd": d.pd()})),
        }
    }
}

#[derive(Clone, Copy, PartialEq, Eq, Debug)]
enum C {
    Z2,
    Z3,
    F2H,
    F3H,
    QH,
}

/// number of computations repeated with arbitrary-precision integers because the i64 computation
/// stopped on a machine-integer overflow (the library is built with overflow checks; a result that
/// is not representable in i64 is outside the property's domain, "over Z" is then decided by BigInt)
static OVERFLOW_FALLBACKS: std::sync::atomic::AtomicU64 = std::sync::atomic::AtomicU64::new(0);

fn is_machine_overflow(msg: &str) -> bool {
    msg.contains("with overflow")
}

fn ss(d: &Diagram, c: C, reduced: bool) -> Result<i32, String> {
    ss_link(&to_link(d), c, reduced)
}

fn ss_link(l: &yui_link::Link, c: C, reduced: bool) -> Result<i32, String> {
    use num_bigint::BigInt;
    let l = l.clone();
    let first = catch(|| match c {
        C::Z2 => ss_invariant::<i64>(&l, &2, reduced),
        C::Z3 => ss_invariant::<i64>(&l, &3, reduced),
        C::F2H => ss_invariant::<Poly<'H', FF2>>(&l, &Poly::variable(), reduced),
        C::F3H => ss_invariant::<Poly<'H', FF<3>>>(&l, &Poly::variable(), reduced),
        C::QH => ss_invariant::<Poly<'H', Ratio<i64>>>(&l, &Poly::variable(), reduced),
    });
    match first {
        Err(m) if is_machine_overflow(&m) && matches!(c, C::Z2 | C::Z3 | C::QH) => {
            OVERFLOW_FALLBACKS.fetch_add(1, std::sync::atomic::Ordering::Relaxed);
            catch(|| match c {
                C::Z2 => ss_invariant::<BigInt>(&l, &BigInt::from(2), reduced),
                C::Z3 => ss_invariant::<BigInt>(&l, &BigInt::from(3), reduced),
                _ => ss_invariant::<Poly<'H', Ratio<BigInt>>>(&l, &Poly::variable(), reduced),
            })
        }
        r => r,
    }
}

fn check_ss(run: &Run, name: &str, d: &Diagram, cs: &[C], moves: &[(String, Diagram)]) {
    for &c in cs {
        let key = format!("ss:{c:?}:{name}:{}", code_string(d));
        run.add("evaluations", 2);
        let (u, r) = (ss(d, c, false), ss(d, c, true));
        let s0 = match (&u, &r) {
            (Ok(a), Ok(b)) if a == b => *a,
            (Ok(a), Ok(b)) => {
                run.fail(&key, &format!("unreduced ss = {a} but reduced ss = {b}"), json!({"pd": d.pd()}));
                continue;
            }
            _ => {
                run.fail(&key, &format!("panicked: {:?} {:?}", u.err(), r.err()), json!({"pd": d.pd()}));
                continue;
            }
        };
        // mirror
        run.add("evaluations", 1);
        match ss(&d.mirror(), c, false) {
            Ok(m) if m == -s0 => {}
            Ok(m) => run.fail(&format!("{key}:mirror"), &format!("ss(mirror) = {m}, expected {}", -s0), json!({"pd": d.pd()})),
            Err(p) => run.fail(&format!("{key}:mirror"), &format!("panicked: {p}"), json!({"pd": d.pd()})),
        }
        // other presentations of the same diagram (edge renumbering x listing order of the crossings,
        // labels attached to the edges): the reduced theory takes its base point from the first
        // listed crossing, the value must not depend on it
        if d.n <= 4 {
            for (vn, code) in code_variants(d, d.n >= 3).into_iter().skip(1) {
                run.add("evaluations", 1);
                let l2 = yui_link::Link::from_pd_code(code.clone());
                match ss_link(&l2, c, true) {
                    Ok(s2) if s2 == s0 => {}
                    Ok(s2) => run.fail(&format!("{key}:presentation:{vn}"), &format!("reduced ss changes from {s0} to {s2} when the same diagram is presented differently"), json!({"pd": d.pd(), "variant": code})),
                    Err(p) => run.fail(&format!("{key}:presentation:{vn}"), &format!("reduced ss panicked on another presentation of the diagram: {p}"), json!({"pd": d.pd(), "variant": code})),
                }
            }
        }
        // isotopy moves
        for (mv, d2) in moves {
            run.add("evaluations", 1);
            run.add("move_edges", 1);
            match ss(d2, c, false) {
                Ok(s2) if s2 == s0 => {}
                Ok(s2) => run.fail(&format!("{key}:move:{mv}"), &format!("ss changes from {s0} to {s2} under an isotopy move"), json!({"from": d.pd(), "to": d2.pd(), "move": mv})),
                Err(p) => run.fail(&format!("{key}:move:{mv}"), &format!("panicked: {p}"), json!({"from": d.pd(), "to": d2.pd(), "move": mv})),
            }
        }
        // crossing changes: K+ -> K-
        for x in 0..d.n {
            if d.dir[x] {
                let dm = d.crossing_change(x);
                if !is_knot(&dm) {
                    continue;
                }
                run.add("evaluations", 1);
                run.add("crossing_changes", 1);
                match ss(&dm, c, false) {
                    Ok(sm) => {
                        if !(sm <= s0 && s0 <= sm + 2) {
                            run.fail(&format!("{key}:xchange:{x}"), &format!("ss(K-)={sm}, ss(K+)={s0}: violates ss(K-) <= ss(K+) <= ss(K-)+2"), json!({"k_plus": d.pd(), "k_minus": dm.pd(), "crossing": x}));
                        }
                    }
                    Err(p) => run.fail(&format!("{key}:xchange:{x}"), &format!("panicked: {p}"), json!({"k_plus": d.pd(), "crossing": x})),
                }
            }
        }
    }
}

fn main() {
    let run = Run::new("C06", "exploration");
    let th = run.thorough();
    // ---- all links: Lee homology ------------------------------------------------------------------
    let mut fam = planar_family(if th { 4 } else { 3 });
    fam.extend(braid_family(&if th { vec![(2, 7), (3, 6), (4, 5)] } else { vec![(2, 6), (3, 4), (4, 3)] }));
    run.add("links", fam.len() as u64);
    run.par_for(fam.len(), |i| {
        if run.over_budget_frac(0.35) {
            run.cap("wall budget reached in the Lee-rank part");
            return;
        }
        let (name, d) = &fam[i];
        lee_rank(&run, name, d);
    });
    // ---- knots ------------------------------------------------------------------------------------------
    let mut knots: Vec<(String, Diagram)> = fam.into_iter().filter(|(_, d)| is_knot(d)).collect();
    // the repository's knot table with <= 8 (thorough 10) crossings and the mirrors, each twice
    // (hash-seeded elimination order: a defect that depends on the pivot taken shows in some runs only).
    // Names start with "table": these get the reverse-all move and the full list of c.
    for (name, d) in table_family(if th { 10 } else { 8 }, false) {
        for rep in 0..2 {
            knots.push((format!("{name}#{rep}"), d.clone()));
            knots.push((format!("{name}:mirror#{rep}"), d.mirror()));
        }
    }
    run.add("knots", knots.len() as u64);
    run.par_for(knots.len(), |i| {
        if run.over_budget() {
            run.cap("wall budget reached in the knot part");
            return;
        }
        let (name, d) = &knots[i];
        if i % 100 == 0 {
            run.sample(json!({"knot": name, "pd": d.pd(), "ss_c=2": ss(d, C::Z2, false).ok()}));
        }
        for reduced in [false, true] {
            for h in [0i64, 1, 2, 3] {
                check_canon::<i64>(&run, "Z", name, d, &h, &h.to_string(), h != 0, reduced);
            }
            check_canon::<Poly<'H', Ratio<i64>>>(&run, "Q[H]", name, d, &Poly::variable(), "H", true, reduced);
            check_canon::<Poly<'H', FF2>>(&run, "F2[H]", name, d, &Poly::variable(), "H", true, reduced);
            check_canon::<FF<3>>(&run, "F3", name, d, &FF::<3>::new(1), "1", true, reduced);
        }
        let moves: Vec<(String, Diagram)> = if name.starts_with("planar") {
            let mut m = pd_moves(d, d.n <= 2 || th);
            if d.n <= 2 || th {
                m.extend(pd_r2_moves(d));
            }
            m.extend(pd_r3_moves(d));
            m
        } else {
            vec![("reverse-all".to_string(), d.reverse_all())]
        };
        let cs: &[C] = if d.n <= 3 || th || name.starts_with("table") { &[C::Z2, C::Z3, C::F2H, C::F3H, C::QH] } else { &[C::Z2, C::F2H] };
        check_ss(&run, name, d, cs, &moves);
    });
    // ---- diagrams that still list a smoothed crossing ---------------------------------------------------
    // `Link::resolved_at(c, bit)` keeps the smoothed crossing in the link data; the same diagram without
    // it has the PD code `smoothed_pd`.  For every diagram of the families (knots and links), every
    // crossing and its orientation-preserving smoothing such that the result is a knot: the s-invariants of the two
    // presentations agree (c = 2 over Z and c = H over F2[H], reduced and unreduced) and the
    // presentation with the smoothed crossing has non-zero canonical cycles.
    {
        let mut fam2 = planar_family(if th { 4 } else { 3 });
        fam2.extend(braid_family(&[(2, 5), (3, 3)]));
        let jobs: Vec<(usize, usize, bool)> = fam2.iter().enumerate().flat_map(|(i, (_, d))| (0..d.n).flat_map(move |c| [(i, c, false), (i, c, true)])).collect();
        run.par_for(jobs.len(), |j| {
            if run.over_budget() {
                run.cap("wall budget reached in the smoothed-crossing part");
                return;
            }
            let (i, c, bit) = jobs[j];
            let (name, d) = &fam2[i];
            // only the orientation-preserving smoothing (bit 0 at a positive, bit 1 at a negative crossing):
            // after the other one the remaining PD data are not oriented consistently any more, the
            // signs of the remaining crossings - hence the degree shift - are not defined
            if bit != (d.sign(c) < 0) {
                return;
            }
            let Some(code) = smoothed_pd(d, c, bit) else { return };
            let Some((d2, _)) = Diagram::from_pd(&code) else { return };
            if !is_knot(&d2) {
                return;
            }
            run.add("smoothed_presentations", 1);
            let l1 = to_link(d).resolved_at(c, if bit { yui::bitseq::Bit::Bit1 } else { yui::bitseq::Bit::Bit0 });
            let l2 = yui_link::Link::from_pd_code(code.clone());
            let key = format!("ss:smoothed:{name}:{}:c{c}:b{}", code_string(d), bit as u8);
            for cc in [C::Z2, C::F2H] {
                for reduced in [false, true] {
                    run.add("evaluations", 2);
                    match (ss_link(&l1, cc, reduced), ss_link(&l2, cc, reduced)) {
                        (Ok(a), Ok(b)) if a == b => {}
                        (a, b) => run.fail(&format!("{key}:{cc:?}:red={}", reduced as u8), &format!("ss of the diagram with the smoothed crossing still listed = {a:?}, of the same diagram without it = {b:?}"), json!({"pd": d.pd(), "crossing": c, "bit": bit, "smoothed_pd": code})),
                    }
                }
            }
        });
    }
    // braid-level moves for the s-invariant (R2, R3, Markov)
    let mut words: Vec<(usize, Vec<i32>)> = vec![];
    for &(s, ml) in &(if th { vec![(2usize, 5usize), (3, 5), (4, 4)] } else { vec![(2, 3), (3, 4)] }) {
        for len in 1..=ml {
            for w in braid_words(s, len) {
                if braid_closure(s, &w).map(|d| is_knot(&d)).unwrap_or(false) {
                    words.push((s, w));
                }
            }
        }
    }
    run.par_for(words.len(), |i| {
        if run.over_budget() {
            run.cap("wall budget reached in the braid-move part");
            return;
        }
        let (s, w) = &words[i];
        let d = braid_closure(*s, w).unwrap();
        let name = format!("braid{}:{:?}", s, w).replace(' ', "");
        let moves: Vec<(String, Diagram)> = braid_moves(*s, w, 6).into_iter().map(|(m, s2, w2)| (format!("{m}->{w2:?}").replace(' ', ""), braid_closure(s2, &w2).unwrap())).collect();
        check_ss(&run, &name, &d, &[C::Z2, C::F3H], &moves);
    });
    let coverage = json!({
        "evaluations": run.get("evaluations"),
        "distinct_nontrivial": run.get("links") + run.get("knots"),
        "rule": "all planar diagrams with <= 3 (thorough 4) crossings + braid closures (+ for the knot part every table knot with <= 8 (thorough 10) crossings and its mirror, twice each): Lee homology rank for every link; for every 1-component diagram: canonical cycles (degree 0, cycles, non-torsion for h != 0; h in {0,1,2,3} over Z, h = H over Q[H], F2[H], h = 1 over F3; reduced and unreduced) and the s-type invariant for c in {2,3} over Z and c = H over F2[H], F3[H], Q[H]: reduced = unreduced, mirror negates, invariant along every PD move edge and every braid move (R2, R3, commutation, conjugation, Markov), and ss(K-) <= ss(K+) <= ss(K-)+2 for every positive crossing of every diagram",
        "knots": run.get("knots"),
        "presentations_with_a_smoothed_crossing": run.get("smoothed_presentations"),
        "i64_overflow_fallbacks_to_bigint": OVERFLOW_FALLBACKS.load(std::sync::atomic::Ordering::Relaxed),
        "move_edges": run.get("move_edges"),
        "crossing_changes": run.get("crossing_changes"),
        "exhaustive": true,
    });
    run.finish(coverage, &["internal assert!s of the s-invariant routine ('invalid divisibility', rank mismatch) firing count as violations (caught panics)"]);
    let _ = (<i64 as Bridge>::NAME,);
}
