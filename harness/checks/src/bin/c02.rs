//! C02 — Khovanov homology is a link invariant with the expected mirror duality.
//! State space = diagrams, transitions = isotopy moves (explicit move graph): every move edge
//! from every diagram of the exhaustive families is traversed and the bigraded tables of its two
//! endpoints (computed by the real library) must be isomorphic.  The oracle is relational.

use std::collections::BTreeMap;

use checks::bridge::Bridge;
use checks::khconv::*;
use checks::linkconv::*;
use vcore::reflink::{braid_closure, Diagram, Module};
use vcore::refnum::*;
use vcore::{catch, json, Run};
use yui::{EucRing, EucRingOps, Ratio, FF, FF2};
use yui_kh::kh::KhComplexBigraded;
use yui_link::Link;

type Table<T> = BTreeMap<(i64, i64), Module<T>>;

fn kh<R>(l: &Link, reduced: bool) -> Result<Table<R::Ref>, String>
where
    R: EucRing + Bridge,
    for<'x> &'x R: EucRingOps<R>,
    R::Ref: IsoClass,
{
    use num_traits::Zero;
    catch(|| bigraded_table(&KhComplexBigraded::<R>::new(l, &R::zero(), &R::zero(), reduced).homology()))
}

/// expected table of the mirror image: free (i,j) -> (-i,-j), torsion (i,j) -> (1-i,-j)
fn mirror_table<T: RefEuclid>(t: &Table<T>) -> Table<T> {
    let mut out: Table<T> = BTreeMap::new();
    for (&(i, j), m) in t {
        if m.rank > 0 {
            out.entry((-i, -j)).or_insert(Module { rank: 0, tors: vec![] }).rank += m.rank;
        }
        if !m.tors.is_empty() {
            out.entry((1 - i, -j)).or_insert(Module { rank: 0, tors: vec![] }).tors.extend(m.tors.iter().cloned());
        }
    }
    out
}

struct Ctx<'a> {
    run: &'a Run,
}

impl<'a> Ctx<'a> {
    fn edge<R>(&self, ring: &'static str, from_name: &str, from: &Diagram, mv: &str, to: &Diagram, reduced: bool)
    where
        R: EucRing + Bridge,
        for<'x> &'x R: EucRingOps<R>,
        R::Ref: IsoClass,
    {
        self.run.add("evaluations", 2);
        self.run.add("move_edges", 1);
        let key = format!("khmove:{ring}:red={}:{from_name}:{}:{mv}", reduced as u8, code_string(from));
        let detail = |a: String, b: String| json!({"from": from.pd(), "move": mv, "to": to.pd(), "ring": ring, "reduced": reduced, "kh_from": a, "kh_to": b});
        match (kh::<R>(&to_link(from), reduced), kh::<R>(&to_link(to), reduced)) {
            (Ok(a), Ok(b)) => {
                if let Some(diff) = diff_tables(&b, &a) {
                    self.run.fail(&key, &format!("Kh changes under an isotopy move: {diff}"), detail(show_table(&a), show_table(&b)));
                }
            }
            (a, b) => self.run.fail(&key, &format!("panicked: {:?} / {:?}", a.err(), b.err()), detail("".into(), "".into())),
        }
    }

    fn mirror<R>(&self, ring: &'static str, name: &str, d: &Diagram, reduced: bool)
    where
        R: EucRing + Bridge,
        for<'x> &'x R: EucRingOps<R>,
        R::Ref: IsoClass,
    {
        self.run.add("evaluations", 3);
        self.run.add("mirror_checks", 1);
        let key = format!("khmirror:{ring}:red={}:{name}:{}", reduced as u8, code_string(d));
        let l = to_link(d);
        // the library's own mirror() and the reference's mirrored PD code
        let (a, b, c) = (kh::<R>(&l, reduced), kh::<R>(&l.mirror(), reduced), kh::<R>(&to_link(&d.mirror()), reduced));
        match (a, b, c) {
            (Ok(a), Ok(b), Ok(c)) => {
                let want = mirror_table(&a);
                for (which, got) in [("Link::mirror()", &b), ("mirrored PD code", &c)] {
                    if let Some(diff) = diff_tables(got, &want) {
                        self.run.fail(&key, &format!("mirror duality fails for {which}: {diff}"), json!({"pd": d.pd(), "ring": ring, "reduced": reduced, "kh": show_table(&a), "kh_mirror": show_table(got)}));
                    }
                }
            }
            (a, b, c) => self.run.fail(&key, &format!("panicked: {:?} {:?} {:?}", a.err(), b.err(), c.err()), json!({"pd": d.pd()})),
        }
    }

    fn all_rings_edge(&self, name: &str, from: &Diagram, mv: &str, to: &Diagram, light: bool) {
        let knot = from.components().len() == 1;
        self.edge::<i64>("i64", name, from, mv, to, false);
        if !light {
            self.edge::<Ratio<i64>>("Ratio<i64>", name, from, mv, to, false);
            self.edge::<FF<3>>("FF<3>", name, from, mv, to, false);
        }
        self.edge::<FF2>("FF2", name, from, mv, to, false);
        if knot {
            self.edge::<i64>("i64", name, from, mv, to, true);
            if !light {
                self.edge::<FF2>("FF2", name, from, mv, to, true);
            }
        }
    }
}

fn main() {
    let run = Run::new("C02", "model_checking");
    let th = run.thorough();
    let cx = Ctx { run: &run };
    // ---- (a) PD level ------------------------------------------------------------------------------
    let fam = planar_family(3);
    run.add("diagrams", fam.len() as u64);
    run.par_for(fam.len(), |i| {
        if run.over_budget_frac(0.55) {
            run.cap("wall budget reached in the PD-level move graph");
            return;
        }
        let (name, d) = &fam[i];
        let light = d.n == 3 && !th;
        if i % 200 == 0 {
            let mv = pd_moves(d, true);
            run.sample(json!({"from": d.pd(), "diagram": name, "moves": mv.iter().take(3).map(|(m, d2)| json!({"move": m, "to": d2.pd()})).collect::<Vec<_>>()}));
        }
        let mut moves = pd_moves(d, true);
        if d.n <= 2 || th {
            moves.extend(pd_r2_moves(d));
        }
        moves.extend(pd_r3_moves(d));
        for (mv, d2) in moves {
            cx.all_rings_edge(name, d, &mv, &d2, light || d2.n >= 4);
            if th && d.n <= 2 {
                // depth 2
                for (mv2, d3) in pd_moves(&d2, d.n <= 1) {
                    cx.all_rings_edge(name, d, &format!("{mv};{mv2}"), &d3, true);
                }
            }
        }
        // other presentations of the same diagram: every edge renumbering x every listing order of
        // the crossings (labels stay attached to the edges); reduced too for knots
        {
            let knot = d.components().len() == 1;
            let l1 = to_link(d);
            let base: Vec<(bool, Result<Table<Z>, String>)> = [false, true].iter().filter(|r| !**r || knot).map(|&r| (r, kh::<i64>(&l1, r))).collect();
            let base2 = if knot { Some(kh::<FF2>(&l1, true)) } else { None };
            for (vn, code) in code_variants(d, d.n >= 3 && !th).into_iter().skip(1) {
                let l2 = Link::from_pd_code(code.clone());
                for (red, b) in &base {
                    run.add("evaluations", 1);
                    run.add("move_edges", 1);
                    let key = format!("khmove:i64:red={}:presentation:{vn}:{name}:{}", *red as u8, code_string(d));
                    match (b, kh::<i64>(&l2, *red)) {
                        (Ok(a), Ok(c)) => {
                            if let Some(diff) = diff_tables(&c, a) {
                                run.fail(&key, &format!("Kh changes when the same diagram is presented differently (edge renumbering / crossing order): {diff}"), json!({"pd": d.pd(), "variant": code, "reduced": red}));
                            }
                        }
                        (a, c) => run.fail(&key, &format!("panicked {:?} {:?}", a.as_ref().err(), c.err()), json!({"pd": d.pd(), "variant": code})),
                    }
                }
                if let Some(b2) = &base2 {
                    run.add("evaluations", 1);
                    if let (Ok(a), Ok(c)) = (b2, kh::<FF2>(&l2, true)) {
                        if let Some(diff) = diff_tables(&c, a) {
                            run.fail(&format!("khmove:FF2:red=1:presentation:{vn}:{name}:{}", code_string(d)), &format!("reduced Kh over F2 changes with the presentation: {diff}"), json!({"pd": d.pd(), "variant": code}));
                        }
                    }
                }
            }
        }
        cx.mirror::<i64>("i64", name, d, false);
        cx.mirror::<FF2>("FF2", name, d, false);
        if !light {
            cx.mirror::<Ratio<i64>>("Ratio<i64>", name, d, false);
            cx.mirror::<FF<3>>("FF<3>", name, d, false);
        }
        if d.components().len() == 1 {
            cx.mirror::<i64>("i64", name, d, true);
        }
    });
    // ---- (b) braid level: R2, R3, far commutation, conjugation, Markov stabilisation -------------------
    let spec: Vec<(usize, usize)> = if th { vec![(2, 5), (3, 5), (4, 4)] } else { vec![(2, 4), (3, 4), (4, 3)] };
    let max_len = if th { 7 } else { 6 };
    let mut words: Vec<(usize, Vec<i32>)> = vec![];
    for &(s, ml) in &spec {
        for len in 1..=ml {
            for w in braid_words(s, len) {
                if braid_closure(s, &w).is_some() {
                    words.push((s, w));
                }
            }
        }
    }
    run.add("braid_words", words.len() as u64);
    run.par_for(words.len(), |i| {
        if run.over_budget() {
            run.cap("wall budget reached in the braid-level move graph");
            return;
        }
        let (s, w) = &words[i];
        let d = braid_closure(*s, w).unwrap();
        let name = format!("braid{}:{:?}", s, w).replace(' ', "");
        for (mv, s2, w2) in braid_moves(*s, w, max_len) {
            let d2 = braid_closure(s2, &w2).unwrap();
            let mvname = format!("{mv}->{:?}", w2).replace(' ', "");
            cx.all_rings_edge(&name, &d, &mvname, &d2, true);
            if th && w.len() <= 3 {
                for (mv2, s3, w3) in braid_moves(s2, &w2, max_len) {
                    let d3 = braid_closure(s3, &w3).unwrap();
                    cx.edge::<i64>("i64", &name, &d, &format!("{mvname};{mv2}->{:?}", w3).replace(' ', ""), &d3, false);
                }
            }
        }
        if w.len() <= 4 {
            cx.mirror::<i64>("i64", &name, &d, false);
        }
    });
    eprintln!("[c02] move graphs done at {:.1}s", run.elapsed());
    // ---- (a') presentations that still list a smoothed crossing -----------------------------------------
    // `Link::resolved_at(c, bit)` keeps the smoothed crossing in the link data; `smoothed_pd` is the PD
    // code of the same diagram without it.  The bigraded tables of the two presentations must agree.
    {
        let fam2 = planar_family(3);
        let jobs: Vec<(usize, usize, bool)> = fam2.iter().enumerate().flat_map(|(i, (_, d))| (0..d.n).flat_map(move |c| [(i, c, false), (i, c, true)])).collect();
        run.par_for(jobs.len(), |j| {
            let (i, c, bit) = jobs[j];
            let (name, d) = &fam2[i];
            // only the orientation-preserving smoothing: after the other one the signs of the remaining
            // crossings (hence the normalisation of Kh) are not defined; and only results whose
            // orientation is determined by the code (a knot, or every component passes under somewhere)
            if bit != (d.sign(c) < 0) {
                return;
            }
            let Some(code) = smoothed_pd(d, c, bit) else { return };
            let Some((d2, _)) = Diagram::from_pd(&code) else { return };
            let comps = d2.crossing_components();
            let ncomp = d2.components().len();
            let passes_under: std::collections::BTreeSet<usize> = comps.iter().map(|x| x.0).collect();
            if ncomp > 1 && passes_under.len() < ncomp {
                return;
            }
            run.add("smoothed_presentations", 1);
            run.add("evaluations", 4);
            let l1 = to_link(d).resolved_at(c, if bit { yui::bitseq::Bit::Bit1 } else { yui::bitseq::Bit::Bit0 });
            let l2 = Link::from_pd_code(code.clone());
            let key = format!("khmove:smoothed:{name}:{}:c{c}:b{}", code_string(d), bit as u8);
            match (kh::<i64>(&l1, false), kh::<i64>(&l2, false)) {
                (Ok(a), Ok(b)) => {
                    if let Some(diff) = diff_tables(&a, &b) {
                        run.fail(&key, &format!("Kh of the diagram with the smoothed crossing still listed differs from Kh of the same diagram without it: {diff}"), json!({"pd": d.pd(), "crossing": c, "bit": bit, "smoothed_pd": code}));
                    }
                }
                (a, b) => run.fail(&key, &format!("panicked: {:?} / {:?}", a.err(), b.err()), json!({"pd": d.pd(), "crossing": c, "bit": bit})),
            }
            match (kh::<FF2>(&l1, false), kh::<FF2>(&l2, false)) {
                (Ok(a), Ok(b)) => {
                    if let Some(diff) = diff_tables(&a, &b) {
                        run.fail(&format!("{key}:FF2"), &format!("over F2: {diff}"), json!({"pd": d.pd(), "crossing": c, "bit": bit, "smoothed_pd": code}));
                    }
                }
                (a, b) => run.fail(&format!("{key}:FF2"), &format!("panicked: {:?} / {:?}", a.err(), b.err()), json!({"pd": d.pd()})),
            }
        });
    }
    // ---- (a'') presentations of table knots ---------------------------------------------------------------
    // non-alternating table knots up to 10 crossings (thorough: every table knot up to 10): the code as
    // tabulated, with the crossings listed in reverse and in rotated order, and with shifted edge labels;
    // reduced and unreduced Kh over Z must not depend on the presentation (seed
    // `C02-connect-single-arc-drops-genus` shows on the reduced homology of one 10-crossing table code only)
    {
        let nonalt = |n: &str| -> bool {
            let n = n.trim_start_matches("table:");
            let mut it = n.split('_');
            let (Some(c), Some(k)) = (it.next().and_then(|x| x.parse::<usize>().ok()), it.next().and_then(|x| x.parse::<usize>().ok())) else { return false };
            (c == 8 && k >= 19) || (c == 9 && k >= 42) || (c == 10 && k >= 124)
        };
        let tab: Vec<(String, Diagram)> = table_family(10, false).into_iter().filter(|(n, _)| th || nonalt(n)).collect();
        run.add("table_presentations", tab.len() as u64);
        run.par_for(tab.len(), |i| {
            if run.over_budget() {
                run.cap("wall budget reached in the table presentations");
                return;
            }
            let (name, d) = &tab[i];
            let code = d.pd();
            let n = code.len();
            let variants: Vec<(&str, Vec<[usize; 4]>)> = vec![
                ("reversed-order", code.iter().rev().cloned().collect()),
                ("rotated-order", (0..n).map(|k| code[(k + n / 2) % n]).collect()),
                ("labels+7", code.iter().map(|x| x.map(|e| e + 7)).collect()),
                ("labels-reversed", code.iter().map(|x| x.map(|e| 2 * n + 1 - e)).collect()),
            ];
            let l1 = Link::from_pd_code(code.clone());
            for red in [false, true] {
                let base = kh::<i64>(&l1, red);
                for (vn, v) in &variants {
                    run.add("evaluations", 1);
                    run.add("move_edges", 1);
                    let key = format!("khmove:i64:red={}:table-presentation:{vn}:{name}", red as u8);
                    match (&base, kh::<i64>(&Link::from_pd_code(v.clone()), red)) {
                        (Ok(a), Ok(b)) => {
                            if let Some(diff) = diff_tables(&b, a) {
                                run.fail(&key, &format!("Kh changes when the tabulated diagram is presented differently: {diff}"), json!({"pd": code, "variant": v, "reduced": red}));
                            }
                        }
                        (a, b) => run.fail(&key, &format!("panicked: {:?} / {:?}", a.as_ref().err(), b.err()), json!({"pd": code, "variant": v})),
                    }
                }
            }
        });
    }
    // ---- (c) long histories: one path of up to 61 moves from a small diagram ---------------------------
    // Every kink type in turn on edges spread over the diagram (R1), and for braids cancelling pairs
    // plus Markov stabilisations; the library's tables at the checkpoints (31, 32, 33, 34, 40, 48, 63
    // and 64 crossings - around the 32-bit and 64-bit boundaries of the crossing-state words) must equal
    // the table of the starting diagram.  The move graph above only has paths of length <= 2.
    {
        let bases: Vec<(String, Diagram)> = vec![
            ("trefoil".into(), braid_closure(2, &[1, 1, 1]).unwrap()),
            ("figure8".into(), braid_closure(3, &[1, -2, 1, -2]).unwrap()),
            ("hopf".into(), braid_closure(2, &[1, 1]).unwrap()),
        ];
        let checkpoints: &[usize] = if th { &[16, 31, 32, 33, 34, 40, 48, 56, 63, 64] } else { &[32, 33, 40] };
        let jobs: Vec<(usize, usize)> = (0..bases.len() * 2).flat_map(|bi| checkpoints.iter().map(move |&cp| (bi, cp))).collect();
        run.par_for(jobs.len(), |ji| {
            let (bi, cp) = jobs[ji];
            if !th && (bi == 2 || bi == 3 || bi == 5) {
                return; // quick: trefoil, its mirror and the Hopf link
            }
            let (name, d0) = &bases[bi / 2];
            let mirrored = bi % 2 == 1;
            let d0 = if mirrored { d0.mirror() } else { d0.clone() };
            let name = format!("long:{name}{}", if mirrored { ":mirror" } else { "" });
            // the same deterministic path for every checkpoint of one base
            let mut d = d0.clone();
            let mut step = 0usize;
            while d.n < cp {
                step += 1;
                let outs = d.out_darts();
                let e = (step * 7) % outs.len();
                d = d.r1(outs[e], step % 2 == 0, (step / 2) % 2 == 0);
            }
            run.add("long_history_checkpoints", 1);
            let mv = format!("{}-kinks", d.n - d0.n);
            cx.edge::<i64>("i64", &name, &d0, &mv, &d, false);
            cx.edge::<FF2>("FF2", &name, &d0, &mv, &d, false);
            if d0.components().len() == 1 {
                cx.edge::<i64>("i64", &name, &d0, &mv, &d, true);
            }
            if d.n == 33 || d.n == 64 {
                cx.mirror::<i64>("i64", &format!("{name}:{mv}"), &d, false);
            }
        });
        eprintln!("[c02] long kink histories done at {:.1}s", run.elapsed());
        // braids: sigma sigma^-1 insertions and Markov stabilisations up to 34 (thorough 48) letters
        let target = if th { 48 } else { 34 };
        run.par_for(2, |k| {
            let (mut s, mut w): (usize, Vec<i32>) = if k == 0 { (2, vec![1, 1, 1]) } else { (3, vec![1, -2, 1, -2]) };
            let d0 = braid_closure(s, &w).unwrap();
            let name = format!("long:braid{}:{:?}", s, w).replace(' ', "");
            let mut step = 0usize;
            while w.len() < target {
                step += 1;
                if step % 5 == 0 {
                    // Markov stabilisation
                    w.push(if step % 2 == 0 { s as i32 } else { -(s as i32) });
                    s += 1;
                } else {
                    let g = (1 + step % (s - 1)) as i32;
                    let pos = (step * 3) % (w.len() + 1);
                    let (a, b) = if step % 2 == 0 { (g, -g) } else { (-g, g) };
                    w.insert(pos, b);
                    w.insert(pos, a);
                }
                if [31, 32, 33, 34, 40, 48].contains(&w.len()) || w.len() == target {
                    if let Some(d) = braid_closure(s, &w) {
                        run.add("long_history_checkpoints", 1);
                        cx.edge::<i64>("i64", &name, &d0, &format!("{}-letters", w.len()), &d, false);
                        cx.edge::<FF2>("FF2", &name, &d0, &format!("{}-letters", w.len()), &d, true);
                    }
                }
            }
        });
    }
    eprintln!("[c02] long braid histories done at {:.1}s", run.elapsed());
    let coverage = json!({
        "long_history_checkpoints": run.get("long_history_checkpoints"),
        "presentations_with_a_smoothed_crossing": run.get("smoothed_presentations"),
        "states": run.get("diagrams") + run.get("braid_words"),
        "transitions": run.get("move_edges"),
        "traces_validated_against_impl": run.get("evaluations"),
        "evaluations": run.get("evaluations"),
        "distinct_nontrivial": run.get("move_edges"),
        "rule": "move graph: vertices = all planar diagrams with <= 3 crossings and all braid closures up to the stated word lengths; edges = every single R1 (4 kinks on every edge), every PD-level R2 (parallel and antiparallel, any two edges of a common face; diagrams with <= 2 crossings, thorough <= 3), every PD-level R3 (all triangular faces with linearly ordered heights, all strand orientations), crossing reorder, reversal of all orientations, every presentation (edge renumbering x listing order) (PD level), and every R2 insertion, far commutation, R3 in all valid sign patterns, conjugation and Markov stabilisation (braid level); thorough adds depth-2 paths; each edge compares the library's bigraded tables of both endpoints over i64, Ratio<i64>, FF2, FF<3> (reduced too for knots)",
        "mirror_checks": run.get("mirror_checks"),
        "exhaustive": true,
    });
    run.finish(
        coverage,
        &[
            "the move generators are validated independently: every generated move preserves the reference Kauffman state sum (C04) and the reference cube homology (unit tests of vcore::reflink)",
            "R2 and R3 are exercised both on braid words and at the PD level (R2: any two edges of a common face, parallel and antiparallel; R3: any triangular face with linearly ordered heights)",
        ],
    );
}
