//! C01 part 6 — range-restricted builds (`TngComplexBuilder::set_h_range`).
//!
//! The builder can be told to keep only the vertices that can still end up in a window
//! `h0..=h1` of homological degrees (used by the repository's long-running experiments).  The result
//! is the brutal truncation to the window of a complex homotopy equivalent to the full one, so its
//! homology must agree with the cube in every degree i of the window whose two neighbours are
//! inside the window as well (or outside the degrees `-n_minus..=n_plus` the diagram has at all).
//! Exhaustive over: every diagram of the family x configurations x every window inside
//! `-n_minus-1 ..= n_plus+1` x every moment at which the window is set (before the first crossing or
//! after the first k crossings have been absorbed — a non-initial state of the builder).
//! In every run also `check_d_all()` (d∘d = 0 on what is returned).

use std::collections::BTreeMap;

use checks::khconv::*;
use checks::linkconv::*;
use vcore::reflink::{khovanov, Diagram, Module};
use vcore::refnum::*;
use vcore::{catch, json, Run, Value};
use yui_homology::ChainComplexTrait;
use yui_kh::kh::internal::v2::builder::TngComplexBuilder;
use yui_kh::kh::KhHomology;
use yui_link::{Crossing, Link};

type B = TngComplexBuilder<i64>;

fn base_edge(d: &Diagram) -> usize {
    let e = d.edge_of_dart();
    (0..4).map(|s| e[s]).min().unwrap()
}

struct Case<'a> {
    run: &'a Run,
    name: &'a str,
    d: &'a Diagram,
    link: &'a Link,
    h: i64,
    t: i64,
    reduced: bool,
    reference: &'a BTreeMap<i64, Module<Z>>,
    lo: i64,
    hi: i64,
}

impl<'a> Case<'a> {
    fn one(&self, h0: i64, h1: i64, k: usize) {
        let key = format!("khrange:{}:{}:h={},t={},red={}:window={h0}..={h1}:set_after={k}", self.name, code_string(self.d), self.h, self.t, self.reduced as u8);
        let detail = || json!({"pd": self.d.pd(), "h": self.h, "t": self.t, "reduced": self.reduced, "window": [h0, h1], "set_after_crossings": k});
        self.run.add("hrange_runs", 1);
        let link = self.link;
        let (h, t, reduced) = (self.h, self.t, self.reduced);
        let r = catch(|| {
            let base = if reduced { link.first_edge() } else { None };
            let mut b = B::new(link, &h, &t, base);
            if !(h0 <= 0 && 0 <= h1) {
                // the canonical cycles live in degree 0; outside a window that contains 0 the builder
                // does not drop them (its own TODO), which is not what this part is about
                b.set_elements(vec![]);
            }
            let all: Vec<Crossing> = link.data().clone();
            if k > 0 {
                b.set_crossings(all[..k].to_vec());
                b.process_all();
                b.set_crossings(all[k..].to_vec());
            }
            b.set_h_range(h0 as isize..=h1 as isize);
            b.process_all();
            b.finalize();
            let c = b.into_kh_complex();
            c.check_d_all();
            total_table(&KhHomology::from(&c))
        });
        match r {
            Ok(tab) => {
                let zero = Module { rank: 0, tors: vec![] };
                let mut compared = 0;
                for i in h0..=h1 {
                    let below_ok = i - 1 >= h0 || i - 1 < self.lo;
                    let above_ok = i + 1 <= h1 || i + 1 > self.hi;
                    if !(below_ok && above_ok) {
                        continue;
                    }
                    compared += 1;
                    let (a, b) = (tab.get(&i).unwrap_or(&zero), self.reference.get(&i).unwrap_or(&zero));
                    if a.rank != b.rank || !Z::same_torsion(&a.tors, &b.tors) {
                        self.run.fail(&key, &format!("degree {i} (inside the window, both neighbours available): library {} vs cube {}", show_module(a), show_module(b)), detail());
                        return;
                    }
                }
                self.run.add("hrange_degrees_compared", compared);
                if compared > 0 {
                    self.run.add("hrange_runs_with_a_comparison", 1);
                }
            }
            Err(p) => self.run.fail(&key, &format!("range-restricted build panicked: {p}"), detail()),
        }
    }
}

pub fn hrange_part(run: &Run) -> Value {
    let th = run.thorough();
    let mut fam: Vec<(String, Diagram)> = planar_family(if th { 3 } else { 2 });
    if !th {
        for (k, d) in vcore::reflink::all_planar_diagrams(3).into_iter().enumerate() {
            if k % 13 == 0 {
                fam.push((format!("planar3:{k}"), d));
            }
        }
    }
    // table knots and links (with mirrors): several degrees on both sides of 0
    for (name, d) in table_family(if th { 7 } else { 6 }, true) {
        fam.push((format!("{name}:mirror"), d.mirror()));
        fam.push((name, d));
    }
    let cfgs: Vec<(i64, i64, bool)> = vec![(0, 0, false), (0, 0, true), (1, 0, false), (0, 1, false), (3, 1, false), (2, 0, true)];
    let fam = &fam;
    let cfgs = &cfgs;
    let start = std::time::Instant::now();
    let share = run.budget_s() * 0.12;
    run.par_for(fam.len(), |ix| {
        let (name, d) = &fam[ix];
        if start.elapsed().as_secs_f64() > share {
            run.cap("part 6 (range-restricted builds): wall share used up");
            return;
        }
        let link = to_link(d);
        let n = d.n;
        let (lo, hi) = (-(d.n_neg() as i64), d.n_pos() as i64);
        run.add("hrange_diagrams", 1);
        for &(h, t, reduced) in cfgs.iter() {
            if n >= 6 && !th && !(h == 0 || (h, t) == (3, 1)) {
                continue;
            }
            let reference = khovanov::<Z>(d, &z(h), &z(t), reduced.then_some(base_edge(d))).total;
            let case = Case { run, name, d, link: &link, h, t, reduced, reference: &reference, lo, hi };
            // moments: before the first crossing, after 1, after about half, after all but one
            let mut ks = vec![0usize, 1, n / 2, n.saturating_sub(1)];
            ks.sort();
            ks.dedup();
            ks.retain(|&k| k < n.max(1));
            for h0 in lo - 1..=hi + 1 {
                for h1 in h0..=hi + 1 {
                    for &k in &ks {
                        case.one(h0, h1, k);
                    }
                }
            }
        }
    });
    json!({
        "rule": "TngComplexBuilder::new + set_h_range(h0..=h1) (set before the first crossing or after k absorbed ones) + process_all + finalize + into_kh_complex; every window inside -n_minus-1..=n_plus+1; homology compared with the cube in every window degree whose neighbours are inside the window or outside the diagram's degrees; check_d_all on every result",
        "diagrams": run.get("hrange_diagrams"),
        "runs": run.get("hrange_runs"),
        "runs_with_at_least_one_compared_degree": run.get("hrange_runs_with_a_comparison"),
        "degrees_compared": run.get("hrange_degrees_compared"),
    })
}
