//! C01 part 3 — "… or on how many threads ran": the whole `KhHomology::new` runs under the
//! controlled scheduler; every parallel call inside (edge construction under the shared RwLock
//! of `connect_edges`, Gaussian-elimination maps, matrix assembly, the reducer's pivot search
//! and triangular solves) is scheduled, for every schedule within the preemption bound.

use std::collections::BTreeSet;

use checks::khconv::*;
use checks::linkconv::*;
use checks::sched::{self, Abort, Config};
use vcore::reflink::{all_planar_diagrams, khovanov, Diagram};
use vcore::refnum::*;
use vcore::{json, Run, Value};
use yui_kh::kh::KhHomology;

pub struct SchedOut {
    pub executions: u64,
    pub points: u64,
    pub json: Value,
}

pub fn schedule_part(run: &Run) -> SchedOut {
    let th = run.thorough();
    let mut problems: Vec<(Diagram, String)> = vec![];
    for n in 1..=2 {
        for (k, d) in all_planar_diagrams(n).into_iter().enumerate() {
            problems.push((d, format!("planar{n}:{k}")));
        }
    }
    for (k, d) in all_planar_diagrams(3).into_iter().enumerate() {
        if k % (if th { 16 } else { 131 }) == 0 {
            problems.push((d, format!("planar3:{k}")));
        }
    }
    let cfgs: Vec<(i64, i64, bool)> = vec![(0, 0, false), (0, 0, true), (1, 0, false), (0, 1, false)];
    let totals = std::sync::Mutex::new((0u64, 0u64, 0u64, 0u64, 0u64)); // executions, points, par_calls, problems, bound_cut
    // mode 0: every hand-over (preemption or giving the next task to the other worker at a task end)
    // is a deviation, bound 3 (thorough 4): complete below the bound.  mode 1: only preemptions are
    // bounded, hand-overs at task ends are free (all task-to-worker assignments): capped per problem.
    let mut jobs: Vec<(usize, usize, usize)> = vec![];
    for m in 0..2 {
        for p in 0..problems.len() {
            for c in 0..cfgs.len() {
                jobs.push((p, c, m));
            }
        }
    }
    let exec_cap: u64 = if th { 200_000 } else { 3_000 };
    run.par_for(jobs.len(), |j| {
        if run.over_budget() {
            run.cap("wall budget reached in part 3 (schedules)");
            return;
        }
        let (pi, ci, mode) = jobs[j];
        let (d, name) = &problems[pi];
        let (h, t, reduced) = cfgs[ci];
        let link = to_link(d);
        let be = {
            let e = d.edge_of_dart();
            (0..4).map(|s| e[s]).min().unwrap()
        };
        let reference = khovanov::<Z>(d, &z(h), &z(t), reduced.then_some(be)).total;
        let key = format!("khsched:{name}:{}:h={h},t={t},red={}", code_string(d), reduced as u8);
        let cfg = Config { workers: 2, choose_items: false, max_decisions: 200_000, min_items: 2, count_task_switches: mode == 0 };
        let bound = if mode == 0 { if th { 4 } else { 3 } } else if th && d.n <= 2 { 2 } else { 1 };
        let mut outcomes = BTreeSet::new();
        let mut two_writers = false;
        let mut writer_lines: BTreeSet<u32> = BTreeSet::new();
        let st = sched::explore(
            &cfg,
            Some(bound),
            if mode == 0 { exec_cap * 10 } else { exec_cap },
            || total_table(&KhHomology::<i64>::new(&link, &h, &t, reduced)),
            |r, tr| {
                let detail = || json!({"pd": d.pd(), "h": h, "t": t, "reduced": reduced, "schedule": tr.choices(), "preemptions": tr.preemptions()});
                if !two_writers {
                    // non-vacuity: is one of the shared tables written by two workers in one parallel call?
                    let w: BTreeSet<u8> = tr.labels.iter().filter(|l| l.1 == "rwlock.write").map(|l| l.0).collect();
                    two_writers = w.len() >= 2;
                }
                writer_lines.extend(tr.labels.iter().filter(|l| l.1 == "rwlock.write").map(|l| l.2));
                if tr.diverged.is_some() {
                    // KhHomology::new is not a deterministic function of the schedule (hash-seeded
                    // iteration orders decide which circle is delooped / which edge is eliminated next,
                    // hence how many parallel items there are): the prefix could not be followed to its
                    // end; the execution that happened instead is still judged
                    run.add("sched_prefixes_not_replayable", 1);
                }
                match (&tr.abort, r) {
                    (Some(ab), _) => {
                        run.fail(&key, &format!("aborted under schedule: {ab:?}"), detail());
                        false
                    }
                    (None, Err(_)) => {
                        run.fail(&key, "panicked outside a parallel call", detail());
                        false
                    }
                    (None, Ok(tab)) => {
                        if let Some(diff) = diff_tables(&tab, &reference) {
                            run.fail(&key, &format!("homology under this schedule differs from the cube: {diff}"), detail());
                            return false;
                        }
                        outcomes.insert(show_table(&tab));
                        true
                    }
                }
            },
        );
        if !st.complete && run.nviolations() == 0 {
            run.cap(&format!("part 3 (mode {mode}): execution cap {exec_cap} per problem hit"));
        }
        run.add(&format!("sched_mode{mode}_executions"), st.executions);
        if st.complete {
            run.add(&format!("sched_mode{mode}_problems_complete_below_bound"), 1);
        }
        let mut g = totals.lock().unwrap();
        g.0 += st.executions;
        g.1 += st.points;
        g.2 += st.par_calls;
        g.3 += 1;
        if st.bound_cut {
            g.4 += 1;
        }
        if two_writers {
            run.add("sched_problems_with_two_writers", 1);
        }
        for l in writer_lines {
            run.add(&format!("sched_problems_reaching_write_lock_at_line_{l}"), 1);
        }
    });
    let wide = wide_part(run);
    let noelim = noelim_part(run);
    let g = totals.into_inner().unwrap();
    SchedOut {
        executions: g.0,
        points: g.1,
        json: json!({"problems": g.3, "workers": 2, "mode0": {"rule": "deviations = preemptions + hand-overs at task ends, bound 3 (thorough 4)", "executions": run.get("sched_mode0_executions"), "problems_complete_below_bound": run.get("sched_mode0_problems_complete_below_bound")},
                     "mode1": {"rule": "preemption bound 1 (thorough: 2 for <= 2 crossings), hand-overs at task ends free", "executions": run.get("sched_mode1_executions"), "problems_complete_below_bound": run.get("sched_mode1_problems_complete_below_bound")}, "executions": g.0,
                     "lock_points_passed": g.1, "scheduled_parallel_calls": g.2, "problems_where_bound_cut": g.4, "problems_in_which_two_workers_take_a_write_lock": run.get("sched_problems_with_two_writers"), "execution_cap_per_problem": exec_cap,
                     "prefixes_not_replayable_because_of_hash_order": run.get("sched_prefixes_not_replayable"),
                     "wide_calls": wide,
                     "no_elimination_route": noelim,
                     "note": "KhHomology::new is not a deterministic function of the schedule (hash-seeded orders); a DFS prefix that cannot be followed is abandoned and the execution that happened is judged instead, so the enumeration below the bound is not guaranteed complete"}),
    }
}

/// Wide parallel calls.  With the default policies the tangle complex is simplified after every
/// crossing, so `connect_edges` never sees more than a dozen (left vertex, right vertex) pairs on
/// the small diagrams above; code that only forks above a size threshold (rayon's `with_min_len`,
/// chunking, "parallel only if n > ...") would never fork there.  Here the builder runs with
/// `auto_deloop = auto_elim = false`: after k crossings the complex has 2^k vertices and the next
/// `connect_edges` call has 2^(k+1) pairs (64 for the 6th crossing).  Every hand-over counts as a
/// deviation; all schedules with at most 1 (thorough 2) deviations.
fn wide_part(run: &Run) -> Value {
    use yui_kh::kh::internal::v2::builder::TngComplexBuilder;
    use yui_link::Crossing;
    let th = run.thorough();
    // closures of 3-braids with 8 letters: an alternating word, a torus-like word, mixed ones
    // thorough: 2 deviations on the 6-letter words (<= 20 pairs per call), 1 deviation on the 7- and
    // 8-letter words (35 and 70 pairs per call); an execution costs 10-100 ms there
    let words: Vec<Vec<i32>> = if th {
        vec![vec![1, -2, 1, -2, 1, -2, 1], vec![1, 2, 1, 2, 1, 2, 1], vec![1, 1, -2, 1, -2, -2, 1], vec![1, 2, -1, 2, 1, -2, 1], vec![1, -2, 1, -2, 1, -2, 1, -2], vec![1, -2, 1, -2, 1, -2], vec![1, 2, 1, 2, 1, 2]]
    } else {
        vec![vec![1, -2, 1, -2, 1, -2, 1], vec![1, 2, 1, 2, 1, 2, 1]]
    };
    let out = std::sync::Mutex::new(vec![]);
    run.par_for(words.len(), |wi| {
        let w = &words[wi];
        let bound = if th && w.len() <= 6 { 2 } else { 1 };
        let d = vcore::reflink::braid_closure(3, w).expect("closure");
        let link = to_link(&d);
        let (h, t) = if wi % 2 == 0 { (0i64, 0i64) } else { (1, 0) };
        let reference = khovanov::<Z>(&d, &z(h), &z(t), None).total;
        let key = format!("khsched-wide:{w:?}:h={h},t={t}").replace(' ', "");
        let cfg = Config { workers: 2, choose_items: false, max_decisions: 2_000_000, min_items: 2, count_task_switches: true };
        let mut max_items = 0usize;
        let mut two_writers = false;
        let mut judged_ok: BTreeSet<String> = BTreeSet::new();
        let st = sched::explore(
            &cfg,
            Some(bound),
            if th { 2_000_000 } else { 50_000 },
            || {
                let mut b = TngComplexBuilder::<i64>::new(&link, &h, &t, None);
                b.auto_deloop = false;
                b.auto_elim = false;
                b.set_elements(vec![]);
                b.set_crossings(link.data().iter().cloned().collect::<Vec<Crossing>>());
                b.process_all();
                b
            },
            |r, tr| {
                // only the construction (the wide `connect_edges` calls) runs under the scheduler;
                // delooping the 64-vertex complex and the homology computation follow sequentially
                // (their parallel calls are covered on the small diagrams: > 50 000 tasks here)
                // (and only once per distinct complex: `desc_d` lists every vertex and every edge
                // cobordism, so an execution whose complex prints like one already judged is skipped)
                let r = r.map(|mut b| {
                    let desc = b.complex().desc_d();
                    if judged_ok.contains(&desc) {
                        return Ok(None);
                    }
                    vcore::catch(move || {
                        b.finalize();
                        let c = b.into_kh_complex();
                        Some((desc, total_table(&KhHomology::from(&c))))
                    })
                });
                if run.over_budget() {
                    run.cap("part 3 (wide calls): wall budget reached");
                    return false;
                }
                max_items = max_items.max(tr.max_items);
                if !two_writers {
                    let ws: BTreeSet<u8> = tr.labels.iter().filter(|l| l.1 == "rwlock.write").map(|l| l.0).collect();
                    two_writers = ws.len() >= 2;
                }
                if tr.diverged.is_some() {
                    run.add("sched_prefixes_not_replayable", 1);
                }
                let detail = || json!({"pd": d.pd(), "h": h, "t": t, "schedule": tr.choices(), "deviations": tr.preemptions(), "builder": "auto_deloop = auto_elim = false"});
                match (&tr.abort, r) {
                    (Some(ab), _) => {
                        run.fail(&key, &format!("aborted under schedule: {ab:?}"), detail());
                        false
                    }
                    (None, Err(_)) => {
                        run.fail(&key, "panicked outside a parallel call", detail());
                        false
                    }
                    (None, Ok(Err(p))) => {
                        run.fail(&key, &format!("the complex built under this schedule cannot be finished: {p}"), detail());
                        false
                    }
                    (None, Ok(Ok(None))) => true,
                    (None, Ok(Ok(Some((desc, tab))))) => {
                        if let Some(diff) = diff_tables(&tab, &reference) {
                            run.fail(&key, &format!("homology under this schedule differs from the cube: {diff}"), detail());
                            return false;
                        }
                        judged_ok.insert(desc);
                        true
                    }
                }
            },
        );
        if !st.complete && run.nviolations() == 0 && !run.over_budget() {
            run.cap("part 3 (wide calls): execution cap hit");
        }
        out.lock().unwrap().push(json!({"braid_word": w, "deviation_bound": bound, "h": h, "t": t, "largest_parallel_call": max_items, "executions": st.executions, "complete_below_bound": st.complete,
                                        "two_workers_take_the_write_lock": two_writers, "distinct_complexes_judged": judged_ok.len(), "lock_points_passed": st.points}));
    });
    let v = out.into_inner().unwrap();
    json!({"rule": "TngComplexBuilder with auto_deloop = auto_elim = false on closures of 3-braids with 7 letters (thorough: also 8; 2^k vertices after k crossings); deviations = preemptions + hand-overs at task ends", "deviation_bound": "1 (thorough: 2 on the 6-letter words)", "problems": v})
}

/// The non-default elimination schedule under threads: the builder with `auto_elim = false` hands an
/// un-simplified complex to `KhHomology::from`, whose chain reducer then runs the parallel pivot
/// search on differentials that mix units and non-units (for (h,t) = (3,1), (1,2); with h = t = 0
/// every entry is +-1, and on the default route every unit is eliminated at the tangle level so the
/// pivot search finds nothing).  The construction runs sequentially, the homology computation under
/// the scheduler: every hand-over a deviation, bound 1 (thorough 2); homology = cube.
fn noelim_part(run: &Run) -> Value {
    use yui_kh::kh::internal::v2::builder::TngComplexBuilder;
    use yui_link::Crossing;
    let th = run.thorough();
    let env_names: Option<Vec<String>> = std::env::var("VERIF_C01_NOELIM").ok().map(|s| s.split(',').map(|x| x.to_string()).collect());
    let default_names: &[&str] = if th { &["3_1", "4_1", "5_1", "5_2", "6_1", "6_2", "6_3", "7_4", "7_7"] } else { &["3_1", "4_1", "5_2"] };
    let names: Vec<String> = env_names.unwrap_or_else(|| default_names.iter().map(|s| s.to_string()).collect());
    let params: &[(i64, i64)] = &[(3, 1), (1, 2)];
    let jobs: Vec<(usize, usize)> = (0..names.len()).flat_map(|a| (0..params.len()).map(move |b| (a, b))).collect();
    let out = std::sync::Mutex::new(vec![]);
    run.par_for(jobs.len(), |ji| {
        if run.over_budget() {
            run.cap("part 3 (no-elimination route): wall budget reached");
            return;
        }
        let (ni, pi) = jobs[ji];
        let (h, t) = params[pi];
        let link = yui_link::Link::load(&names[ni]).expect("table knot");
        let Some((d, _)) = Diagram::from_pd(&pd_of(&link)) else { return };
        let reference = khovanov::<Z>(&d, &z(h), &z(t), None).total;
        let key = format!("khsched-noelim:{}:h={h},t={t}", names[ni]);
        let complex = {
            let mut b = TngComplexBuilder::<num_bigint::BigInt>::new(&link, &num_bigint::BigInt::from(h), &num_bigint::BigInt::from(t), None);
            b.auto_elim = false;
            b.set_elements(vec![]);
            b.set_crossings(link.data().iter().cloned().collect::<Vec<Crossing>>());
            b.process_all();
            b.finalize();
            b.into_kh_complex()
        };
        let cfg = Config { workers: 2, choose_items: false, max_decisions: 2_000_000, min_items: 2, count_task_switches: true };
        let mut two_writers = false;
        let t0 = std::time::Instant::now();
        let st = sched::explore(&cfg, Some(if th { 2 } else { 1 }), if th { 500_000 } else { 20_000 }, || total_table(&KhHomology::from(&complex)), |r, tr| {
            if !two_writers {
                let ws: BTreeSet<u8> = tr.labels.iter().filter(|l| l.1 == "rwlock.write").map(|l| l.0).collect();
                two_writers = ws.len() >= 2;
            }
            if tr.diverged.is_some() {
                run.add("sched_prefixes_not_replayable", 1);
            }
            if run.over_budget() {
                run.cap("part 3 (no-elimination route): wall budget reached");
                return false;
            }
            let detail = || json!({"knot": names[ni], "h": h, "t": t, "builder": "auto_elim = false", "schedule": tr.choices(), "deviations": tr.preemptions()});
            match (&tr.abort, r) {
                (Some(ab), _) => {
                    run.fail(&key, &format!("aborted under schedule: {ab:?}"), detail());
                    false
                }
                (None, Err(p)) => {
                    let m = p.downcast_ref::<String>().cloned().or_else(|| p.downcast_ref::<&str>().map(|s| s.to_string())).unwrap_or_default();
                    run.fail(&key, &format!("panicked outside a parallel call: {m}"), detail());
                    false
                }
                (None, Ok(tab)) => {
                    if let Some(diff) = diff_tables(&tab, &reference) {
                        run.fail(&key, &format!("homology under this schedule differs from the cube: {diff}"), detail());
                        return false;
                    }
                    true
                }
            }
        });
        if !st.complete && run.nviolations() == 0 && !run.over_budget() {
            run.cap("part 3 (no-elimination route): execution cap hit");
        }
        out.lock().unwrap().push(json!({"knot": names[ni], "h": h, "t": t, "executions": st.executions, "complete_below_bound": st.complete, "two_workers_write_the_pivot_table": two_writers,
                                        "lock_points_passed": st.points, "seconds": t0.elapsed().as_secs_f64()}));
    });
    json!({"rule": "TngComplexBuilder with auto_elim = false (sequential), then KhHomology::from under the scheduler; deviations = preemptions + hand-overs, bound 1 (thorough 2)", "problems": out.into_inner().unwrap()})
}
