//! C01 — Khovanov homology equals the cube-of-resolutions definition.
//! Part 1 (inputs x configurations) is in `part1.rs`, part 2 (orders) in `orders.rs`, part 3
//! (schedules) in `sched_part.rs`; part 4 re-runs part 1 against the `old` engine (`c01old`);
//! part 5 (cobordism calculus) in `cobcalc.rs`; part 6 (range-restricted builds) in `hrange.rs`.

use vcore::{json, Run};

mod cobcalc;
mod hrange;
mod orders;
mod part1;
mod sched_part;

fn main() {
    let run = Run::new("C01", "model_checking");
    checks::sched::install_hook();
    // ---- part 1: inputs x configurations -------------------------------------------------------
    let part1 = part1::run_part1(&run, 0.35);
    // ---- part 4 (run here so that its budget is not eaten by parts 2/3): part 1 again on the
    // second engine (yui-kh built with the cargo feature `old`: explicit cube) --------------------
    let old = run.run_subpart("c01old", "old-engine", run.budget_s() * 0.2);
    // ---- part 5: the cobordism calculus (stacking) against a topological reference -------------------
    let cc = cobcalc::cobcalc_part(&run);
    // ---- part 6: range-restricted builds (set_h_range) against the cube, window by window -------------
    let hr = hrange::hrange_part(&run);
    // ---- part 2: orders of the Bar-Natan machine (explicit-state) -------------------------------
    let o = orders::orders_part(&run);
    // ---- part 3: thread schedules of connect_edges / eliminate -----------------------------------
    let s = sched_part::schedule_part(&run);
    let coverage = json!({
        "states": o.states + s.points,
        "transitions": o.transitions + s.points,
        "traces_validated_against_impl": o.histories_finished + s.executions,
        "evaluations": part1 + o.transitions + s.executions,
        "distinct_nontrivial": run.get("diagrams"),
        "rule": "part 1: all planar diagrams with <= 3 (thorough 4) crossings + all braid words (2 strands <= 6 letters, 3 <= 4, 4 <= 3; thorough 7/6/5) x rings {i64,i128,BigInt,Ratio<i64>,FF2,FF<3>,FF<5>} x (h,t) grids x reduced/unreduced, compared with the reference cube up to isomorphism; part 2: BFS over all absorb/deloop/eliminate orders of the real TngComplex machine; part 3: all schedules (preemption bounded) of the parallel edge construction",
        "part1_inputs_x_configs": {"diagrams": run.get("diagrams"), "library_evaluations": part1},
        "part2_orders": o.json,
        "part3_schedules": s.json,
        "part5_cobordism_calculus": cc,
        "part6_range_restricted_builds": hr,
        "part4_old_engine": {"evidence": "evidence/parts/C01.old-engine.json", "violations": old["violations"], "wall_s": old["wall_s"], "library_evaluations": old["coverage"]["evaluations"], "diagrams": old["coverage"]["distinct_nontrivial"], "caps_hit": old["coverage"]["caps_hit"]},
        "exhaustive": true,
    });
    run.finish(
        coverage,
        &[
            "reference: vcore::reflink cube of resolutions (own union-find circles, Frobenius algebra X^2 = hX + t, sign (-1)^{#1s before the flipped bit}), homology by vcore::refmat",
            "isomorphism = equal rank and equal multiset of prime-power torsion orders (Z) in every degree",
            "reduced theory: base point = smallest edge label of the first crossing (the library's documented choice), recomputed independently",
            "polynomial parameters h=H, t=T are covered through specialisation in C05",
        ],
    );
}
