//! C01 part 5 — the cobordism calculus ("genus / boundary-count bookkeeping when gluing
//! cobordisms", cob.rs `nbdr_comps`, `stack`, `stack_comps`).
//!
//! A connected dotted cobordism is the tuple (source tangle components, target tangle components,
//! genus, dots).  Universe: tangles over the four boundary points 1,2,3,4 - the two planar
//! matchings {12|34}, {14|23}, each with or without one circle.  For EVERY triple of tangles
//! U, M, V and EVERY pair of cobordisms bot: U -> M, top: M -> V built from all set partitions of
//! the components into connected pieces (endpoint-consistent), with genus 0 everywhere or genus 1 on
//! one piece, and a dot on one piece, the real `Cob::stack` is compared with a reference that knows
//! only topology: pieces glued along a common middle component become one piece, dots add, and the
//! genus follows from the additivity of the Euler characteristic,
//! chi(A u B) = chi(A) + chi(B) - #(arcs glued), with chi = 2 - 2g - #(boundary circles) and the
//! boundary circles counted by the reference itself (a circle component, or a cycle of arcs that
//! share boundary points).  Seed `C05-stack-keeps-genus-when-glued-along-arcs` (a handle created by
//! gluing along two arcs was dropped) showed that no link small enough for the cube reference
//! exercises this bookkeeping in a way that survives to the homology for every pivot order.

use std::collections::{BTreeMap, BTreeSet};

use vcore::{catch, json, Run, Value};
use yui_kh::kh::internal::v2::cob::{Cob, CobComp};
use yui_kh::kh::internal::v2::tng::{Tng, TngComp};

/// a tangle component of the universe: an arc between two boundary points or a circle with a label
#[derive(Clone, Copy, PartialEq, Eq, PartialOrd, Ord, Debug)]
enum C {
    Arc(usize, usize),
    Circ(usize),
}

impl C {
    fn lib(self) -> TngComp {
        match self {
            C::Arc(a, b) => TngComp::arc([a, b]),
            C::Circ(l) => TngComp::circ([l]),
        }
    }
    fn of(c: &TngComp) -> C {
        match c.endpts() {
            Some((a, b)) => C::Arc(a.min(b), a.max(b)),
            None => C::Circ(c.min_edge()),
        }
    }
}

/// a connected piece of the reference
#[derive(Clone, PartialEq, Eq, PartialOrd, Ord, Debug)]
struct Piece {
    src: BTreeSet<C>,
    tgt: BTreeSet<C>,
    genus: usize,
    dots: (usize, usize),
}

/// boundary circles of a surface with the given source / target components: every circle is one;
/// arcs form cycles through their shared boundary points (vertical sides)
fn boundary_circles(src: &BTreeSet<C>, tgt: &BTreeSet<C>) -> Option<usize> {
    let mut n = src.iter().chain(tgt.iter()).filter(|c| matches!(c, C::Circ(_))).count();
    let sa: Vec<(usize, usize)> = src.iter().filter_map(|c| if let C::Arc(a, b) = c { Some((*a, *b)) } else { None }).collect();
    let ta: Vec<(usize, usize)> = tgt.iter().filter_map(|c| if let C::Arc(a, b) = c { Some((*a, *b)) } else { None }).collect();
    // every boundary point must occur exactly once on each side
    let pts = |v: &Vec<(usize, usize)>| -> Option<BTreeSet<usize>> {
        let mut s = BTreeSet::new();
        for &(a, b) in v {
            if !s.insert(a) || !s.insert(b) {
                return None;
            }
        }
        Some(s)
    };
    if pts(&sa)? != pts(&ta)? {
        return None;
    }
    // walk: source arc -> (its second point) -> target arc with that point -> (its other point) -> ...
    let mut seen = vec![false; sa.len()];
    for i0 in 0..sa.len() {
        if seen[i0] {
            continue;
        }
        n += 1;
        let start = sa[i0].0;
        let mut i = i0;
        let mut p = sa[i0].0;
        loop {
            seen[i] = true;
            let q = if sa[i].0 == p { sa[i].1 } else { sa[i].0 }; // leave the source arc at q
            let t = ta.iter().find(|t| t.0 == q || t.1 == q)?;
            let r = if t.0 == q { t.1 } else { t.0 }; // leave the target arc at r
            if r == start {
                break;
            }
            i = sa.iter().position(|s| s.0 == r || s.1 == r)?;
            p = r;
        }
    }
    Some(n)
}

fn chi(p: &Piece) -> Option<i64> {
    Some(2 - 2 * p.genus as i64 - boundary_circles(&p.src, &p.tgt)? as i64)
}

/// all set partitions of 0..n as block indices (restricted growth strings)
fn partitions(n: usize) -> Vec<Vec<usize>> {
    fn rec(n: usize, cur: &mut Vec<usize>, maxb: usize, out: &mut Vec<Vec<usize>>) {
        if cur.len() == n {
            out.push(cur.clone());
            return;
        }
        for b in 0..=maxb {
            cur.push(b);
            rec(n, cur, maxb.max(b + 1), out);
            cur.pop();
        }
    }
    let mut out = vec![];
    rec(n, &mut vec![], 0, &mut out);
    out
}

/// every cobordism U -> V of the universe as a list of pieces
fn cobordisms(u: &[C], v: &[C], with_dot: Option<(usize, usize)>) -> Vec<Vec<Piece>> {
    let n = u.len() + v.len();
    let mut out = vec![];
    for part in partitions(n) {
        let nb = part.iter().max().map(|m| m + 1).unwrap_or(0);
        let mut pieces: Vec<Piece> = (0..nb).map(|_| Piece { src: BTreeSet::new(), tgt: BTreeSet::new(), genus: 0, dots: (0, 0) }).collect();
        for (k, &b) in part.iter().enumerate() {
            if k < u.len() {
                pieces[b].src.insert(u[k]);
            } else {
                pieces[b].tgt.insert(v[k - u.len()]);
            }
        }
        if pieces.iter().any(|p| boundary_circles(&p.src, &p.tgt).is_none()) {
            continue; // a piece whose source and target arcs do not share their boundary points
        }
        // genus 0 everywhere, or genus 1 on one piece; the dot (if any) on the first piece
        for g in 0..=nb {
            let mut ps = pieces.clone();
            if g > 0 {
                ps[g - 1].genus = 1;
            }
            if let (Some(d), Some(p0)) = (with_dot, ps.first_mut()) {
                p0.dots = d;
            }
            out.push(ps);
            if nb == 0 {
                break;
            }
        }
    }
    out
}

fn to_lib(ps: &[Piece]) -> Cob {
    Cob::new(ps.iter().map(|p| CobComp::new(Tng::new(p.src.iter().map(|c| c.lib())), Tng::new(p.tgt.iter().map(|c| c.lib())), p.genus, p.dots)))
}

fn from_lib(c: &Cob) -> Vec<Piece> {
    let mut v: Vec<Piece> = c
        .comps()
        .map(|k| Piece { src: k.src().comps().map(C::of).collect(), tgt: k.tgt().comps().map(C::of).collect(), genus: k.genus(), dots: {
            // dots are not exposed as a pair: ndots() is their total
            (k.ndots(), 0)
        } })
        .collect();
    v.sort();
    v
}

/// the reference composition
fn stack_ref(bot: &[Piece], top: &[Piece]) -> Option<Vec<Piece>> {
    let (nb, nt) = (bot.len(), top.len());
    let mut parent: Vec<usize> = (0..nb + nt).collect();
    fn find(p: &mut Vec<usize>, x: usize) -> usize {
        let mut r = x;
        while p[r] != r {
            r = p[r];
        }
        p[x] = r;
        r
    }
    for (i, b) in bot.iter().enumerate() {
        for (j, t) in top.iter().enumerate() {
            if b.tgt.iter().any(|c| t.src.contains(c)) {
                let (x, y) = (find(&mut parent, i), find(&mut parent, nb + j));
                parent[x] = y;
            }
        }
    }
    let mut groups: BTreeMap<usize, Vec<usize>> = BTreeMap::new();
    for k in 0..nb + nt {
        let r = find(&mut parent, k);
        groups.entry(r).or_default().push(k);
    }
    let mut out = vec![];
    for (_, ks) in groups {
        let mut p = Piece { src: BTreeSet::new(), tgt: BTreeSet::new(), genus: 0, dots: (0, 0) };
        let mut x = 0i64;
        let mut glued_arcs = 0i64;
        for &k in &ks {
            let q = if k < nb { &bot[k] } else { &top[k - nb] };
            x += chi(q)?;
            p.dots.0 += q.dots.0 + q.dots.1;
            if k < nb {
                p.src.extend(q.src.iter().cloned());
                glued_arcs += q.tgt.iter().filter(|c| matches!(c, C::Arc(..))).count() as i64;
            } else {
                p.tgt.extend(q.tgt.iter().cloned());
            }
        }
        let b = boundary_circles(&p.src, &p.tgt)? as i64;
        let twice_g = 2 - b - (x - glued_arcs);
        if twice_g < 0 || twice_g % 2 != 0 {
            return None;
        }
        p.genus = (twice_g / 2) as usize;
        out.push(p);
    }
    out.sort();
    Some(out)
}

/// reference for the horizontal composition of tangles: arcs joined at shared boundary points; a
/// closed chain becomes a circle labelled by its smallest point
fn connect_tangle(comps: &[C]) -> Vec<C> {
    let mut out: Vec<C> = comps.iter().filter(|c| matches!(c, C::Circ(_))).cloned().collect();
    let arcs: Vec<(usize, usize)> = comps.iter().filter_map(|c| if let C::Arc(a, b) = c { Some((*a, *b)) } else { None }).collect();
    let mut used = vec![false; arcs.len()];
    for i0 in 0..arcs.len() {
        if used[i0] {
            continue;
        }
        // the chain through arc i0: extend at both ends
        used[i0] = true;
        let (mut a, mut b) = arcs[i0];
        let mut pts = vec![a, b];
        let mut closed = false;
        loop {
            let mut grown = false;
            for (k, &(x, y)) in arcs.iter().enumerate() {
                if used[k] {
                    continue;
                }
                let (e, other) = if x == b { (b, y) } else if y == b { (b, x) } else if x == a { (a, y) } else if y == a { (a, x) } else { continue };
                used[k] = true;
                grown = true;
                pts.push(other);
                if e == b { b = other } else { a = other }
                if a == b {
                    closed = true;
                }
                break;
            }
            if !grown || closed {
                break;
            }
        }
        if closed {
            out.push(C::Circ(*pts.iter().min().unwrap()));
        } else {
            out.push(C::Arc(a.min(b), a.max(b)));
        }
    }
    out
}

fn points(p: &Piece) -> BTreeSet<usize> {
    p.src.iter().filter_map(|c| if let C::Arc(a, b) = c { Some([*a, *b]) } else { None }).flatten().collect()
}

/// the reference horizontal composition: pieces over two adjacent discs glued along the vertical
/// segments over their shared boundary points
fn connect_ref(c1: &[Piece], c2: &[Piece]) -> Option<Vec<Piece>> {
    let all: Vec<&Piece> = c1.iter().chain(c2.iter()).collect();
    let n = all.len();
    let mut parent: Vec<usize> = (0..n).collect();
    fn find(p: &mut Vec<usize>, x: usize) -> usize {
        let mut r = x;
        while p[r] != r {
            r = p[r];
        }
        p[x] = r;
        r
    }
    for i in 0..c1.len() {
        for j in c1.len()..n {
            if points(all[i]).intersection(&points(all[j])).next().is_some() {
                let (x, y) = (find(&mut parent, i), find(&mut parent, j));
                parent[x] = y;
            }
        }
    }
    let mut groups: BTreeMap<usize, Vec<usize>> = BTreeMap::new();
    for k in 0..n {
        let r = find(&mut parent, k);
        groups.entry(r).or_default().push(k);
    }
    let mut out = vec![];
    for (_, ks) in groups {
        let mut x = 0i64;
        let mut dots = 0usize;
        let (mut src, mut tgt): (Vec<C>, Vec<C>) = (vec![], vec![]);
        let mut shared = 0i64;
        for (a, &k) in ks.iter().enumerate() {
            x += chi(all[k])?;
            dots += all[k].dots.0 + all[k].dots.1;
            src.extend(all[k].src.iter().cloned());
            tgt.extend(all[k].tgt.iter().cloned());
            for &l in &ks[a + 1..] {
                shared += points(all[k]).intersection(&points(all[l])).count() as i64;
            }
        }
        let p0 = Piece { src: connect_tangle(&src).into_iter().collect(), tgt: connect_tangle(&tgt).into_iter().collect(), genus: 0, dots: (dots, 0) };
        let b = boundary_circles(&p0.src, &p0.tgt)? as i64;
        let twice_g = 2 - b - (x - shared);
        if twice_g < 0 || twice_g % 2 != 0 {
            return None;
        }
        out.push(Piece { genus: (twice_g / 2) as usize, ..p0 });
    }
    out.sort();
    Some(out)
}

pub fn cobcalc_part(run: &Run) -> Value {
    let th = run.thorough();
    let arcs: [[C; 2]; 2] = [[C::Arc(1, 2), C::Arc(3, 4)], [C::Arc(1, 4), C::Arc(2, 3)]];
    let tangle = |m: usize, circ: Option<usize>| -> Vec<C> {
        let mut v = arcs[m].to_vec();
        if let Some(l) = circ {
            v.push(C::Circ(l));
        }
        v
    };
    // (matching, circle?) for U, M, V; the circle labels differ per level
    let mut triples: Vec<(Vec<C>, Vec<C>, Vec<C>)> = vec![];
    for mu in 0..2 {
        for cu in [false, true] {
            for mm in 0..2 {
                for cm in [false, true] {
                    for mv in 0..2 {
                        for cv in [false, true] {
                            triples.push((tangle(mu, cu.then_some(10)), tangle(mm, cm.then_some(11)), tangle(mv, cv.then_some(12))));
                        }
                    }
                }
            }
        }
    }
    let stacks = std::sync::atomic::AtomicU64::new(0);
    let genus_created = std::sync::atomic::AtomicU64::new(0);
    let bdr_checked = std::sync::atomic::AtomicU64::new(0);
    run.par_for(triples.len(), |ti| {
        let (u, m, v) = &triples[ti];
        let bots = cobordisms(u, m, if th { Some((1, 0)) } else { None });
        let tops = cobordisms(m, v, None);
        for b in &bots {
            // the boundary count of every piece: library vs reference
            for p in b {
                bdr_checked.fetch_add(1, std::sync::atomic::Ordering::Relaxed);
                let lib = catch(|| CobComp::new(Tng::new(p.src.iter().map(|c| c.lib())), Tng::new(p.tgt.iter().map(|c| c.lib())), p.genus, p.dots).nbdr_comps());
                let want = boundary_circles(&p.src, &p.tgt).unwrap();
                if lib != Ok(want) {
                    run.fail(&format!("cobcalc:nbdr:{p:?}").replace(' ', ""), &format!("nbdr_comps = {lib:?}, the surface has {want} boundary circles"), json!({"piece": format!("{p:?}")}));
                }
            }
            for t in &tops {
                stacks.fetch_add(1, std::sync::atomic::Ordering::Relaxed);
                run.add("evaluations", 1);
                let Some(want) = stack_ref(b, t) else {
                    eprintln!("MACHINERY ERROR: the reference cannot compose {b:?} and {t:?}");
                    std::process::exit(3);
                };
                if want.iter().map(|p| p.genus).sum::<usize>() > b.iter().chain(t.iter()).map(|p| p.genus).sum::<usize>() {
                    genus_created.fetch_add(1, std::sync::atomic::Ordering::Relaxed);
                }
                let key = format!("cobcalc:stack:{b:?}*{t:?}").replace(' ', "");
                let got = catch(|| {
                    let mut c = to_lib(b);
                    c.stack(to_lib(t));
                    from_lib(&c)
                });
                match got {
                    Ok(g) if g == want => {}
                    Ok(g) => run.fail(&key, &format!("Cob::stack gives {g:?}; gluing the surfaces gives {want:?}"), json!({"bot": format!("{b:?}"), "top": format!("{t:?}")})),
                    Err(p) => run.fail(&key, &format!("Cob::stack panicked: {p}"), json!({"bot": format!("{b:?}"), "top": format!("{t:?}")})),
                }
            }
        }
    });
    // ---- horizontal composition (`Cob::connect`) -------------------------------------------------------
    // disc 1 over the points 1,2,3,4, disc 2 over 3,4,5,6 (two shared points) or over 1,2,3,4 (all four
    // shared: everything closes up); every cobordism of the universe on each disc
    let connects = std::sync::atomic::AtomicU64::new(0);
    {
        let d1: [[C; 2]; 2] = [[C::Arc(1, 2), C::Arc(3, 4)], [C::Arc(1, 4), C::Arc(2, 3)]];
        let d2a: [[C; 2]; 2] = [[C::Arc(3, 4), C::Arc(5, 6)], [C::Arc(3, 6), C::Arc(4, 5)]];
        let d2b: [[C; 2]; 2] = [[C::Arc(1, 2), C::Arc(3, 4)], [C::Arc(1, 4), C::Arc(2, 3)]];
        let mut jobs: Vec<(Vec<C>, Vec<C>, Vec<C>, Vec<C>)> = vec![];
        for d2 in [d2a, d2b] {
            for s1 in 0..2 {
                for t1 in 0..2 {
                    for s2 in 0..2 {
                        for t2 in 0..2 {
                            jobs.push((d1[s1].to_vec(), d1[t1].to_vec(), d2[s2].to_vec(), d2[t2].to_vec()));
                        }
                    }
                }
            }
        }
        run.par_for(jobs.len(), |ji| {
            let (s1, t1, s2, t2) = &jobs[ji];
            for a in cobordisms(s1, t1, None) {
                for b in cobordisms(s2, t2, if th { Some((0, 1)) } else { None }) {
                    connects.fetch_add(1, std::sync::atomic::Ordering::Relaxed);
                    run.add("evaluations", 1);
                    let Some(want) = connect_ref(&a, &b) else {
                        eprintln!("MACHINERY ERROR: the reference cannot connect {a:?} and {b:?}");
                        std::process::exit(3);
                    };
                    let key = format!("cobcalc:connect:{a:?}|{b:?}").replace(' ', "");
                    let got = catch(|| {
                        let mut c = to_lib(&a);
                        c.connect(to_lib(&b));
                        from_lib(&c)
                    });
                    match got {
                        Ok(g) if g == want => {}
                        Ok(g) => run.fail(&key, &format!("Cob::connect gives {g:?}; gluing the surfaces gives {want:?}"), json!({"left": format!("{a:?}"), "right": format!("{b:?}")})),
                        Err(p) => run.fail(&key, &format!("Cob::connect panicked: {p}"), json!({"left": format!("{a:?}"), "right": format!("{b:?}")})),
                    }
                }
            }
        });
    }
    // ---- evaluation of closed dotted surfaces against the Frobenius algebra -------------------------
    // A = R[X]/(X^2 - hX - t), counit eps(1) = 0, eps(X) = 1, Y = X - h, handle = X + Y:
    // a closed surface of genus g with x X-dots and y Y-dots evaluates to eps(X^x Y^y (X+Y)^g)
    let mut evals = 0u64;
    let lim = if th { 4 } else { 3 };
    for g in 0..=lim {
        for x in 0..=lim {
            for y in 0..=lim {
                for h in -2i64..=2 {
                    for t in -2i64..=2 {
                        evals += 1;
                        let mul = |(a, b): (i64, i64), (c, d): (i64, i64)| (a * c + b * d * t, a * d + b * c + b * d * h);
                        let mut e = (1i64, 0i64);
                        for _ in 0..x {
                            e = mul(e, (0, 1));
                        }
                        for _ in 0..y {
                            e = mul(e, (-h, 1));
                        }
                        for _ in 0..g {
                            e = mul(e, (-h, 2));
                        }
                        let want = e.1;
                        let got = catch(|| CobComp::new(Tng::empty(), Tng::empty(), g, (x, y)).eval::<i64>(&h, &t));
                        if got != Ok(want) {
                            run.fail(&format!("cobcalc:eval:g{g}:x{x}:y{y}:h{h}:t{t}"), &format!("closed surface of genus {g} with {x} X-dots and {y} Y-dots evaluates to {got:?}; the Frobenius algebra gives {want}"), json!({"g": g, "x": x, "y": y, "h": h, "t": t}));
                        }
                    }
                }
            }
        }
    }
    run.add("evaluations", evals);
    let n = stacks.into_inner();
    {
        run.sample(json!({"part": 5, "example": "bot = saddle {12|34} -> {14|23}, top = saddle back: one piece of genus 0 with two boundary circles; stacked with itself again: genus grows"}));
    }
    json!({"tangle_triples": triples.len(), "stacks_compared": n, "horizontal_compositions_compared": connects.into_inner(), "closed_surface_evaluations": evals, "stacks_that_create_genus": genus_created.into_inner(), "pieces_whose_boundary_count_was_compared": bdr_checked.into_inner(),
           "rule": "all pairs of composable cobordisms over the tangles {12|34}, {14|23} (+ optional circle): every endpoint-consistent set partition into connected pieces, genus 0 or genus 1 on one piece (thorough: a dot on the first piece of the lower cobordism); Cob::stack vs gluing by Euler characteristic; closed dotted surfaces (genus, X-dots, Y-dots <= 3, thorough 4; h, t in -2..=2) vs the Frobenius algebra"})
}
