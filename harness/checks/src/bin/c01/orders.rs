//! C01 part 2 — order independence: explicit-state exploration of the REAL Bar-Natan machine
//! (`TngComplexBuilder` with `auto_deloop = auto_elim = false`) over all orders of
//! absorb-crossing / deloop / eliminate steps.  A state is reached by a history and rebuilt by
//! replay (the builder is not `Clone`); states are deduplicated by a canonical description of
//! the complex.  In every state: `validate()`; in every terminal state: d∘d = 0 and homology =
//! reference cube; from every non-terminal state: finishing with the library's default policy
//! must also give the reference homology.

use std::collections::BTreeMap;

use checks::khconv::*;
use checks::linkconv::*;
use vcore::bfs::bfs;
use vcore::reflink::{all_planar_diagrams, khovanov, Diagram, Module};
use vcore::refnum::*;
use vcore::{catch, json, Run, Value};
use yui_homology::ChainComplexTrait;
use yui_kh::kh::internal::v2::builder::TngComplexBuilder;
use yui_kh::kh::internal::v2::cob::LcCobTrait;
use yui_kh::kh::internal::v2::tng_complex::TngKey;
use yui_kh::kh::KhHomology;
use yui_link::{Crossing, Link};

pub struct OrdersOut {
    pub states: u64,
    pub transitions: u64,
    pub histories_finished: u64,
    pub json: Value,
}

#[derive(Clone, Debug, PartialEq, Eq, Hash, PartialOrd, Ord)]
enum Act {
    Append(usize),
    /// vertex (printed key), smallest edge of the circle
    Deloop(String, usize),
    /// source vertex, target vertex (printed keys)
    Elim(String, String),
}

type B = TngComplexBuilder<i64>;

struct Problem<'a> {
    run: &'a Run,
    name: String,
    d: Diagram,
    link: Link,
    h: i64,
    t: i64,
    reduced: bool,
    reference: BTreeMap<i64, Module<Z>>,
}

fn key_str(k: &TngKey) -> String {
    format!("{:?}|{:?}", k.state, k.label)
}

impl<'a> Problem<'a> {
    fn fresh(&self) -> B {
        let base = if self.reduced { self.link.first_edge() } else { None };
        let mut b = B::new(&self.link, &self.h, &self.t, base);
        b.auto_deloop = false;
        b.auto_elim = false;
        b.set_elements(vec![]);
        b.set_crossings(Vec::<Crossing>::new());
        b
    }

    fn find_key(b: &B, s: &str) -> Option<TngKey> {
        b.complex().keys().find(|k| key_str(k) == s).copied()
    }

    fn apply(&self, b: &mut B, a: &Act) -> Result<(), String> {
        match a {
            Act::Append(c) => {
                b.set_crossings(vec![self.link.data()[*c].clone()]);
                b.process_all();
            }
            Act::Deloop(ks, e) => {
                let k = Self::find_key(b, ks).ok_or("replay: vertex vanished")?;
                let r = b.complex().vertex(&k).tng().find_comp(|c| c.is_circle() && c.min_edge() == *e).ok_or("replay: circle vanished")?;
                b.deloop(&k, r);
            }
            Act::Elim(ks, ls) => {
                let k = Self::find_key(b, ks).ok_or("replay: vertex vanished")?;
                let l = Self::find_key(b, ls).ok_or("replay: vertex vanished")?;
                b.eliminate(&k, &l);
            }
        }
        Ok(())
    }

    fn replay(&self, hist: &[Act]) -> Result<B, String> {
        let mut b = self.fresh();
        for a in hist {
            self.apply(&mut b, a)?;
        }
        Ok(b)
    }

    fn remaining(&self, hist: &[Act]) -> Vec<usize> {
        (0..self.d.n).filter(|c| !hist.contains(&Act::Append(*c))).collect()
    }

    /// enabled actions, restricted by the guards the library's own driver obeys
    fn enabled(&self, b: &B, hist: &[Act]) -> Vec<Act> {
        let mut out = vec![];
        let rem = self.remaining(hist);
        for &c in &rem {
            out.push(Act::Append(c));
        }
        let cx = b.complex();
        let mut unbased_left = false;
        let mut based = vec![];
        let mut keys: Vec<TngKey> = cx.keys().copied().collect();
        keys.sort();
        for k in &keys {
            for c in cx.vertex(k).tng().comps() {
                if c.is_circle() {
                    if cx.contains_base_pt(c) {
                        based.push(Act::Deloop(key_str(k), c.min_edge()));
                    } else {
                        unbased_left = true;
                        out.push(Act::Deloop(key_str(k), c.min_edge()));
                    }
                }
            }
        }
        if rem.is_empty() && !unbased_left {
            out.extend(based);
        }
        for k in &keys {
            let mut ls: Vec<TngKey> = cx.keys_out_from(k).copied().collect();
            ls.sort();
            for l in ls {
                if cx.edge(k, &l).is_invertible() {
                    out.push(Act::Elim(key_str(k), key_str(&l)));
                }
            }
        }
        out
    }

    fn canon(&self, b: &B, hist: &[Act]) -> String {
        format!("rem={:?}\n{}", self.remaining(hist), b.complex().desc_d())
    }

    fn fail(&self, hist: &[Act], what: String) {
        self.run.fail(
            &format!("khorder:{}:{}:h={},t={},red={}:{:?}", self.name, code_string(&self.d), self.h, self.t, self.reduced as u8, hist).replace(' ', ""),
            &what,
            json!({"pd": self.d.pd(), "h": self.h, "t": self.t, "reduced": self.reduced, "history": format!("{hist:?}")}),
        );
    }

    fn judge_complex(&self, hist: &[Act], b: B, how: &str) {
        self.run.add("order_histories_finished", 1);
        let r = catch(|| {
            let c = b.into_kh_complex();
            c.check_d_all();
            total_table(&KhHomology::from(&c))
        });
        match r {
            Ok(tab) => {
                if let Some(diff) = diff_tables(&tab, &self.reference) {
                    self.fail(hist, format!("[{how}] homology differs from the cube: {diff}"));
                }
            }
            Err(p) => self.fail(hist, format!("[{how}] panicked: {p}")),
        }
    }

    /// successors of a state given by its history; also checks the state itself
    fn succ(&self, hist: &Vec<Act>) -> Vec<(String, Vec<Act>)> {
        let b = match catch(|| self.replay(hist)) {
            Ok(Ok(b)) => b,
            Ok(Err(e)) => {
                // a replay of a history that was valid when discovered must stay valid
                eprintln!("MACHINERY ERROR: {e} while replaying {hist:?}");
                std::process::exit(3);
            }
            Err(p) => {
                self.fail(hist, format!("step panicked: {p}"));
                return vec![];
            }
        };
        if let Err(p) = catch(|| b.complex().validate()) {
            self.fail(hist, format!("validate() failed: {p}"));
            return vec![];
        }
        let acts = self.enabled(&b, hist);
        let terminal = self.remaining(hist).is_empty() && b.complex().is_completely_delooped();
        if terminal {
            self.judge_complex(hist, b, "terminal state");
        } else {
            // differential oracle from a non-initial state: let the default policy finish
            let rem: Vec<Crossing> = self.remaining(hist).iter().map(|&c| self.link.data()[c].clone()).collect();
            let mut b2 = b;
            let fin = catch(move || {
                b2.auto_deloop = true;
                b2.auto_elim = true;
                b2.set_crossings(rem);
                b2.process_all();
                b2.finalize();
                b2
            });
            match fin {
                Ok(b2) => self.judge_complex(hist, b2, "default policy from this state"),
                Err(p) => self.fail(hist, format!("default policy from this state panicked: {p}")),
            }
        }
        let mut out = vec![];
        for a in acts {
            let mut h2 = hist.clone();
            h2.push(a);
            match catch(|| self.replay(&h2).map(|b| self.canon(&b, &h2))) {
                Ok(Ok(c)) => out.push((c, h2)),
                Ok(Err(e)) => {
                    eprintln!("MACHINERY ERROR: {e} while replaying {h2:?}");
                    std::process::exit(3);
                }
                Err(p) => self.fail(&h2, format!("step panicked: {p}")),
            }
        }
        out
    }
}

/// state wrapper: equality and hash on the canonical description only
#[derive(Clone)]
struct St {
    canon: String,
    hist: Vec<Act>,
}
impl PartialEq for St {
    fn eq(&self, o: &Self) -> bool {
        self.canon == o.canon
    }
}
impl Eq for St {}
impl std::hash::Hash for St {
    fn hash<H: std::hash::Hasher>(&self, h: &mut H) {
        self.canon.hash(h)
    }
}

pub fn orders_part(run: &Run) -> OrdersOut {
    let th = run.thorough();
    let mut problems: Vec<(Diagram, String)> = vec![];
    for n in 1..=2 {
        for (k, d) in all_planar_diagrams(n).into_iter().enumerate() {
            problems.push((d, format!("planar{n}:{k}")));
        }
    }
    if th {
        for (k, d) in all_planar_diagrams(3).into_iter().enumerate() {
            if k % 8 == 0 {
                problems.push((d, format!("planar3:{k}")));
            }
        }
    } else {
        // a fixed handful of 3-crossing diagrams (trefoil-like, with kink, split, 2-component)
        for (k, d) in all_planar_diagrams(3).into_iter().enumerate() {
            if k % 97 == 0 {
                problems.push((d, format!("planar3:{k}")));
            }
        }
    }
    let cfgs: Vec<(i64, i64, bool)> = vec![(0, 0, false), (0, 0, true), (1, 0, false), (0, 1, false), (2, 0, true)];
    let mut states = 0u64;
    let mut transitions = 0u64;
    let mut capped = 0u64;
    let mut per_problem = vec![];
    let state_cap: u64 = if th { 60_000 } else { 4_000 };
    for (d, name) in &problems {
        for &(h, t, reduced) in &cfgs {
            if d.n == 3 && !(h == 0 && t == 0) && !th {
                continue;
            }
            if run.over_budget_frac(0.75) {
                run.cap("wall budget reached in part 2 (orders)");
                break;
            }
            let link = to_link(d);
            let be = {
                let e = d.edge_of_dart();
                (0..4).map(|s| e[s]).min().unwrap()
            };
            let reference = khovanov::<Z>(d, &z(h), &z(t), reduced.then_some(be)).total;
            let p = Problem { run, name: name.clone(), d: d.clone(), link, h, t, reduced, reference };
            let init = St { canon: "init".into(), hist: vec![] };
            let (st, _) = bfs(run, vec![init], usize::MAX, state_cap, |s: &St, _| p.succ(&s.hist).into_iter().map(|(c, h)| St { canon: c, hist: h }).collect());
            states += st.states;
            transitions += st.transitions;
            if !st.exhausted {
                capped += 1;
            }
            if per_problem.len() < 6 {
                per_problem.push(json!({"diagram": name, "pd": d.pd(), "h": h, "t": t, "reduced": reduced, "states": st.states, "transitions": st.transitions, "max_depth": st.max_depth, "exhausted": st.exhausted}));
            }
        }
    }
    if capped > 0 {
        run.cap(&format!("part 2: state cap {state_cap} hit on {capped} (diagram, configuration) problems"));
    }
    OrdersOut {
        states,
        transitions,
        histories_finished: run.get("order_histories_finished"),
        json: json!({"problems": problems.len(), "configs": cfgs.len(), "states": states, "transitions": transitions,
                     "finished_and_compared": run.get("order_histories_finished"), "state_cap": state_cap, "problems_capped": capped, "samples": per_problem}),
    }
}
