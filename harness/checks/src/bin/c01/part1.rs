//! C01 part 1 (inputs x configurations): every diagram of the exhaustive planar family and of the
//! braid family x rings x (h,t) x reduced/unreduced against the reference cube.  Shared by the
//! checker of the default engine (`c01`) and of the explicit-cube engine (`c01old`, cargo feature
//! `old` of yui-kh): only the public API `KhHomology::new` / `KhComplexBigraded::new` is used.

use std::collections::BTreeMap;

use checks::bridge::Bridge;
use checks::khconv::*;
use checks::linkconv::*;
use num_bigint::BigInt;
use vcore::reflink::{khovanov, Diagram, KhTable, Module};
use vcore::refnum::*;
use vcore::{catch, json, Run};
use yui::{EucRing, EucRingOps, Ratio, FF, FF2};
use yui_kh::kh::{KhComplexBigraded, KhHomology};
use yui_link::Link;

#[derive(Clone, Copy, Debug)]
struct Cfg {
    h: i64,
    t: i64,
    reduced: bool,
}

fn base_edge(d: &Diagram) -> usize {
    let e = d.edge_of_dart();
    (0..4).map(|s| e[s]).min().unwrap()
}

fn compare_with<R>(run: &Run, ring: &'static str, name: &str, d: &Diagram, link: &Link, cfg: Cfg, reference: &KhTable<R::Ref>)
where
    R: EucRing + Bridge,
    for<'x> &'x R: EucRingOps<R>,
    R::Ref: IsoClass,
{
    let key = format!("kh:{ring}:{name}:{}:h={},t={},red={}", code_string(d), cfg.h, cfg.t, cfg.reduced as u8);
    let detail = |lib: String, rf: String| json!({"pd": pd_of(link), "ring": ring, "h": cfg.h, "t": cfg.t, "reduced": cfg.reduced, "library": lib, "reference": rf});
    let (h, t) = (R::from_ref(&R::Ref::from_i64(cfg.h)), R::from_ref(&R::Ref::from_i64(cfg.t)));
    run.add("evaluations", 1);
    match catch(|| total_table(&KhHomology::<R>::new(link, &h, &t, cfg.reduced))) {
        Ok(tab) => {
            if let Some(diff) = diff_tables(&tab, &reference.total) {
                run.fail(&key, &format!("total homology differs from the cube: {diff}"), detail(show_table(&tab), show_table(&reference.total)));
            }
        }
        Err(p) => run.fail(&key, &format!("KhHomology::new panicked: {p}"), detail("".into(), show_table(&reference.total))),
    }
    if let Some(refbig) = &reference.bigraded {
        run.add("evaluations", 1);
        match catch(|| bigraded_table(&KhComplexBigraded::<R>::new(link, &h, &t, cfg.reduced).homology())) {
            Ok(tab) => {
                if let Some(diff) = diff_tables(&tab, refbig) {
                    run.fail(&format!("{key}:bigraded"), &format!("bigraded homology differs from the cube: {diff}"), detail(show_table(&tab), show_table(refbig)));
                }
            }
            Err(p) => run.fail(&format!("{key}:bigraded"), &format!("KhComplexBigraded panicked: {p}"), detail("".into(), show_table(refbig))),
        }
    }
}

fn configs(vals: &[i64], with_reduced: bool) -> Vec<Cfg> {
    let mut v = vec![];
    for &h in vals {
        for &t in vals {
            v.push(Cfg { h, t, reduced: false });
        }
        if with_reduced {
            v.push(Cfg { h, t: 0, reduced: true });
        }
    }
    v
}

fn check_diagram(run: &Run, name: &str, d: &Diagram, level: u8) {
    let link = to_link(d);
    let be = base_edge(d);
    // ---- Z ------------------------------------------------------------------------------------
    let zcfg = match level {
        2 => configs(&[0, 1, 2, -1, 3], true),
        1 => configs(&[0, 1, 2], true),
        _ => vec![Cfg { h: 0, t: 0, reduced: false }, Cfg { h: 0, t: 0, reduced: true }, Cfg { h: 1, t: 0, reduced: false }, Cfg { h: 0, t: 1, reduced: false }, Cfg { h: 2, t: 0, reduced: true }],
    };
    let mut ztab: BTreeMap<(i64, i64, bool), KhTable<Z>> = BTreeMap::new();
    for c in &zcfg {
        let r = khovanov::<Z>(d, &z(c.h), &z(c.t), c.reduced.then_some(be));
        compare_with::<i64>(run, "i64", name, d, &link, *c, &r);
        if c.h == 0 && c.t == 0 || level == 2 && c.h == 1 {
            compare_with::<BigInt>(run, "BigInt", name, d, &link, *c, &r);
            compare_with::<i128>(run, "i128", name, d, &link, *c, &r);
        }
        ztab.insert((c.h, c.t, c.reduced), r);
    }
    // ---- Q: the cube over Q is the cube over Z tensor Q, so the reference is the free part -------
    let free = |t: &KhTable<Z>| -> KhTable<Q> {
        fn f<K: Ord + Clone>(m: &BTreeMap<K, Module<Z>>) -> BTreeMap<K, Module<Q>> {
            m.iter().filter(|(_, v)| v.rank > 0).map(|(k, v)| (k.clone(), Module { rank: v.rank, tors: vec![] })).collect()
        }
        KhTable { total: f(&t.total), bigraded: t.bigraded.as_ref().map(f) }
    };
    for (k, t) in &ztab {
        let c = Cfg { h: k.0, t: k.1, reduced: k.2 };
        if level == 0 && !(c.t == 1 || (c.h == 0 && c.t == 0 && !c.reduced)) {
            continue;
        }
        compare_with::<Ratio<i64>>(run, "Ratio<i64>", name, d, &link, c, &free(t));
    }
    // ---- F2, F3 -------------------------------------------------------------------------------
    let f2cfg = if level >= 1 { configs(&[0, 1], true) } else { vec![Cfg { h: 0, t: 0, reduced: false }, Cfg { h: 0, t: 0, reduced: true }] };
    for c in &f2cfg {
        let r = khovanov::<Fp<2>>(d, &Fp::new(c.h), &Fp::new(c.t), c.reduced.then_some(be));
        compare_with::<FF2>(run, "FF2", name, d, &link, *c, &r);
    }
    // F5: a field with units other than +-1 (Gaussian elimination on a pivot u with u^-1 != u)
    let f5cfg = if level >= 2 { configs(&[0, 1, 2], true) } else if level == 1 { configs(&[0, 1], true) } else { vec![Cfg { h: 0, t: 0, reduced: false }, Cfg { h: 1, t: 1, reduced: false }] };
    for c in &f5cfg {
        let r = khovanov::<Fp<5>>(d, &Fp::new(c.h), &Fp::new(c.t), c.reduced.then_some(be));
        compare_with::<FF<5>>(run, "FF<5>", name, d, &link, *c, &r);
    }
    let f3cfg = if level >= 2 { configs(&[0, 1, 2], true) } else if level == 1 { configs(&[0, 1], true) } else { vec![Cfg { h: 0, t: 0, reduced: false }] };
    for c in &f3cfg {
        let r = khovanov::<Fp<3>>(d, &Fp::new(c.h), &Fp::new(c.t), c.reduced.then_some(be));
        compare_with::<FF<3>>(run, "FF<3>", name, d, &link, *c, &r);
    }
}

/// every presentation (edge relabeling x crossing listing order) of the diagram: reduced and
/// unreduced homology at h = t = 0 and reduced Lee-type (h = 1) must still equal the cube, whose
/// base point is recomputed from the code (smallest label of the first listed crossing)
fn check_presentations(run: &Run, name: &str, d: &Diagram) {
    for (vn, code) in code_variants(d, d.n >= 4).into_iter().skip(1) {
        let Some((d2, base)) = parse_with_base(&code) else {
            eprintln!("MACHINERY ERROR: variant {vn} of {name} does not parse");
            std::process::exit(3);
        };
        let link = Link::from_pd_code(code.clone());
        let vname = format!("{name}:{vn}");
        for c in [Cfg { h: 0, t: 0, reduced: true }, Cfg { h: 0, t: 0, reduced: false }, Cfg { h: 1, t: 0, reduced: true }] {
            let r = khovanov::<Z>(&d2, &z(c.h), &z(c.t), c.reduced.then_some(base));
            compare_with::<i64>(run, "i64", &vname, &d2, &link, c, &r);
            if c.reduced && c.h == 0 {
                let r2 = khovanov::<Fp<2>>(&d2, &Fp::new(0), &Fp::new(0), Some(base));
                compare_with::<FF2>(run, "FF2", &vname, &d2, &link, c, &r2);
            }
        }
        run.add("presentations", 1);
    }
}

fn corner_cases(run: &Run) {
    // the empty link and the crossingless unknot (no reference diagram: expected values by hand)
    let one = |rank: usize| Module::<Z> { rank, tors: vec![] };
    let cases: Vec<(&str, Link, bool, BTreeMap<(i64, i64), Module<Z>>)> = vec![
        ("empty", Link::empty(), false, [((0, 0), one(1))].into_iter().collect()),
        ("unknot", Link::unknot(), false, [((0, -1), one(1)), ((0, 1), one(1))].into_iter().collect()),
        ("unknot-reduced", Link::unknot(), true, [((0, 0), one(1))].into_iter().collect()),
    ];
    for (name, l, red, want) in cases {
        run.add("evaluations", 1);
        let key = format!("kh:corner:{name}");
        match catch(|| bigraded_table(&KhComplexBigraded::<i64>::new(&l, &0, &0, red).homology())) {
            Ok(t) => {
                if let Some(d) = diff_tables(&t, &want) {
                    run.fail(&key, &d, json!({"case": name}));
                }
            }
            Err(p) => run.fail(&key, &format!("panicked: {p}"), json!({"case": name})),
        }
        for (h, t) in [(1i64, 0i64), (0, 1), (2, 0)] {
            if red && t != 0 {
                continue;
            }
            run.add("evaluations", 1);
            let total: usize = want.values().map(|m| m.rank).sum();
            match catch(|| total_table(&KhHomology::<i64>::new(&l, &h, &t, red))) {
                Ok(tab) => {
                    let ok = tab.len() == 1 && tab.get(&0).map(|m| m.rank == total && m.tors.is_empty()).unwrap_or(false);
                    if !ok {
                        run.fail(&format!("{key}:h={h},t={t}"), &format!("expected free of rank {total} in degree 0, got {}", show_table(&tab)), json!({"case": name}));
                    }
                }
                Err(p) => run.fail(&format!("{key}:h={h},t={t}"), &format!("panicked: {p}"), json!({"case": name})),
            }
        }
    }
}

/// corner cases + the whole family; returns the number of library evaluations
pub fn run_part1(run: &Run, frac: f64) -> u64 {
    let th = run.thorough();
    corner_cases(run);
    let mut fam: Vec<(String, Diagram, u8)> = vec![];
    for (n, d) in planar_family(if th { 4 } else { 3 }) {
        let lvl = if d.n <= 2 { 2 } else if d.n == 3 { if th { 2 } else { 1 } } else { 0 };
        fam.push((n, d, lvl));
    }
    let braid_spec: Vec<(usize, usize)> = if th { vec![(2, 7), (3, 6), (4, 5)] } else { vec![(2, 6), (3, 4), (4, 3)] };
    for (n, d) in braid_family(&braid_spec) {
        let lvl = if th && d.n <= 4 { 1 } else { 0 };
        fam.push((n, d, lvl));
    }
    // the repository's table (knots and links) with <= 6 (thorough 8) crossings, and the mirrors
    for (n, d) in table_family(if th { 8 } else { 6 }, true) {
        fam.push((format!("{n}:mirror"), d.mirror(), 0));
        fam.push((n, d, 0));
    }
    run.add("diagrams", fam.len() as u64);
    run.par_for(fam.len(), |i| {
        if run.over_budget_frac(frac) {
            run.cap("wall budget reached in part 1 (inputs x configurations)");
            return;
        }
        let (name, d, lvl) = &fam[i];
        if i % 400 == 0 {
            run.sample(json!({"part": 1, "diagram": name, "pd": d.pd(), "config_level": lvl}));
        }
        check_diagram(run, name, d, *lvl);
        if d.n <= 3 || *lvl >= 1 {
            check_presentations(run, name, d);
        }
    });
    run.get("evaluations")
}
