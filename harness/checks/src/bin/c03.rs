//! C03 — tables over Z, Q, F2, F3 are mutually consistent (universal coefficients); the two
//! library routes to a bigraded table agree; over F2 unreduced = reduced (x) unknot.
//! Link level: exhaustive diagram families.  Seam level (hook H5): ALL small two-term bigraded
//! complexes are pushed through the real `into_bigraded` code of both routes.

use std::collections::BTreeMap;

use checks::bridge::Bridge;
use checks::khconv::*;
use checks::linkconv::*;
use num_bigint::BigInt;
use vcore::refmat::RMat;
use vcore::reflink::{Diagram, Module};
use vcore::refnum::*;
use vcore::{catch, json, Run};
use yui::bitseq::BitSeq;
use yui::lc::Lc;
use yui::{EucRing, EucRingOps, Ratio, FF, FF2};
use yui_homology::{ChainComplex, Grid, Summand};
use yui_kh::kh::{KhAlgGen, KhComplex, KhComplexBigraded, KhGen, KhHomology, KhHomologyBigraded, KhLabel};
use yui_link::Link;

type Table<T> = BTreeMap<(i64, i64), Module<T>>;

fn route_a<R>(l: &Link, reduced: bool) -> Result<Table<R::Ref>, String>
where
    R: EucRing + Bridge,
    for<'x> &'x R: EucRingOps<R>,
    R::Ref: IsoClass,
{
    use num_traits::Zero;
    catch(|| bigraded_table(&KhHomologyBigraded::<R>::new(l, &R::zero(), &R::zero(), reduced)))
}

fn route_b<R>(l: &Link, reduced: bool) -> Result<Table<R::Ref>, String>
where
    R: EucRing + Bridge,
    for<'x> &'x R: EucRingOps<R>,
    R::Ref: IsoClass,
{
    use num_traits::Zero;
    catch(|| bigraded_table(&KhComplexBigraded::<R>::new(l, &R::zero(), &R::zero(), reduced).homology()))
}

fn divisible_count(tors: &[Z], p: i64) -> usize {
    tors.iter().filter(|t| (*t % z(p)).is_zero()).count()
}

fn check_link(run: &Run, name: &str, d: &Diagram, full: bool) {
    let l = to_link(d);
    let key = format!("khuct:{name}:{}", code_string(d));
    for reduced in [false, true] {
        let rk = format!("{key}:red={}", reduced as u8);
        let detail = || json!({"pd": d.pd(), "reduced": reduced});
        run.add("evaluations", 8);
        let (za, zb) = (route_a::<i64>(&l, reduced), route_b::<i64>(&l, reduced));
        let (qa, qb) = (route_a::<Ratio<i64>>(&l, reduced), route_b::<Ratio<i64>>(&l, reduced));
        let (f2a, f2b) = (route_a::<FF2>(&l, reduced), route_b::<FF2>(&l, reduced));
        let (f3a, f3b) = (route_a::<FF<3>>(&l, reduced), route_b::<FF<3>>(&l, reduced));
        let (Ok(za), Ok(zb), Ok(qa), Ok(qb), Ok(f2a), Ok(f2b), Ok(f3a), Ok(f3b)) = (za, zb, qa, qb, f2a, f2b, f3a, f3b) else {
            run.fail(&rk, "a Kh computation panicked", detail());
            continue;
        };
        // the two routes, ring by ring
        if let Some(df) = diff_tables(&za, &zb) {
            run.fail(&format!("{rk}:routes:Z"), &format!("table from total homology vs homology of bigraded pieces: {df}"), detail());
        }
        if let Some(df) = diff_tables(&qa, &qb) {
            run.fail(&format!("{rk}:routes:Q"), &format!("routes differ over Q: {df}"), detail());
        }
        if let Some(df) = diff_tables(&f2a, &f2b) {
            run.fail(&format!("{rk}:routes:F2"), &format!("routes differ over F2: {df}"), detail());
        }
        if let Some(df) = diff_tables(&f3a, &f3b) {
            run.fail(&format!("{rk}:routes:F3"), &format!("routes differ over F3: {df}"), detail());
        }
        if full {
            run.add("evaluations", 4);
            for (nm, r) in [("i128", route_a::<i128>(&l, reduced).map(|t| diff_tables(&t, &zb))), ("BigInt", route_a::<BigInt>(&l, reduced).map(|t| diff_tables(&t, &zb))),
                            ("i128/B", route_b::<i128>(&l, reduced).map(|t| diff_tables(&t, &zb))), ("BigInt/B", route_b::<BigInt>(&l, reduced).map(|t| diff_tables(&t, &zb)))] {
                match r {
                    Ok(None) => {}
                    Ok(Some(df)) => run.fail(&format!("{rk}:inttype:{nm}"), &format!("{nm} table differs from the i64 table: {df}"), detail()),
                    Err(p) => run.fail(&format!("{rk}:inttype:{nm}"), &format!("panicked: {p}"), detail()),
                }
            }
        }
        // universal coefficients (on route B, the homology of the bigraded complex)
        let cells: std::collections::BTreeSet<(i64, i64)> = zb.keys().chain(qb.keys()).chain(f2b.keys()).chain(f3b.keys()).cloned().collect();
        let zero = Module::<Z> { rank: 0, tors: vec![] };
        for &(i, j) in &cells {
            let zc = zb.get(&(i, j)).unwrap_or(&zero);
            let zn = zb.get(&(i + 1, j)).unwrap_or(&zero);
            let qr = qb.get(&(i, j)).map(|m| m.rank).unwrap_or(0);
            if qr != zc.rank {
                run.fail(&format!("{rk}:uct:Q:({i},{j})"), &format!("rank over Q {qr} != free rank over Z {}", zc.rank), detail());
            }
            for (p, tab) in [(2i64, f2b.get(&(i, j)).map(|m| m.rank).unwrap_or(0)), (3, f3b.get(&(i, j)).map(|m| m.rank).unwrap_or(0))] {
                let want = zc.rank + divisible_count(&zc.tors, p) + divisible_count(&zn.tors, p);
                if tab != want {
                    run.fail(&format!("{rk}:uct:F{p}:({i},{j})"), &format!("dim over F{p} = {tab}, universal coefficients give {want}"), detail());
                }
            }
        }
        // over F2: unreduced = reduced (x) unknot  (needs the reduced and the unreduced table)
        if reduced {
            if let Ok(unred) = route_b::<FF2>(&l, false) {
                let cells: std::collections::BTreeSet<(i64, i64)> = unred.keys().cloned().chain(f2b.keys().flat_map(|&(i, j)| [(i, j - 1), (i, j + 1)])).collect();
                for (i, j) in cells {
                    let u = unred.get(&(i, j)).map(|m| m.rank).unwrap_or(0);
                    let r = f2b.get(&(i, j - 1)).map(|m| m.rank).unwrap_or(0) + f2b.get(&(i, j + 1)).map(|m| m.rank).unwrap_or(0);
                    if u != r {
                        run.fail(&format!("{rk}:F2:tensor:({i},{j})"), &format!("unreduced dim {u} != red(i,j-1)+red(i,j+1) = {r}"), detail());
                    }
                }
            }
        }
    }
}

// ---- seam level ---------------------------------------------------------------------------------

/// generator of C^0 (k-th, q = +1 or -1) / C^1 (k-th, same q), see DESIGN §5/C03
fn gen0(k: usize, qplus: bool) -> KhGen {
    let label = KhLabel::from(if qplus { KhAlgGen::I } else { KhAlgGen::X });
    KhGen::new(BitSeq::zeros(k + 1), label, (0, 0))
}
fn gen1(k: usize, qplus: bool) -> KhGen {
    let mut s = BitSeq::zeros(k + 1);
    s.set_1(0);
    let label = if qplus { KhLabel::from([KhAlgGen::I, KhAlgGen::X]) } else { KhLabel::from([KhAlgGen::X, KhAlgGen::X]) };
    KhGen::new(s, label, (0, 0))
}

/// one q-block: matrix (rows = C^1 gens, cols = C^0 gens)
#[derive(Clone)]
struct Block {
    qplus: bool,
    m: RMat<Z>,
}

fn seam_case(run: &Run, blocks: &[Block], code: &str) {
    run.add("seam_complexes", 1);
    let key = format!("khseam:{code}");
    // generators and the differential as a map
    let mut g0: Vec<KhGen> = vec![];
    let mut g1: Vec<KhGen> = vec![];
    let mut dmap: BTreeMap<KhGen, Vec<(KhGen, i64)>> = BTreeMap::new();
    for b in blocks {
        let (o0, o1) = (g0.len(), g1.len());
        for j in 0..b.m.n {
            g0.push(gen0(o0 + j, b.qplus));
        }
        for i in 0..b.m.m {
            g1.push(gen1(o1 + i, b.qplus));
        }
        for j in 0..b.m.n {
            let mut v = vec![];
            for i in 0..b.m.m {
                let a = i64::from_ref(b.m.at(i, j));
                if a != 0 {
                    v.push((g1[o1 + i], a));
                }
            }
            dmap.insert(g0[o0 + j], v);
        }
    }
    // self-check of the construction: q preserved, h raised by one
    for (x, ys) in &dmap {
        for (y, _) in ys {
            assert_eq!(x.q_deg(), y.q_deg());
            assert_eq!(x.h_deg() + 1, y.h_deg());
        }
    }
    // the same complex over Q (cross-ring clause: rank over Q = free rank over Z, bidegree by bidegree)
    let (g0q, g1q, dmq) = (g0.clone(), g1.clone(), dmap.clone());
    let build_q = move || -> KhComplex<Ratio<i64>> {
        let summands = Grid::generate(0..=1isize, |i| if i == 0 { Summand::from_raw_gens(g0q.clone()) } else { Summand::from_raw_gens(g1q.clone()) });
        let dm = dmq.clone();
        let inner = ChainComplex::<KhGen, Ratio<i64>>::new(summands, 1, move |_i, z: &Lc<KhGen, Ratio<i64>>| {
            let mut out = Lc::<KhGen, Ratio<i64>>::new();
            for (x, a) in z.iter() {
                if let Some(ys) = dm.get(x) {
                    for (y, b) in ys {
                        out.add_pair((*y, a * Ratio::from(*b)));
                    }
                }
            }
            out
        });
        KhComplex::verif_from_parts(inner, (Ratio::from(0), Ratio::from(0)), (0, 0), false)
    };
    let (g0c, g1c) = (g0.clone(), g1.clone());
    let build = move || -> KhComplex<i64> {
        let summands = Grid::generate(0..=1isize, |i| if i == 0 { Summand::from_raw_gens(g0c.clone()) } else { Summand::from_raw_gens(g1c.clone()) });
        let dm = dmap.clone();
        let inner = ChainComplex::<KhGen, i64>::new(summands, 1, move |_i, z: &Lc<KhGen, i64>| {
            let mut out = Lc::<KhGen, i64>::new();
            for (x, a) in z.iter() {
                if let Some(ys) = dm.get(x) {
                    for (y, b) in ys {
                        out.add_pair((*y, a * b));
                    }
                }
            }
            out
        });
        KhComplex::verif_from_parts(inner, (0, 0), (0, 0), false)
    };
    // reference per bidegree
    let mut want: Table<Z> = BTreeMap::new();
    for b in blocks {
        let q = if b.qplus { 1 } else { -1 };
        let f = b.m.invariant_factors_by_elimination();
        let h0 = Module { rank: b.m.n - f.len(), tors: vec![] };
        let h1 = Module { rank: b.m.m - f.len(), tors: f.into_iter().filter(|x| !x.is_unit()).collect() };
        for (i, m) in [(0, h0), (1, h1)] {
            if !m.is_zero() {
                let e = want.entry((i, q)).or_insert(Module { rank: 0, tors: vec![] });
                e.rank += m.rank;
                e.tors.extend(m.tors);
            }
        }
    }
    // route A is known to be wrong on a fixed, deterministic set of these inputs (DESIGN §10.2); the
    // exact keys are listed in /verif/known/C03_seam_routeA.txt, so that any OTHER input on which
    // route A fails is still reported
    let key_a = format!("{key}:routeA");
    let detail = |a: String| json!({"blocks": blocks.iter().map(|b| json!({"q": if b.qplus {1} else {-1}, "d": b.m.show()})).collect::<Vec<_>>(), "expected": show_table(&want), "library": a});
    run.add("evaluations", 2);
    let b2 = build.clone();
    match catch(move || bigraded_table(&KhHomology::from(&build()).into_bigraded())) {
        Ok(t) => {
            if let Some(df) = diff_tables(&t, &want) {
                run.fail(&key_a, &format!("bigraded table from total homology: {df}"), detail(show_table(&t)));
            }
        }
        Err(p) => run.fail(&format!("{key}:routeA"), &format!("panicked: {p}"), detail("".into())),
    }
    match catch(move || bigraded_table(&b2().into_bigraded().homology())) {
        Ok(t) => {
            if let Some(df) = diff_tables(&t, &want) {
                run.fail(&format!("{key}:routeB"), &format!("homology of the bigraded pieces: {df}"), detail(show_table(&t)));
            }
        }
        Err(p) => run.fail(&format!("{key}:routeB"), &format!("panicked: {p}"), detail("".into())),
    }
    run.add("evaluations", 1);
    match catch(move || bigraded_table(&build_q().into_bigraded().homology())) {
        Ok(t) => {
            let cells: std::collections::BTreeSet<(i64, i64)> = t.keys().chain(want.keys()).cloned().collect();
            for c in cells {
                let (rq, tq) = t.get(&c).map(|m| (m.rank, m.tors.len())).unwrap_or((0, 0));
                let rz = want.get(&c).map(|m| m.rank).unwrap_or(0);
                if rq != rz || tq != 0 {
                    run.fail(&format!("{key}:Q"), &format!("bidegree {c:?}: rank over Q = {rq} (torsion entries: {tq}), free rank over Z = {rz}"), detail(show_table(&t)));
                    break;
                }
            }
        }
        Err(p) => run.fail(&format!("{key}:Q"), &format!("panicked: {p}"), detail("".into())),
    }
}

fn seam_part(run: &Run) {
    let al: Vec<Z> = [0, 1, 2, 3, 4, 6].map(z).to_vec();
    let th = run.thorough();
    // all pairs of blocks (q=+1 block, q=-1 block) of shapes a x b with a + a' <= 3, b + b' <= 3 (<= 2 quick for the second)
    let mut shapes: Vec<(usize, usize)> = vec![(0, 0), (1, 1), (1, 2), (2, 1), (2, 2)];
    if th {
        shapes.extend([(1, 3), (3, 1), (2, 3), (3, 2)]);
    }
    let mut blocks_by_shape: BTreeMap<(usize, usize), Vec<(RMat<Z>, String)>> = BTreeMap::new();
    for &(m, n) in &shapes {
        let v: Vec<(RMat<Z>, String)> = if m * n == 0 { vec![(RMat::zero(m, n), "-".into())] } else { checks::matconv::all_matrices(m, n, &al).collect() };
        blocks_by_shape.insert((m, n), v);
    }
    let mut cases: Vec<(Block, Block, String)> = vec![];
    for &(m1, n1) in &shapes {
        for &(m2, n2) in &shapes {
            if m1 + m2 > 3 || n1 + n2 > 3 || (m1, n1) < (m2, n2) && (m1 * n1 > 0) && false {
                continue;
            }
            // to bound the product: the second block is diagonal-or-small
            for (a, ca) in &blocks_by_shape[&(m1, n1)] {
                for (b, cb) in &blocks_by_shape[&(m2, n2)] {
                    if m2 * n2 > 1 && !th && m1 * n1 > 1 {
                        continue;
                    }
                    cases.push((Block { qplus: true, m: a.clone() }, Block { qplus: false, m: b.clone() }, format!("{m1}x{n1}:{ca}|{m2}x{n2}:{cb}")));
                }
            }
        }
    }
    // one 3x3 block without unit entries (seed `C03-ratio-mul-keeps-common-factor`: over Q a product of two
    // non-integral rationals only appears in the third elimination step, after two non-unit pivots were inverted;
    // the rank over Q goes wrong on rank-deficient matrices): all 3x3 matrices over {2,3,6} (thorough {2,3,4,6})
    {
        let al3: Vec<Z> = if th { [2, 3, 4, 6].map(z).to_vec() } else { [2, 3, 6].map(z).to_vec() };
        for (a, ca) in checks::matconv::all_matrices(3, 3, &al3) {
            cases.push((Block { qplus: true, m: a }, Block { qplus: false, m: RMat::zero(0, 0) }, format!("3x3:{ca}|0x0:-")));
        }
    }
    run.par_for(cases.len(), |i| {
        if run.over_budget() {
            run.cap("wall budget reached in the seam part");
            return;
        }
        let (a, b, code) = &cases[i];
        if i % 5000 == 17 {
            run.sample(json!({"level": "seam", "code": code, "d_q=+1": a.m.show(), "d_q=-1": b.m.show()}));
        }
        seam_case(run, &[a.clone(), b.clone()], code);
    });
}

fn main() {
    let run = Run::new("C03", "exploration");
    let th = run.thorough();
    let mut fam = planar_family(if th { 4 } else { 3 });
    let spec: Vec<(usize, usize)> = if th { vec![(2, 7), (3, 6), (4, 5)] } else { vec![(2, 6), (3, 4), (4, 3)] };
    fam.extend(braid_family(&spec));
    // the repository's table: every knot and link with <= 8 (thorough 10) crossings and its mirror,
    // each twice (the library's elimination order is hash-seeded: a defect that depends on which
    // pivot is taken shows in some runs only)
    let table = table_family(if th { 10 } else { 8 }, true);
    run.add("table_entries", table.len() as u64);
    for (name, d) in table {
        for rep in 0..2 {
            fam.push((format!("{name}#{rep}"), d.clone()));
            fam.push((format!("{name}:mirror#{rep}"), d.mirror()));
        }
    }
    run.add("diagrams", fam.len() as u64);
    run.par_for(fam.len(), |i| {
        if run.over_budget_frac(0.6) {
            run.cap("wall budget reached in the link-level part");
            return;
        }
        let (name, d) = &fam[i];
        if i % 300 == 0 {
            run.sample(json!({"level": "link", "diagram": name, "pd": d.pd()}));
        }
        check_link(&run, name, d, d.n <= 3);
    });
    seam_part(&run);
    if th {
        named_instances(&run);
    }
    let coverage = json!({
        "evaluations": run.get("evaluations"),
        "distinct_nontrivial": run.get("diagrams") + run.get("seam_complexes"),
        "rule": "link level: all planar diagrams with <= 3 (thorough 4) crossings + braid closures + every table knot/link with <= 8 (thorough 10) crossings and its mirror (twice each) x {i64,i128,BigInt,Ratio<i64>,FF2,FF<3>} x two routes x reduced/unreduced; seam level: all two-term bigraded complexes C^0 -> C^1 made of two q-blocks with <= 3 generators per side in total and entries from {0,1,2,3,4,6}, plus every single 3x3 block over {2,3,6} (thorough {2,3,4,6}), pushed through the real into_bigraded code of both routes (hook H5) and compared with the per-bidegree Smith invariants",
        "diagrams": run.get("diagrams"),
        "seam_complexes": run.get("seam_complexes"),
        "exhaustive": true,
    });
    run.finish(
        coverage,
        &[
            "isomorphism of tables = equal ranks and equal multisets of prime-power torsion orders per bidegree",
            "hook H5 (cfg yui_verif) only wraps the crate-private constructor; the synthetic generators are genuine KhGen values whose (h,q) degrees are computed by the library's own formulas",
        ],
    );
}

/// thorough only: the named 35-crossing instance where the phenomenon was first seen
fn named_instances(run: &Run) {
    use yui_link::Braid;
    // T(6,7) = closure of (s1 s2 s3 s4 s5)^7
    let word: Vec<i32> = (0..7).flat_map(|_| [1, 2, 3, 4, 5]).collect();
    let l = Braid::new(6, word.iter().map(|&g| g.into()).collect()).closure();
    run.add("evaluations", 2);
    match (route_a::<i64>(&l, true), route_b::<i64>(&l, true)) {
        (Ok(a), Ok(b)) => {
            if let Some(df) = diff_tables(&a, &b) {
                run.fail("kh:Z:reduced:T(6,7)", &format!("routes differ on reduced Kh(T(6,7)): {df}"), json!({"braid": word}));
            }
        }
        (a, b) => run.fail("kh:Z:reduced:T(6,7)", &format!("panicked: {:?} {:?}", a.err(), b.err()), json!({})),
    }
}
