pub mod bridge;
pub mod sched;
