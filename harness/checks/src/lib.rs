pub mod bridge;
pub mod khconv;
pub mod linkconv;
pub mod matconv;
pub mod sched;
