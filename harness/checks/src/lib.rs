pub mod bridge;
pub mod matconv;
pub mod sched;
