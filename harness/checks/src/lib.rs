pub mod bridge;
