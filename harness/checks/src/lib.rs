pub mod bridge;
pub mod c12sched;
pub mod khconv;
pub mod linkconv;
pub mod matconv;
pub mod sched;
