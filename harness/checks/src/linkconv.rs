//! Shared input families for the link-level checks (C01-C06, C18, C19): conversion of reference
//! diagrams to the library's `Link`, relabelings, braid word enumeration.

use vcore::reflink::{all_planar_diagrams, braid_closure, Diagram};
use yui_link::Link;

pub fn to_link_with(d: &Diagram, label: &dyn Fn(usize) -> usize) -> Link {
    Link::from_pd_code(d.pd_with(label))
}

pub fn to_link(d: &Diagram) -> Link {
    Link::from_pd_code(d.pd())
}

/// PD code of a library link that has no resolved crossing
pub fn pd_of(l: &Link) -> Vec<[usize; 4]> {
    l.data().iter().map(|x| *x.edges()).collect()
}

/// label functions: (name, f) with f(edge id 0..2n) injective
pub fn relabelings(n_edges: usize) -> Vec<(&'static str, Box<dyn Fn(usize) -> usize + Sync + Send>)> {
    let m = n_edges;
    vec![
        ("one-based", Box::new(|k| k + 1)),
        ("zero-based", Box::new(|k| k)),
        ("reversed", Box::new(move |k| m - k)),
        ("gaps", Box::new(|k| 10 * k + 5)),
        ("large", Box::new(|k| 1_000_000 + 7 * k)),
        ("shuffled", {
            // k -> (5k + 3) mod p + 1 with p a prime > max(m, 5): injective on 0..m
            let p = (m.max(5) + 1..).find(|&x| (2..x).all(|d| x % d != 0)).unwrap();
            Box::new(move |k| (5 * k + 3) % p + 1)
        }),
    ]
}

/// all reduced-free braid words of the given length on `strands` strands (letters ±1..±(s-1))
pub fn braid_words(strands: usize, len: usize) -> Vec<Vec<i32>> {
    let letters: Vec<i32> = (1..strands as i32).flat_map(|i| [i, -i]).collect();
    let mut out: Vec<Vec<i32>> = vec![vec![]];
    for _ in 0..len {
        out = out.into_iter().flat_map(|w| letters.iter().map(move |&g| [w.clone(), vec![g]].concat())).collect();
    }
    out
}

/// (name, diagram) for all braid words up to the given lengths whose closure has no free loop
pub fn braid_family(max_len_by_strands: &[(usize, usize)]) -> Vec<(String, Diagram)> {
    let mut out = vec![];
    for &(s, maxlen) in max_len_by_strands {
        for len in 1..=maxlen {
            for w in braid_words(s, len) {
                if let Some(d) = braid_closure(s, &w) {
                    out.push((format!("braid{}:{:?}", s, w).replace(' ', ""), d));
                }
            }
        }
    }
    out
}

/// (name, diagram) for all planar diagrams with 1..=n crossings
pub fn planar_family(nmax: usize) -> Vec<(String, Diagram)> {
    let mut out = vec![];
    for n in 1..=nmax {
        for (k, d) in all_planar_diagrams(n).into_iter().enumerate() {
            out.push((format!("planar{}:{}", n, k), d));
        }
    }
    out
}

/// stable textual id of a diagram (its PD code)
pub fn code_string(d: &Diagram) -> String {
    format!("{:?}", d.pd()).replace(' ', "")
}
