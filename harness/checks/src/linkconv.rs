//! Shared input families for the link-level checks (C01-C06, C18, C19): conversion of reference
//! diagrams to the library's `Link`, relabelings, braid word enumeration.

use vcore::reflink::{all_planar_diagrams, braid_closure, Diagram};
use yui_link::Link;

pub fn to_link_with(d: &Diagram, label: &dyn Fn(usize) -> usize) -> Link {
    Link::from_pd_code(d.pd_with(label))
}

pub fn to_link(d: &Diagram) -> Link {
    Link::from_pd_code(d.pd())
}

/// PD code of a library link that has no resolved crossing
pub fn pd_of(l: &Link) -> Vec<[usize; 4]> {
    l.data().iter().map(|x| *x.edges()).collect()
}

/// label functions: (name, f) with f(edge id 0..2n) injective
pub fn relabelings(n_edges: usize) -> Vec<(&'static str, Box<dyn Fn(usize) -> usize + Sync + Send>)> {
    let m = n_edges;
    vec![
        ("one-based", Box::new(|k| k + 1)),
        ("zero-based", Box::new(|k| k)),
        ("reversed", Box::new(move |k| m - k)),
        ("gaps", Box::new(|k| 10 * k + 5)),
        ("large", Box::new(|k| 1_000_000 + 7 * k)),
        ("shuffled", {
            // k -> (5k + 3) mod p + 1 with p a prime > max(m, 5): injective on 0..m
            let p = (m.max(5) + 1..).find(|&x| (2..x).all(|d| x % d != 0)).unwrap();
            Box::new(move |k| (5 * k + 3) % p + 1)
        }),
    ]
}

/// all reduced-free braid words of the given length on `strands` strands (letters ±1..±(s-1))
pub fn braid_words(strands: usize, len: usize) -> Vec<Vec<i32>> {
    let letters: Vec<i32> = (1..strands as i32).flat_map(|i| [i, -i]).collect();
    let mut out: Vec<Vec<i32>> = vec![vec![]];
    for _ in 0..len {
        out = out.into_iter().flat_map(|w| letters.iter().map(move |&g| [w.clone(), vec![g]].concat())).collect();
    }
    out
}

/// (name, diagram) for all braid words up to the given lengths whose closure has no free loop
pub fn braid_family(max_len_by_strands: &[(usize, usize)]) -> Vec<(String, Diagram)> {
    let mut out = vec![];
    for &(s, maxlen) in max_len_by_strands {
        for len in 1..=maxlen {
            for w in braid_words(s, len) {
                if let Some(d) = braid_closure(s, &w) {
                    out.push((format!("braid{}:{:?}", s, w).replace(' ', ""), d));
                }
            }
        }
    }
    out
}

/// (name, diagram) for all planar diagrams with 1..=n crossings
pub fn planar_family(nmax: usize) -> Vec<(String, Diagram)> {
    let mut out = vec![];
    for n in 1..=nmax {
        for (k, d) in all_planar_diagrams(n).into_iter().enumerate() {
            out.push((format!("planar{}:{}", n, k), d));
        }
    }
    out
}

/// The repository's knot/link table (yui-link/resources/links, read through `Link::load`): every
/// prime knot `c_k` with c <= max_crossings and, if `links`, every table link `L{c}a{k}` / `L{c}n{k}`
/// with c <= max_crossings, as reference diagrams rebuilt from the PD code.  Used where the oracle
/// is relational (no reference cube needed) or the cube is still affordable.
pub fn table_family(max_crossings: usize, links: bool) -> Vec<(String, Diagram)> {
    let mut out = vec![];
    let mut push = |name: String| -> bool {
        match Link::load(&name) {
            Ok(l) => {
                if let Some((d, _)) = Diagram::from_pd(&pd_of(&l)) {
                    out.push((format!("table:{name}"), d));
                }
                true
            }
            Err(_) => false,
        }
    };
    for c in 2..=max_crossings {
        let mut k = 1;
        while push(format!("{c}_{k}")) {
            k += 1;
        }
        if links {
            for kind in ["a", "n"] {
                let mut k = 1;
                while push(format!("L{c}{kind}{k}")) {
                    k += 1;
                }
            }
        }
    }
    out
}

/// The PD code of the diagram obtained by smoothing crossing `c` of `d` (bit = false: slots (0,1)(2,3)
/// joined, true: (0,3)(1,2), the convention of `Diagram::circles`): the crossing is dropped and the
/// edge labels that the smoothing joins are identified (smallest label of the class).  `None` if a
/// closed loop without any crossing would split off (it has no PD code) or nothing is left.
/// Together with `Link::resolved_at` this gives two presentations of the same diagram: one that still
/// lists the smoothed crossing, one that does not.
pub fn smoothed_pd(d: &Diagram, c: usize, bit: bool) -> Option<Vec<[usize; 4]>> {
    let code = d.pd();
    let n2 = 2 * d.n;
    let mut p: Vec<usize> = (0..=n2).collect();
    fn find(p: &mut Vec<usize>, x: usize) -> usize {
        let mut r = x;
        while p[r] != r {
            r = p[r];
        }
        p[x] = r;
        r
    }
    let x = code[c];
    let pairs = if bit { [(x[0], x[3]), (x[1], x[2])] } else { [(x[0], x[1]), (x[2], x[3])] };
    for (a, b) in pairs {
        let (ra, rb) = (find(&mut p, a), find(&mut p, b));
        if ra != rb {
            p[ra.max(rb)] = ra.min(rb);
        }
    }
    let out: Vec<[usize; 4]> = code.iter().enumerate().filter(|(k, _)| *k != c).map(|(_, y)| [find(&mut p, y[0]), find(&mut p, y[1]), find(&mut p, y[2]), find(&mut p, y[3])]).collect();
    if out.is_empty() {
        return None;
    }
    // every class must still occur at a remaining crossing, otherwise a free loop split off
    let present: std::collections::BTreeSet<usize> = out.iter().flatten().cloned().collect();
    for l in 1..=n2 {
        if !present.contains(&find(&mut p, l)) {
            return None;
        }
    }
    Some(out)
}

/// stable textual id of a diagram (its PD code)
pub fn code_string(d: &Diagram) -> String {
    format!("{:?}", d.pd()).replace(' ', "")
}

// ---- isotopy moves -------------------------------------------------------------------------------

/// all single PD-level moves from `d` that keep the link type: Reidemeister I (4 kinks on every
/// edge), every crossing reorder (n <= 3; cyclic shifts and reversal beyond), reversal of all
/// orientations.  (R2/R3/Markov moves live at the braid level, see `braid_moves`.)
pub fn pd_moves(d: &Diagram, with_r1: bool) -> Vec<(String, Diagram)> {
    let mut out = vec![];
    if with_r1 {
        for o in d.out_darts() {
            for pos in [true, false] {
                for uf in [true, false] {
                    out.push((format!("R1(dart{o},{},{})", if pos { '+' } else { '-' }, if uf { "under-first" } else { "over-first" }), d.r1(o, pos, uf)));
                }
            }
        }
    }
    if d.n >= 2 {
        if d.n <= 3 {
            for p in vcore::reflink::all_permutations(d.n).into_iter().skip(1) {
                out.push((format!("reorder{p:?}").replace(' ', ""), d.reorder(&p)));
            }
        } else {
            let n = d.n;
            for k in 1..n {
                let p: Vec<usize> = (0..n).map(|i| (i + k) % n).collect();
                out.push((format!("reorder{p:?}").replace(' ', ""), d.reorder(&p)));
            }
            let p: Vec<usize> = (0..n).rev().collect();
            out.push((format!("reorder{p:?}").replace(' ', ""), d.reorder(&p)));
        }
    }
    out.push(("reverse-all".into(), d.reverse_all()));
    out
}

/// every PD-level Reidemeister II move (parallel and antiparallel, any two edges of a common face)
pub fn pd_r2_moves(d: &Diagram) -> Vec<(String, Diagram)> {
    d.r2_moves().into_iter().enumerate().map(|(k, d2)| (format!("R2#{k}"), d2)).collect()
}

/// every PD-level Reidemeister III move (all orientations of the three strands)
pub fn pd_r3_moves(d: &Diagram) -> Vec<(String, Diagram)> {
    d.r3_moves().into_iter().enumerate().map(|(k, d2)| (format!("R3#{k}"), d2)).collect()
}

/// all single braid-level moves from (strands, word): R2 (insert a cancelling pair anywhere),
/// far commutation, R3 (braid relation in all valid sign patterns), conjugation (rotation),
/// Markov stabilisation (+/-).  Only moves whose result has no free loop are returned.
pub fn braid_moves(strands: usize, w: &[i32], max_len: usize) -> Vec<(String, usize, Vec<i32>)> {
    let mut out: Vec<(String, usize, Vec<i32>)> = vec![];
    let n = w.len();
    // R2
    if n + 2 <= max_len {
        for pos in 0..=n {
            for i in 1..strands as i32 {
                for s in [1, -1] {
                    let mut v = w.to_vec();
                    v.insert(pos, s * i);
                    v.insert(pos + 1, -s * i);
                    out.push((format!("R2(pos{pos},{})", s * i), strands, v));
                }
            }
        }
    }
    // far commutation
    for p in 0..n.saturating_sub(1) {
        if (w[p].abs() - w[p + 1].abs()).abs() >= 2 {
            let mut v = w.to_vec();
            v.swap(p, p + 1);
            out.push((format!("commute(pos{p})"), strands, v));
        }
    }
    // R3
    for p in 0..n.saturating_sub(2) {
        let (a, b, c) = (w[p], w[p + 1], w[p + 2]);
        if a.abs() == c.abs() && (a.abs() - b.abs()).abs() == 1 {
            let (e, dl, zt) = (a.signum(), b.signum(), c.signum());
            if !(e == zt && e != dl) {
                let (i, j) = (a.abs(), b.abs());
                let mut v = w.to_vec();
                v[p] = zt * j;
                v[p + 1] = dl * i;
                v[p + 2] = e * j;
                out.push((format!("R3(pos{p})"), strands, v));
            }
        }
    }
    // conjugation
    if n >= 2 {
        let mut v = w.to_vec();
        v.rotate_left(1);
        out.push(("conjugate".into(), strands, v));
    }
    // stabilisation
    if n + 1 <= max_len {
        for s in [1, -1] {
            let mut v = w.to_vec();
            v.push(s * strands as i32);
            out.push((format!("stabilise({s})"), strands + 1, v));
        }
    }
    out.retain(|(_, s, v)| braid_closure(*s, v).is_some());
    out
}

// ---- presentations of one and the same diagram ------------------------------------------------------

/// Different PD codes of the SAME diagram: every relabeling of the edges x every listing order of the
/// crossings (all n! for n <= 3; identity, reversal and one rotation beyond).  Unlike
/// `Diagram::reorder` + `pd()`, the labels stay attached to the edges, so that e.g. the first listed
/// crossing need not carry the smallest label (the library's base point for the reduced theory is
/// "smallest label of the first crossing").  The first entry is the canonical code itself.
pub fn code_variants(d: &Diagram, thin: bool) -> Vec<(String, Vec<[usize; 4]>)> {
    let n = d.n;
    let orders: Vec<Vec<usize>> = if n <= 3 && !thin {
        vcore::reflink::all_permutations(n)
    } else if n >= 2 {
        vec![(0..n).collect(), (0..n).rev().collect(), (0..n).map(|i| (i + 1) % n).collect()]
    } else {
        vec![(0..n).collect()]
    };
    let mut out = vec![];
    for (ln, lf) in relabelings(2 * n) {
        if thin && !["one-based", "reversed", "shuffled"].contains(&ln) {
            continue;
        }
        let code = d.pd_with(&|k| lf(k));
        for o in &orders {
            out.push((format!("{ln}/order{o:?}").replace(' ', ""), o.iter().map(|&c| code[c]).collect()));
        }
    }
    out
}

/// the reference diagram of a PD code together with the edge id of the library's base point
/// (smallest label of the first listed crossing)
pub fn parse_with_base(code: &[[usize; 4]]) -> Option<(Diagram, usize)> {
    let (d, labels) = Diagram::from_pd(code)?;
    let min_label = *code.first()?.iter().min()?;
    let base = labels.iter().position(|&l| l == min_label)?;
    Some((d, base))
}
