//! Reading the library's Khovanov homology objects into plain tables, and comparing tables
//! *up to isomorphism* (ranks equal, torsion equal as multisets of prime-power orders for Z,
//! up to units for other rings).

use std::collections::BTreeMap;

use crate::bridge::Bridge;
use vcore::reflink::Module;
use vcore::refnum::*;
use yui::{EucRing, EucRingOps};
use yui_homology::{isize2, GridTrait, SummandTrait};
use yui_kh::kh::{KhHomology, KhHomologyBigraded};

pub fn total_table<R>(h: &KhHomology<R>) -> BTreeMap<i64, Module<R::Ref>>
where
    R: EucRing + Bridge,
    for<'x> &'x R: EucRingOps<R>,
    R::Ref: RefEuclid,
{
    let mut t = BTreeMap::new();
    for i in h.support() {
        let s = &h[i];
        let m = Module { rank: s.rank(), tors: s.tors().iter().map(|x| x.to_ref()).collect() };
        if !m.is_zero() {
            t.insert(i as i64, m);
        }
    }
    t
}

pub fn bigraded_table<R>(h: &KhHomologyBigraded<R>) -> BTreeMap<(i64, i64), Module<R::Ref>>
where
    R: EucRing + Bridge,
    for<'x> &'x R: EucRingOps<R>,
    R::Ref: RefEuclid,
{
    let mut t = BTreeMap::new();
    for idx in h.support() {
        let isize2(i, j) = idx;
        let s = &h[(i, j)];
        let m = Module { rank: s.rank(), tors: s.tors().iter().map(|x| x.to_ref()).collect() };
        if !m.is_zero() {
            t.insert((i as i64, j as i64), m);
        }
    }
    t
}

/// canonical isomorphism type of a finitely generated module: for Z the multiset of prime
/// powers; for other Euclidean rings we fall back to "same multiset up to units" of the given
/// orders (exact when both sides list invariant factors, which both the library and the reference do).
pub trait IsoClass: RefEuclid {
    fn same_torsion(a: &[Self], b: &[Self]) -> bool {
        vcore::refmat::same_factor_multiset(a, b)
    }
}

fn prime_powers(n: &Z) -> Vec<(Z, u32)> {
    use num_traits::Signed;
    let mut n = n.abs();
    let mut out = vec![];
    let mut p = z(2);
    let one = z(1);
    while &p * &p <= n {
        let mut e = 0;
        while (&n % &p) == z(0) {
            n = &n / &p;
            e += 1;
        }
        if e > 0 {
            out.push((p.clone(), e));
        }
        p = &p + &one;
    }
    if n > one {
        out.push((n, 1));
    }
    out
}

impl IsoClass for Z {
    fn same_torsion(a: &[Z], b: &[Z]) -> bool {
        let canon = |v: &[Z]| {
            let mut pp: Vec<(Z, u32)> = v.iter().flat_map(prime_powers).collect();
            pp.sort();
            pp
        };
        !a.iter().chain(b).any(|x| x.is_zero()) && canon(a) == canon(b)
    }
}
impl IsoClass for Q {}
impl<const P: u32> IsoClass for Fp<P> {}
impl<const D: i64> IsoClass for Quad<D> {}
impl<K: RefField> IsoClass for UPoly<K> {}

pub fn show_module<T: RefEuclid>(m: &Module<T>) -> String {
    let mut parts = vec![];
    if m.rank > 0 {
        parts.push(format!("R^{}", m.rank));
    }
    for t in &m.tors {
        parts.push(format!("R/({})", t.show()));
    }
    if parts.is_empty() {
        "0".into()
    } else {
        parts.join("+")
    }
}

pub fn show_table<K: std::fmt::Debug + Ord, T: RefEuclid>(t: &BTreeMap<K, Module<T>>) -> String {
    t.iter().map(|(k, m)| format!("{k:?}:{}", show_module(m))).collect::<Vec<_>>().join(" ")
}

/// `None` if isomorphic degree by degree, else a description of the first difference
pub fn diff_tables<K: std::fmt::Debug + Ord + Clone, T: IsoClass>(lib: &BTreeMap<K, Module<T>>, reference: &BTreeMap<K, Module<T>>) -> Option<String> {
    let keys: std::collections::BTreeSet<K> = lib.keys().chain(reference.keys()).cloned().collect();
    let zero = Module { rank: 0, tors: vec![] };
    for k in keys {
        let (a, b) = (lib.get(&k).unwrap_or(&zero), reference.get(&k).unwrap_or(&zero));
        if a.rank != b.rank || !T::same_torsion(&a.tors, &b.tors) {
            return Some(format!("degree {k:?}: library {} vs reference {}", show_module(a), show_module(b)));
        }
    }
    None
}
