//! Glue between the library's scheduling-point hook (`yui::verif::point`, cfg yui_verif) and the
//! schedule explorer in `shim-rayon`.

pub use rayon::verif::{explore, run_scheduled, Abort, Config, ExploreStats, Trace};

fn forward(label: &'static str, loc: &'static std::panic::Location<'static>, ready: Option<&dyn Fn() -> bool>) {
    rayon::verif::point_at(label, loc.line(), ready)
}

/// Must be called once before any exploration.
pub fn install_hook() {
    yui::verif::install(forward);
}
