//! Glue between the library's scheduling-point hook (`yui::verif::point`, cfg yui_verif) and the
//! schedule explorer in `shim-rayon`.

pub use rayon::verif::{Abort, Config, ExploreStats, Trace};

/// `rayon::verif::explore` with the "panics are outcomes, not harness bugs" flag set
pub fn explore<T>(
    cfg: &Config,
    bound: Option<u32>,
    max_executions: u64,
    f: impl FnMut() -> T,
    on_exec: impl FnMut(std::thread::Result<T>, &Trace) -> bool,
) -> ExploreStats {
    vcore::run::pin_current_thread_once();
    let prev = vcore::run::IN_EXPLORER.with(|e| e.replace(true));
    let st = rayon::verif::explore(cfg, bound, max_executions, f, on_exec);
    vcore::run::IN_EXPLORER.with(|e| e.set(prev));
    st
}

/// `rayon::verif::explore_from` (deviations only from decision `branch_from` on)
pub fn explore_from<T>(
    cfg: &Config,
    bound: Option<u32>,
    max_executions: u64,
    branch_from: usize,
    f: impl FnMut() -> T,
    on_exec: impl FnMut(std::thread::Result<T>, &Trace) -> bool,
) -> ExploreStats {
    vcore::run::pin_current_thread_once();
    let prev = vcore::run::IN_EXPLORER.with(|e| e.replace(true));
    let st = rayon::verif::explore_from(cfg, bound, max_executions, branch_from, f, on_exec);
    vcore::run::IN_EXPLORER.with(|e| e.set(prev));
    st
}

pub fn run_scheduled<T>(cfg: &Config, prefix: &[u32], f: impl FnOnce() -> T) -> (std::thread::Result<T>, Trace) {
    vcore::run::pin_current_thread_once();
    let prev = vcore::run::IN_EXPLORER.with(|e| e.replace(true));
    let r = rayon::verif::run_scheduled(cfg, prefix, f);
    vcore::run::IN_EXPLORER.with(|e| e.set(prev));
    r
}

fn forward(label: &'static str, loc: &'static std::panic::Location<'static>, ready: Option<&dyn Fn() -> bool>) {
    rayon::verif::point_at(label, loc.line(), ready)
}

/// Must be called once before any exploration.
pub fn install_hook() {
    yui::verif::install(forward);
}
