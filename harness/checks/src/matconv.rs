//! Conversions between the library's matrices and reference matrices (entry by entry, through
//! the public API only).

use crate::bridge::Bridge;
use vcore::refmat::RMat;
use vcore::refnum::RefRing;
use yui::{Ring, RingOps};
use yui_matrix::dense::Mat;
use yui_matrix::sparse::SpMat;
use yui_matrix::MatTrait;

pub fn to_mat<R>(a: &RMat<R::Ref>) -> Mat<R>
where
    R: Ring + Bridge + nalgebra::Scalar + nalgebra::ClosedAddAssign,
    for<'x> &'x R: RingOps<R>,
{
    Mat::from_data((a.m, a.n), a.e.iter().map(|x| R::from_ref(x)))
}

pub fn from_mat<R>(a: &Mat<R>) -> RMat<R::Ref>
where
    R: Ring + Bridge,
    for<'x> &'x R: RingOps<R>,
{
    let (m, n) = a.shape();
    RMat::from_fn(m, n, |i, j| a[(i, j)].to_ref())
}

pub fn to_spmat<R>(a: &RMat<R::Ref>) -> SpMat<R>
where
    R: Ring + Bridge + nalgebra::Scalar + nalgebra::ClosedAddAssign,
    for<'x> &'x R: RingOps<R>,
{
    let mut e = vec![];
    for i in 0..a.m {
        for j in 0..a.n {
            if !a.at(i, j).is_zero() {
                e.push((i, j, R::from_ref(a.at(i, j))));
            }
        }
    }
    SpMat::from_entries((a.m, a.n), e)
}

/// stored entries at the same position are summed (a well-formed matrix has none)
pub fn from_spmat<R>(a: &SpMat<R>) -> RMat<R::Ref>
where
    R: Ring + Bridge,
    for<'x> &'x R: RingOps<R>,
{
    let (m, n) = a.shape();
    let mut r = RMat::<R::Ref>::zero(m, n);
    for (i, j, x) in a.iter() {
        let v = r.at(i, j).add(&x.to_ref());
        r.set(i, j, v);
    }
    r
}

/// number of m x n matrices over an alphabet of k letters
pub fn matrix_count(m: usize, n: usize, k: usize) -> usize {
    k.pow((m * n) as u32)
}

/// the idx-th m x n matrix over the alphabet (same order as `all_matrices`)
pub fn matrix_at<T: RefRing>(m: usize, n: usize, alphabet: &[T], idx: usize) -> (RMat<T>, String) {
    let k = alphabet.len();
    let mut codes = String::with_capacity(m * n);
    let mut e = Vec::with_capacity(m * n);
    let mut x = idx;
    for _ in 0..m * n {
        let c = x % k;
        codes.push(char::from_digit(c as u32, 36).unwrap());
        e.push(alphabet[c].clone());
        x /= k;
    }
    (RMat { m, n, e }, codes)
}

/// all m x n matrices over the alphabet (index 0 first), as (matrix, code string)
pub fn all_matrices<T: RefRing>(m: usize, n: usize, alphabet: &[T]) -> impl Iterator<Item = (RMat<T>, String)> + '_ {
    let k = alphabet.len();
    let total = k.pow((m * n) as u32);
    (0..total).map(move |idx| {
        let mut codes = String::with_capacity(m * n);
        let mut e = Vec::with_capacity(m * n);
        let mut x = idx;
        for _ in 0..m * n {
            let c = x % k;
            codes.push(char::from_digit(c as u32, 36).unwrap());
            e.push(alphabet[c].clone());
            x /= k;
        }
        (RMat { m, n, e }, codes)
    })
}
