//! C12, schedule/history part: "... all of these give the same value on one thread and on many".
//! The real parallel kernels run under the controlled scheduler:
//!  * `solve_triangular` — tasks = columns of Y, a thread-local dense scratch vector per worker:
//!    every assignment of the columns to W in {1,2,3} workers in every per-worker order is
//!    executed (item choice enabled); the per-worker order IS the history "what earlier columns
//!    left behind in the scratch vector of the same thread".  Two consecutive solves run inside one
//!    execution, on the same (persistent) pool threads.
//!  * `Schur::from_partial_triangular` (three parallel calls) — same.
//!  * `dir_sum_decomp` — nested parallel loops with a check-then-act pair on a Mutex-protected
//!    union-find: all interleavings of the lock points within the preemption bound.

use std::collections::BTreeSet;

use crate::matconv::{from_spmat, to_spmat};
use crate::sched::{self, Abort, Config};
use vcore::refmat::RMat;
use vcore::refnum::*;
use vcore::{catch, json, Run, Value};
use yui::Ratio;
use yui_matrix::sparse::decomp::dir_sum_decomp;
use yui_matrix::sparse::schur::Schur;
use yui_matrix::sparse::triang::{solve_triangular, TriangularType};
use yui_matrix::sparse::SpMat;
use yui_matrix::MatTrait;

pub struct Out {
    pub executions: u64,
    pub points: u64,
    pub json: Value,
}

fn explore_case<T: PartialEq + Clone + std::fmt::Debug>(
    run: &Run,
    key: &str,
    cfg: &Config,
    bound: Option<u32>,
    body: impl Fn() -> T,
    expected: &T,
    detail: Value,
    tot: &std::sync::Mutex<(u64, u64, u64, u64)>,
) {
    let mut outcomes = 0usize;
    let mut seen: Vec<T> = vec![];
    let st = sched::explore(cfg, bound, 200_000, &body, |r, tr| {
        if let Some(m) = &tr.diverged {
            eprintln!("MACHINERY ERROR: schedule replay diverged on {key}: {m}");
            std::process::exit(3);
        }
        match (&tr.abort, r) {
            (Some(ab), _) => {
                run.fail(key, &format!("aborted under schedule {:?}: {ab:?}", tr.choices()), detail.clone());
                false
            }
            (None, Err(_)) => {
                run.fail(key, "panicked outside a parallel call", detail.clone());
                false
            }
            (None, Ok(v)) => {
                if v != *expected {
                    run.fail(
                        key,
                        &format!("value under schedule {:?} differs from the exact value: got {:?}", tr.choices(), v),
                        json!({"input": detail, "schedule": tr.choices(), "expected": format!("{expected:?}")}),
                    );
                    return false;
                }
                if !seen.contains(&v) {
                    seen.push(v);
                    outcomes += 1;
                }
                true
            }
        }
    });
    if !st.complete && run.nviolations() == 0 {
        run.cap("C12 schedules: execution cap per case hit");
    }
    let mut g = tot.lock().unwrap();
    g.0 += st.executions;
    g.1 += st.points;
    g.2 += 1;
    g.3 += st.par_calls;
    let _ = outcomes;
}

pub fn schedule_part(run: &Run) -> Out {
    sched::install_hook();
    let th = run.thorough();
    let tot = std::sync::Mutex::new((0u64, 0u64, 0u64, 0u64));
    // ---- solve_triangular, twice in a row -------------------------------------------------------
    let ycols: Vec<Vec<i64>> = vec![vec![1, 0, 0], vec![0, 1, 1], vec![1, 1, 1], vec![2, 0, -1], vec![0, 0, 3]];
    let mut cases: Vec<(bool, RMat<Z>)> = vec![];
    for upper in [true, false] {
        for d in 0..8u32 {
            let diag: Vec<i64> = (0..3).map(|k| if d >> k & 1 == 1 { -1 } else { 1 }).collect();
            for o in 0..27u32 {
                let offv = [0i64, 1, 2];
                let (a, b, c) = (offv[(o % 3) as usize], offv[(o / 3 % 3) as usize], offv[(o / 9) as usize]);
                let m = RMat::from_fn(3, 3, |i, j| {
                    if i == j {
                        z(diag[i])
                    } else {
                        let (lo, hi) = (i.min(j), i.max(j));
                        let v = match (lo, hi) {
                            (0, 1) => a,
                            (0, 2) => b,
                            _ => c,
                        };
                        if (upper && i < j) || (!upper && i > j) {
                            z(v)
                        } else {
                            z(0)
                        }
                    }
                });
                cases.push((upper, m));
            }
        }
    }
    let kmax = if th { 4 } else { 3 };
    run.par_for(cases.len(), |ci| {
        if run.over_budget_frac(0.55) {
            run.cap("C12 schedules: wall budget reached (solve_triangular)");
            return;
        }
        let (upper, ar) = &cases[ci];
        let t = if *upper { TriangularType::Upper } else { TriangularType::Lower };
        let a: SpMat<i64> = to_spmat::<i64>(ar);
        // Y1 = first k columns, Y2 = the columns in reverse order (different leftovers)
        let y1r = RMat::from_fn(3, kmax, |i, j| z(ycols[j][i]));
        let y2r = RMat::from_fn(3, kmax, |i, j| z(ycols[kmax - 1 - j][i]));
        let (y1, y2): (SpMat<i64>, SpMat<i64>) = (to_spmat::<i64>(&y1r), to_spmat::<i64>(&y2r));
        // exact reference: A X = Y solved by the sequential library run and verified by the reference product
        let body = || (from_spmat(&solve_triangular(t, &a, &y1)), from_spmat(&solve_triangular(t, &a, &y2)));
        let seq = body();
        let key = format!("spsched:solve:{}:{}", if *upper { "U" } else { "L" }, ar.show());
        if ar.mul(&seq.0) != y1r || ar.mul(&seq.1) != y2r {
            run.fail(&key, "sequential solve_triangular does not satisfy A·X = Y", json!({"a": ar.show()}));
            return;
        }
        for w in [1usize, 2, 3] {
            if w == 3 && !th {
                continue;
            }
            let cfg = Config { workers: w, choose_items: true, max_decisions: 10_000, min_items: 2, count_task_switches: false };
            explore_case(run, &format!("{key}:W{w}"), &cfg, None, body, &seq, json!({"a": ar.show(), "y1": y1r.show(), "y2": y2r.show(), "workers": w}), &tot);
        }
    });
    // ---- Schur complement ------------------------------------------------------------------------
    let mut scases: Vec<(bool, RMat<Q>, usize)> = vec![];
    {
        let qv = [Q::int(0), Q::int(1), Q::int(2), Q::new(z(1), z(2))];
        // 3x4 matrices whose leading r x r block is unit-lower/upper triangular
        for upper in [true, false] {
            for r in [1usize, 2] {
                for code in 0..(if th { 4096u32 } else { 512 }) {
                    let m = RMat::from_fn(3, 4, |i, j| {
                        if i < r && j < r {
                            if i == j {
                                if (code >> (i + 10)) & 1 == 1 { Q::int(2) } else { Q::int(1) }
                            } else if (upper && i < j) || (!upper && i > j) {
                                qv[(code as usize >> 8) % 4].clone()
                            } else {
                                Q::int(0)
                            }
                        } else {
                            qv[((code as usize) >> (2 * ((i * 4 + j) % 4))) % 4].clone()
                        }
                    });
                    scases.push((upper, m, r));
                }
            }
        }
        scases.sort_by_key(|c| (c.0, c.2, c.1.show()));
        scases.dedup_by_key(|c| (c.0, c.2, c.1.show()));
    }
    run.par_for(scases.len(), |ci| {
        if run.over_budget_frac(0.8) {
            run.cap("C12 schedules: wall budget reached (schur)");
            return;
        }
        let (upper, mr, r) = &scases[ci];
        let t = if *upper { TriangularType::Upper } else { TriangularType::Lower };
        let m: SpMat<Ratio<i64>> = to_spmat::<Ratio<i64>>(mr);
        let body = || {
            let s = Schur::from_partial_triangular(t, &m, *r, true);
            let (c, ts, tt) = s.disassemble();
            let (ts, tt) = (ts.unwrap(), tt.unwrap());
            (from_spmat(&c), from_spmat(&ts.forward_mat()), from_spmat(&ts.backward_mat()), from_spmat(&tt.forward_mat()), from_spmat(&tt.backward_mat()))
        };
        let seq = body();
        let key = format!("spsched:schur:{}:r{}:{}", if *upper { "U" } else { "L" }, r, mr.show());
        // certificate of the sequential value: F_tgt · M · B_src = S, F·B = I
        if seq.3.mul(mr).mul(&seq.2) != seq.0 || !seq.1.mul(&seq.2).is_id() || !seq.3.mul(&seq.4).is_id() {
            run.fail(&key, "sequential Schur result does not satisfy F_tgt·M·B_src = S, F·B = I", json!({"m": mr.show(), "r": r}));
            return;
        }
        let cfg = Config { workers: 2, choose_items: true, max_decisions: 10_000, min_items: 2, count_task_switches: false };
        explore_case(run, &format!("{key}:W2"), &cfg, None, body, &seq, json!({"m": mr.show(), "r": r}), &tot);
    });
    // ---- histories with a fault: an interrupted solve must not poison the next one --------------------
    // A solve on an invalid input (non-unit diagonal entry: `inv().unwrap()` panics half-way through the
    // substitution) is caught by the caller; the next solve of a valid system on the same thread(s) must
    // still be exact.  Sequentially (same OS thread) and under the scheduler (the pool workers are
    // persistent, so thread-bound state survives from the faulting execution to the next one; all
    // task-to-worker assignments of the valid solve).  Seed `C12-scratch-static-survives-a-fault`.
    {
        let mut hist: Vec<(bool, usize, usize, u32)> = vec![];
        for upper in [false, true] {
            for n in [2usize, 3] {
                for p in 0..n {
                    for yk in 1..(1u32 << n) {
                        // quick: the right-hand sides with one or all entries set
                        if th || yk.count_ones() == 1 || yk == (1u32 << n) - 1 {
                            hist.push((upper, n, p, yk));
                        }
                    }
                }
            }
        }
        run.add("c12_fault_histories", hist.len() as u64);
        run.par_for(hist.len(), |hi| {
            let (upper, n, p, yk) = hist[hi];
            let t = if upper { TriangularType::Upper } else { TriangularType::Lower };
            {
                {
                    {
                        {
                        let bad = RMat::<Z>::from_fn(n, n, |i, j| if i == j { if i == p { z(2) } else { z(1) } } else if (upper && i < j) || (!upper && i > j) { z(1) } else { z(0) });
                        let ybad = RMat::<Z>::from_fn(n, 2, |i, _| z(((yk >> i) & 1) as i64));
                        let good = RMat::<Z>::from_fn(n, n, |i, j| if i == j { z(1) } else if (upper && i < j) || (!upper && i > j) { z(1) } else { z(0) });
                        let ygood = RMat::<Z>::from_fn(n, 3, |i, j| z(((i + j) % 2) as i64));
                        let (ab, yb, ag, yg): (SpMat<i64>, SpMat<i64>, SpMat<i64>, SpMat<i64>) = (to_spmat::<i64>(&bad), to_spmat::<i64>(&ybad), to_spmat::<i64>(&good), to_spmat::<i64>(&ygood));
                        // exact solution of the valid system by the reference: forward / backward substitution
                        let mut want = RMat::<Z>::zero(n, 3);
                        for c in 0..3 {
                            let order: Vec<usize> = if upper { (0..n).rev().collect() } else { (0..n).collect() };
                            for &i in &order {
                                let mut v = ygood.at(i, c).clone();
                                for j in 0..n {
                                    if j != i && !good.at(i, j).is_zero() {
                                        v = v.sub(&good.at(i, j).mul(want.at(j, c)));
                                    }
                                }
                                want.set(i, c, v);
                            }
                        }
                        let key = format!("spsched:fault-history:{}:n{n}:p{p}:y{yk}", if upper { "U" } else { "L" });
                        // (1) one thread, no scheduler
                        let _ = vcore::catch(|| solve_triangular(t, &ab, &yb));
                        match vcore::catch(|| from_spmat(&solve_triangular(t, &ag, &yg))) {
                            Ok(x) if x == want => {}
                            Ok(x) => run.fail(&format!("{key}:seq"), &format!("after an interrupted solve on the same thread the next solve gives {} instead of {}", x.show(), want.show()), json!({"bad": bad.show(), "y_bad": ybad.show(), "good": good.show(), "y": ygood.show()})),
                            Err(e) => run.fail(&format!("{key}:seq"), &format!("the valid solve panicked: {e}"), json!({"good": good.show()})),
                        }
                        // (2) two persistent workers: the faulting execution, then every assignment of the valid one
                        let cfg = Config { workers: 2, choose_items: true, max_decisions: 10_000, min_items: 2, count_task_switches: false };
                        let _ = sched::run_scheduled(&cfg, &[], || solve_triangular(t, &ab, &yb));
                        let _ = sched::run_scheduled(&cfg, &[1], || solve_triangular(t, &ab, &yb));
                        explore_case(run, &format!("{key}:W2"), &cfg, None, || from_spmat(&solve_triangular(t, &ag, &yg)), &want, json!({"bad": bad.show(), "y_bad": ybad.show(), "good": good.show(), "y": ygood.show()}), &tot);
                        }
                    }
                }
            }
        });
    }
    // ---- wide Schur complements: >= 64 columns outside the pivot block --------------------------------
    // (a column loop that is chunked or forks only above a minimum length hands a worker whole ranges
    // of columns; with work stealing a worker may process a higher range before a lower one, which
    // matters as soon as per-thread scratch state is kept between columns - seed
    // `C12-schur-stamp-assumes-increasing-columns`.)  M = [[A, B], [C, D]], A = I_r, every
    // combination of the patterns below; W = 2, item choice; every hand-over and every out-of-order
    // item is a deviation, bound 1 (thorough 2).
    {
        let mut wcases: Vec<(RMat<Q>, usize)> = vec![];
        let widths: &[usize] = if th { &[64, 65, 96] } else { &[64, 65] };
        for &nc in widths {
            for r in [1usize, 2] {
                for mp in [1usize, 2] {
                    for bpat in 0..3usize {
                        for dpat in 0..3usize {
                            let m = RMat::from_fn(r + mp, r + nc, |i, j| {
                                let one = Q::int(1);
                                let zero = Q::int(0);
                                if i < r && j < r {
                                    if i == j { one } else { zero }
                                } else if i < r {
                                    // B
                                    let jj = j - r;
                                    match bpat { 0 => one, 1 => if (jj + i) % 2 == 0 { one } else { zero }, _ => if jj % 5 == 0 { zero } else { Q::int(2) } }
                                } else if j < r {
                                    // C
                                    if (i - r + j) % 2 == 0 || mp == 1 { one } else { Q::new(z(1), z(2)) }
                                } else {
                                    // D
                                    let (ii, jj) = (i - r, j - r);
                                    match dpat { 0 => zero, 1 => if (ii + jj) % 3 == 0 { one } else { zero }, _ => one }
                                }
                            });
                            wcases.push((m, r));
                        }
                    }
                }
            }
        }
        run.add("c12_wide_schur_cases", wcases.len() as u64);
        run.par_for(wcases.len(), |ci| {
            if run.over_budget_frac(0.9) {
                run.cap("C12 schedules: wall budget reached (wide schur)");
                return;
            }
            let (mr, r) = &wcases[ci];
            let m: SpMat<Ratio<i64>> = to_spmat::<Ratio<i64>>(mr);
            let body = || {
                let s = Schur::from_partial_triangular(TriangularType::Upper, &m, *r, false);
                from_spmat(&s.disassemble().0)
            };
            // exact value from the reference: S = D - C A^-1 B with A = I
            let (mrows, ncols) = (mr.m - r, mr.n - r);
            let expected = RMat::from_fn(mrows, ncols, |i, j| {
                let mut v = mr.at(r + i, r + j).clone();
                for k in 0..*r {
                    v = v.sub(&mr.at(r + i, k).mul(mr.at(k, r + j)));
                }
                v
            });
            let key = format!("spsched:schur-wide:{}x{}:r{}:case{}", mr.m, mr.n, r, ci);
            let cfg = Config { workers: 2, choose_items: true, max_decisions: 100_000, min_items: 2, count_task_switches: true };
            explore_case(run, &key, &cfg, Some(if th { 2 } else { 1 }), body, &expected, json!({"m": mr.show(), "r": r}), &tot);
        });
    }
    // ---- dir_sum_decomp: the union-find race ------------------------------------------------------
    let mut dcases: Vec<RMat<Z>> = vec![];
    for code in 0..(1u32 << 12) {
        let m = RMat::from_fn(3, 4, |i, j| z(((code >> (i * 4 + j)) & 1) as i64));
        // at least 3 non-empty columns, otherwise there is nothing to race on
        let nonempty = (0..4).filter(|&j| (0..3).any(|i| !m.at(i, j).is_zero())).count();
        if nonempty >= 3 {
            dcases.push(m);
        }
    }
    // five columns joined along a tree (seed `C12-union-find-root-memo`: a stale root is only used after a chain
    // of unions such as 2-3, 0-3, 3-4, 1-4): every spanning tree on the columns 0..5, one row per tree edge with
    // a 1 in its two columns - connected, so every schedule must return a single block
    {
        let pairs: Vec<(usize, usize)> = (0..5).flat_map(|a| (a + 1..5).map(move |b| (a, b))).collect();
        for mask in 0u32..(1 << pairs.len()) {
            if mask.count_ones() != 4 {
                continue;
            }
            let edges: Vec<(usize, usize)> = pairs.iter().enumerate().filter(|(k, _)| mask >> k & 1 == 1).map(|(_, e)| *e).collect();
            // connected?
            let mut comp: Vec<usize> = (0..5).collect();
            for _ in 0..5 {
                for &(a, b) in &edges {
                    let c = comp[a].min(comp[b]);
                    comp[a] = c;
                    comp[b] = c;
                }
            }
            if comp.iter().any(|&c| c != 0) {
                continue;
            }
            dcases.push(RMat::from_fn(4, 5, |i, j| z((edges[i].0 == j || edges[i].1 == j) as i64)));
        }
    }
    // wide inputs (a parallel loop may only fork beyond a minimum length, cf. rayon's with_min_len):
    // 17 non-empty columns; column k = e_k, except one column z = e_x + e_y that joins two otherwise
    // unrelated columns x and y.  Every placement x < y < z in thorough, a spread of placements in quick.
    let n_small = dcases.len();
    {
        let w = 17usize;
        for x in 0..w {
            for y in x + 1..w {
                for zc in y + 1..w {
                    let pick = th || ([0usize, 3, 7].contains(&x) && [8usize, 12, 15].contains(&y) && (zc == y + 1 || zc == w - 1));
                    if !pick {
                        continue;
                    }
                    dcases.push(RMat::from_fn(w, w, |i, j| if j == zc { z((i == x || i == y) as i64) } else { z((i == j) as i64) }));
                }
            }
        }
    }
    // interleaved blocks (seed `C12-rows-in-shared-mark-array`): G >= 16 column groups whose row spans all
    // overlap - column g = e_g + e_{g+G} (one column per group), optionally one further column e_a + e_b that
    // joins the groups a and b.  A loop over the *groups* that only forks beyond 2 x 8 items forks here, and
    // any per-group state indexed by row is shared between groups that are processed concurrently.
    {
        let mut push = |g: usize, join: Option<(usize, usize)>| {
            let n = g + join.is_some() as usize;
            dcases.push(RMat::from_fn(2 * g, n, |i, j| {
                if j < g {
                    z((i == j || i == j + g) as i64)
                } else {
                    let (a, b) = join.unwrap();
                    z((i == a || i == b) as i64)
                }
            }));
        };
        push(16, None);
        push(17, Some((3, 12)));
        if th {
            push(17, None);
            push(18, Some((0, 17)));
            push(20, Some((9, 10)));
        }
    }
    run.par_for(dcases.len(), |ci| {
        if run.over_budget() {
            run.cap("C12 schedules: wall budget reached");
            return;
        }
        let mr = &dcases[ci];
        let _wide = ci >= n_small;
        let m: SpMat<i64> = to_spmat::<i64>(mr);
        // value = the partition of rows and columns into blocks (as sets), plus block contents
        let body = || {
            let (p, q, blocks) = dir_sum_decomp(m.clone());
            let b = m.permute(p.view(), q.view());
            let shapes: Vec<(usize, usize)> = blocks.iter().map(|s| s.shape()).collect();
            (from_spmat(&b), shapes, blocks.iter().map(from_spmat).collect::<Vec<_>>())
        };
        // judge: permuted matrix is block diagonal of the blocks; number of blocks = number of
        // connected components of the bipartite row/column graph (reference)
        let comps = {
            let (mm, nn) = (mr.m, mr.n);
            let mut parent: Vec<usize> = (0..mm + nn).collect();
            fn find(p: &mut Vec<usize>, x: usize) -> usize {
                if p[x] != x {
                    let r = find(p, p[x]);
                    p[x] = r;
                }
                p[x]
            }
            for i in 0..mm {
                for j in 0..nn {
                    if !mr.at(i, j).is_zero() {
                        let (a, b) = (find(&mut parent, i), find(&mut parent, mm + j));
                        parent[a] = b;
                    }
                }
            }
            let used: BTreeSet<usize> = (0..mm)
                .filter(|&i| (0..nn).any(|j| !mr.at(i, j).is_zero()))
                .chain((0..nn).filter(|&j| (0..mm).any(|i| !mr.at(i, j).is_zero())).map(|j| mm + j))
                .collect();
            used.iter().map(|&x| find(&mut parent, x)).collect::<BTreeSet<_>>().len()
        };
        // "the same value on one thread and on many": the value outside the explorer (the stand-in runs a
        // parallel call inline there, i.e. one thread, items in order) is what every schedule must return -
        // permuted matrix, block shapes and blocks, in this order (seed `C12-union-by-rank-schedule-dependent-order`:
        // every schedule gave *a* valid decomposition, but the order of the summands depended on it)
        let sequential = catch(|| body());
        let judge = |v: &(RMat<Z>, Vec<(usize, usize)>, Vec<RMat<Z>>)| -> Result<(), String> {
            if let Ok(sv) = &sequential {
                if sv != v {
                    return Err(format!("value differs from the one-thread value: blocks {:?} vs {:?} (one thread)", v.1, sv.1));
                }
            }
            let (b, shapes, blocks) = v;
            if shapes.len() != comps {
                return Err(format!("{} blocks, the bipartite graph has {comps} components", shapes.len()));
            }
            let (mut r0, mut c0) = (0, 0);
            let mut expect = RMat::<Z>::zero(mr.m, mr.n);
            for (k, &(h, w)) in shapes.iter().enumerate() {
                for i in 0..h {
                    for j in 0..w {
                        if r0 + i >= mr.m || c0 + j >= mr.n {
                            return Err("blocks exceed the matrix".into());
                        }
                        expect.set(r0 + i, c0 + j, blocks[k].at(i, j).clone());
                    }
                }
                r0 += h;
                c0 += w;
            }
            if expect != *b {
                return Err(format!("permuted matrix {} is not the block diagonal sum {}", b.show(), expect.show()));
            }
            Ok(())
        };
        let key = format!("spsched:decomp:{}", if _wide { format!("wide{}x{}#{}:{:?}", mr.m, mr.n, ci - n_small, (0..mr.n).rev().find(|&j| (0..mr.m).filter(|&i| !mr.at(i, j).is_zero()).count() == 2).map(|j| (j, (0..mr.m).filter(|&i| !mr.at(i, j).is_zero()).collect::<Vec<_>>()))) } else { mr.show() });
        // wide inputs have ~16 tasks and ~150 lock points: there every switch to another worker
        // counts as a deviation (also at task boundaries), bound 2
        let cfg = Config { workers: 2, choose_items: false, max_decisions: 100_000, min_items: 2, count_task_switches: _wide };
        let bound = if th && !_wide { 3 } else { 2 };
        let st = sched::explore(&cfg, Some(bound), 400_000, body, |r, tr| match (&tr.abort, r) {
            _ if tr.diverged.is_some() => {
                eprintln!("MACHINERY ERROR: schedule replay diverged on {key}: {:?}", tr.diverged);
                std::process::exit(3);
            }
            (Some(ab), _) => {
                run.fail(&key, &format!("aborted under schedule {:?}: {ab:?}", tr.choices()), json!({"m": mr.show()}));
                false
            }
            (None, Err(p)) => {
                let msg = p.downcast_ref::<String>().cloned().or_else(|| p.downcast_ref::<&str>().map(|x| x.to_string())).unwrap_or_default();
                run.fail(&key, &format!("panicked under schedule {:?}: {msg}", tr.choices()), json!({"m": mr.show(), "schedule": tr.choices()}));
                false
            }
            (None, Ok(v)) => match judge(&v) {
                Ok(()) => true,
                Err(e) => {
                    run.fail(&key, &format!("under schedule {:?}: {e}", tr.choices()), json!({"m": mr.show(), "schedule": tr.choices()}));
                    false
                }
            },
        });
        if !st.complete && run.nviolations() == 0 {
            run.cap("C12 schedules (decomp): execution cap per case hit");
        }
        let mut g = tot.lock().unwrap();
        g.0 += st.executions;
        g.1 += st.points;
        g.2 += 1;
        g.3 += st.par_calls;
    });
    // ---- the progress-report path of solve_triangular ------------------------------------------------
    // (more than 10 000 rows and right-hand-side columns, log level Debug: a configuration no small
    // input reaches.)  A = I + two off-diagonal entries, Y = I; X must satisfy A X = Y exactly for the
    // default schedule and for every schedule with one deviation among the last decisions.
    {
        let n = 10_001usize;
        log::set_max_level(log::LevelFilter::Debug);
        let window = if th { 24 } else { 2 };
        for (t, off) in [(TriangularType::Lower, [(1usize, 0usize, 1i64), (n - 1, n - 2, 2)]), (TriangularType::Upper, [(0, 1, 1), (n - 2, n - 1, 2)])] {
            if !th && t == TriangularType::Upper {
                continue; // quick: the lower-triangular case only
            }
            let mut ae: Vec<(usize, usize, i64)> = (0..n).map(|i| (i, i, 1i64)).collect();
            ae.extend(off.iter().cloned());
            let a: SpMat<i64> = SpMat::from_entries((n, n), ae.clone());
            let y: SpMat<i64> = SpMat::from_entries((n, n), (0..n).map(|i| (i, i, 1i64)));
            // exact inverse of I + N (N^2 = 0 here): I - N
            let mut want: std::collections::BTreeMap<(usize, usize), i64> = (0..n).map(|i| ((i, i), 1i64)).collect();
            for &(i, j, v) in &off {
                want.insert((i, j), -v);
            }
            let key = format!("spsched:solve-report-path:{}", if t == TriangularType::Lower { "L" } else { "U" });
            let cfg = Config { workers: 2, choose_items: false, max_decisions: 1_000_000, min_items: 2, count_task_switches: true };
            let body = || {
                let x = solve_triangular(t, &a, &y);
                let got: std::collections::BTreeMap<(usize, usize), i64> = x.iter().filter(|e| *e.2 != 0).map(|(i, j, v)| ((i, j), *v)).collect();
                got
            };
            let (r0, tr0) = sched::run_scheduled(&cfg, &[], body);
            let n0 = tr0.decisions.len();
            if tr0.abort.is_some() || r0.is_err() {
                run.fail(&key, &format!("default execution failed: {:?}", tr0.abort), json!({"n": n}));
                continue;
            }
            let st = sched::explore_from(&cfg, Some(1), 10_000, n0.saturating_sub(window), body, |r, tr| match (&tr.abort, r) {
                (Some(ab), _) => {
                    run.fail(&key, &format!("aborted under schedule: {ab:?}"), json!({"n": n}));
                    false
                }
                (None, Err(_)) => {
                    run.fail(&key, "panicked outside a parallel call", json!({"n": n}));
                    false
                }
                (None, Ok(got)) => {
                    if got != want {
                        let bad: Vec<_> = got.iter().filter(|(k, v)| want.get(k) != Some(v)).take(3).collect();
                        run.fail(&key, &format!("X != A^-1 under a schedule with {} deviation(s): first differing entries {bad:?}", tr.preemptions()), json!({"n": n, "schedule_length": tr.decisions.len()}));
                        return false;
                    }
                    true
                }
            });
            run.add("c12_report_path_executions", st.executions);
            let mut g = tot.lock().unwrap();
            g.0 += st.executions;
            g.1 += st.points;
            g.2 += 1;
            g.3 += st.par_calls;
        }
        log::set_max_level(log::LevelFilter::Off);
    }
    let g = tot.into_inner().unwrap();
    Out {
        executions: g.0,
        points: g.1,
        json: json!({"cases": g.2, "executions": g.0, "lock_points_passed": g.1, "scheduled_parallel_calls": g.3,
                     "solve_cases": cases.len(), "schur_cases": scases.len(), "decomp_cases": dcases.len(),
                     "wide_schur_cases": run.get("c12_wide_schur_cases"), "fault_histories": run.get("c12_fault_histories"),
                     "solve_report_path": {"n": 10001, "log_level": "Debug", "executions": run.get("c12_report_path_executions"), "rule": "A = I + 2 entries, Y = I (10 001 columns = tasks); default schedule + every schedule with one deviation among the last 2 (thorough 24) decisions; quick: lower triangular only"},
                     "workers": "solve: 1,2,3 with item choice (all assignments and per-worker orders); schur: 2 with item choice; wide schur (64-96 columns): 2 with item choice, deviations (hand-overs + out-of-order items) <= 1 (thorough 2); decomp: 2, preemption bound 2 (thorough 3)"}),
    }
}
