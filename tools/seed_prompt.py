#!/usr/bin/env python3
"""tools/seed_prompt.py <Cxx> [round]  — prints the prompt given to a seeding sub-agent.
The agent gets the property text and its own scratch worktree /tmp/seed<round>-Cxx, nothing from /verif.
Round 2 adds one line naming the function the round-1 seed changed (so that the second change
lands elsewhere) and, for the properties with a threads clause, asks for an interleaving defect."""
import sys, json
pid = sys.argv[1]
rnd = sys.argv[2] if len(sys.argv) > 2 else "1"
prop = None
for line in open('/verif/properties.jsonl'):
    o = json.loads(line)
    if o.get('id') == pid:
        prop = o
assert prop, pid
text = "\n".join(f"{k}: {v}" for k, v in prop.items())
d = f'/tmp/seed{rnd}-{pid}' if rnd != "1" else f'/tmp/seed-{pid}'
avoid = {
 "C01": ["LcCobTrait::inv", "TngComplex::connect_edges", "TngComplex::contains_base_pt", "TngComplex::connect_edges / RowWorker::init (again)"], "C02": ["contains_base_pt", "Link::crossing_signs", "BitSeq::weight", "CobComp::part_eval"],
 "C03": ["diag_normalize_step in snf.rs", "LcCob::inv", "HomologyCalc::trans", "HomologyCalc::result"], "C04": ["Link::crossing_signs", "jones_polynomial", "KhComplex::q_range", "KhComplex::deg_shift_for"],
 "C05": ["part_eval", "LcCob::inv", "LcCob::is_invertible", "Cob::stack_comps"], "C06": ["BuildElem::eliminate", "LcCob::inv", "TngComplex::contains_base_pt", "TngComplexBuilder::make_canon_cycles"],
 "C07": ["the collection of torsion orders in the homology calculator", "diag_normalize_step in snf.rs", "SnfCalc::mul_row", "SnfCalc::diag_normalize"],
 "C08": ["ChainReducer::update_vecs", "RowWorker::init in pivot.rs", "RowWorker::update_diff", "PivotFinder::find_cycle_free_pivots_in (isolated-row fast path)"], "C09": ["diag_normalize_step", "SnfCalc::eliminate_step", "SnfCalc::mul_row"],
 "C10": ["the size-reduction loop of plain LLL", "normalizing_unit of the Eisenstein integers", "div_round in int_ext.rs"],
 "C11": ["RowWorker::init", "RowWorker::traverse", "PivotFinder::find_cycle_free_pivots_in", "PivotFinder::find_cycle_free_pivots_m (progress report)"], "C12": ["group_cols / UnionFind", "_solve_triangular", "Schur::compute_schur", "collect_diag in triang.rs"],
 "C13": ["SpMat::extend_cols", "Trans::sub", "SpVec::stack_vecs", "Trans::append"], "C14": ["Ratio::reduce", "negation of FF<p>", "Ord::cmp for Ratio", "Mul for QuadInt"],
 "C15": ["div_round", "divides for QuadInt", "the generic EucRing::gcdx"], "C16": ["Lc::map_coeffs / into_map_coeffs", "MultiDeg::cmp_lex", "PolyBase::is_const", "MultiDeg::add_assign"],
 "C17": ["BitSeq::weight", "BitSeq::remove", "BitSeq::insert"], "C18": ["Link::crossing_signs", "Braid::closure / Braid::reduce", "Link::resolved_by", "Link::crossing_index"],
 "C19": ["SymTngBuilder::build_from_half", "SymTngBuilder::off_axis_crossings", "SymTngBuilder::finalize", "SymTngBuilder::deloop_off_axis"],
 "C20": ["the handling of --mirror", "the (coefficient type, variables) dispatch table", "parse_pair in helper.rs", "make_rmod_str in yui-homology/src/misc/format.rs"],
}
threads = {"C01", "C08", "C11", "C12"}
extra = ""
if rnd != "1":
    prev = avoid[pid][: int(rnd) - 1]
    if int(rnd) >= 7:
        # from round 7 on: one line per kept seed of this property (files + first sentence of its summary)
        import glob, os
        prev = []
        for mf in sorted(glob.glob(f'/verif/seeded/{pid}-*/meta.json')):
            try:
                m = json.load(open(mf))
            except Exception:
                continue
            sm = (m.get('summary') or '').replace('\n', ' ')
            prev.append(f"[{', '.join(m.get('files_changed') or [])}] {sm[:160]}")
        prev = ["\n  - " + x for x in prev]
    extra += f"\nEarlier, separate exercises already produced changes in: {'; '.join(prev)}. Choose a DIFFERENT function (preferably a different file) so that the changes are independent.\n"
    if pid in threads:
        extra += "For this property, strongly prefer a defect that only shows under a particular interleaving of the rayon worker threads (a dropped re-check after re-acquiring a lock, a lock released too early, state hoisted from task-local to shared, a stale snapshot, a thread-local scratch buffer that is not reset, ...), i.e. one that single-threaded execution of the same input never shows. If after a serious attempt no such change passes the existing tests, fall back to a sequential one.\n"
print(f"""You are working in a scratch git worktree of the Rust workspace taketo1024/yui (exact algebra + Khovanov homology) at {d} . It already exists and is yours alone. Work ONLY inside {d}: do not read or write /repo, /verif or any other worktree under /tmp (they are off limits), do not use the network (there is none; cargo needs --offline), do not commit.

Here is a semantic property that the library is supposed to satisfy:

{text}
{extra}
YOUR TASK: produce ONE realistic change (a "seeded defect") to the library SOURCE in {d} (not to its tests) that BREAKS this property, such that
 (a) the workspace still compiles;
 (b) the repository's existing test suite still passes completely:  cd {d} && CARGO_TARGET_DIR={d}/target cargo test --workspace --no-fail-fast --offline   (first build takes several minutes; EVERY test must still pass with your change — run it and read the summary lines);
 (c) the breakage needs something SPECIFIC to manifest — a particular thread interleaving, a fault or a particular point in a multi-step sequence of operations, an unusual input (a boundary value, a special shape, a rare configuration), or two cooperating sites that each look fine alone — NOT something that ordinary use or any typical input would expose at once. Think like a plausible refactoring mistake, an 'optimisation' that drops a re-check, an off-by-one at a boundary, a cached value that goes stale, a sign or index error in a rarely taken branch. The change should be small (a few lines) and look innocent.
Then write a DEMONSTRATION: a small Rust integration test (a new file under the relevant crate's tests/ directory, or a new example) that FAILS with your change and PASSES without it (if the defect is about thread interleavings and cannot be forced deterministically from outside, the demonstration may instead construct the bad state/sequence directly, or loop until the race is hit and explain the expected hit rate — but prefer a deterministic demonstration).

DELIVERABLES in {d}/SEED/ :
  patch.diff  — `git diff` of the library change ONLY (not the demonstration), applicable with `git apply` at the worktree root;
  demo/       — the demonstration file(s) plus a README.txt saying where to put them and the exact command to run;
  meta.json   — {{"property": "{pid}", "summary": "...", "needs_to_manifest": "...", "files_changed": [...], "commands_run": [...], "test_suite_with_patch": "N passed, 0 failed", "demo_with_patch": "fails: ...", "demo_without_patch": "passes"}}
VERIFY YOURSELF, in this order: (1) with the patch applied: full test suite passes; demonstration fails. (2) revert the library change with `git apply -R SEED/patch.diff` (keep the demo; do NOT use `git stash`: the stash is shared by all worktrees of the repository and other people work in sibling worktrees): demonstration passes. Re-apply the patch (`git apply SEED/patch.diff`) at the end so the worktree contains patch + demo. If your first idea turns out to be caught by the existing tests, pick another. Keep the build output in {d}/target (it will be deleted with the worktree).
FINAL REPORT (short): the change, why it breaks the property, what is needed to manifest it, the name of the demo test target and crate, and the verification results.""")
