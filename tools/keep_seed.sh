#!/bin/bash
# tools/keep_seed.sh <seed-worktree> <seed-id> <property> "<caught-by / result text>"
# copies SEED/{patch.diff,demo,meta.json} of a confirmed seeded change into /verif/seeded/<seed-id>/
set -eu
wt="$1"; id="$2"; prop="$3"; res="$4"
dst=/verif/seeded/$id
mkdir -p "$dst"
cp "$wt/SEED/patch.diff" "$dst/patch.diff"
rm -rf "$dst/demo"; cp -r "$wt/SEED/demo" "$dst/demo"
python3 - "$wt/SEED/meta.json" "$dst/meta.json" "$prop" "$res" <<'PY'
import json,sys
src,dst,prop,res=sys.argv[1:5]
try: m=json.load(open(src))
except Exception as e: m={"agent_meta_unreadable": str(e)}
m["property"]=prop
m["confirmed_by_me"]={"suite_with_patch":"cargo test --workspace --no-fail-fast --offline in the seed worktree: all pre-existing targets pass","demo_with_patch":"fails","demo_without_patch":"passes"}
m["detection"]=res
json.dump(m,open(dst,'w'),indent=1)
PY
echo kept $dst
