#!/bin/bash
# Runs checks against a scratch copy/worktree of the repository instead of /repo, without
# touching /verif/evidence or /verif/target.  Usage:
#   tools/scratch_check.sh <repo-worktree> <scratch-dir> <Cxx> [--tier quick|thorough] ...
# <scratch-dir> (e.g. /tmp/vh-foo) receives a copy of the harness, its own target dir and the
# evidence/replays of the run; delete it when done.
set -eu
wt="$(readlink -f "$1")"; sc="$2"; id="$3"; shift 3
mkdir -p "$sc"
rsync -a --delete --exclude target /verif/harness/ "$sc/harness/"
cp /verif/known_findings.json "$sc/" 2>/dev/null || true
rm -rf "$sc/known"; cp -r /verif/known "$sc/known" 2>/dev/null || true
sed -i "s#\"/repo/#\"$wt/#g" "$sc/harness/checks/Cargo.toml"
# (.cargo/config.toml has target-dir = "../target", i.e. $sc/target)
bin="$(echo "$id" | tr 'A-Z' 'a-z')"
cd "$sc/harness"
export CARGO_NET_OFFLINE=true
if ! cargo build --profile verif -p checks --bin "$bin" -q 2> "$sc/build.log"; then
  echo "BUILD-FAILED (scratch) property=$id"; tail -40 "$sc/build.log"; exit 2
fi
if [ "$bin" = c01 ]; then
  if ! cargo build --profile verif -p checks --bin c01old --features old -q 2> "$sc/build.log"; then
    echo "BUILD-FAILED (scratch) property=$id sub-run c01old"; tail -40 "$sc/build.log"; exit 2
  fi
fi
VERIF_ROOT="$sc" VERIF_REPO="$wt" "$sc/target/verif/$bin" "$@"
