#!/usr/bin/env python3
"""Regenerates /verif/MANIFEST.json from tools/manifest_src.json (kept valid at all times)."""
import json, sys, os
root = os.path.dirname(os.path.dirname(os.path.abspath(__file__)))
src = json.load(open(os.path.join(root, "tools", "manifest_src.json")))
props = [json.loads(l)["id"] for l in open(os.path.join(root, "properties.jsonl"))]
checks = []
for c in src["checks"]:
    pid = c["property_id"]
    checks.append({
        "property_id": pid,
        "quick_cmd": f"./check {pid} --tier quick",
        "thorough_cmd": f"./check {pid} --tier thorough",
        "evidence_file": f"/verif/evidence/{pid}.json",
        "replay_cmd_template": f"./check {pid} --replay {{path}}",
        "engine": c.get("engine", "yv"),
        "level_claimed": {"category": c["category"], "text": c["text"], "design_ref": c.get("design_ref", f"DESIGN.md §5/{pid}")},
        "level_note": c["note"],
        "technique": c["technique"],
    })
claimed = {c["property_id"] for c in checks}
na = [x for x in src["not_applicable"] if x["property_id"] not in claimed]
missing = [p for p in props if p not in claimed and p not in {x["property_id"] for x in na}]
for p in missing:
    na.append({"property_id": p, "reason": "no check registered yet (work in progress; see DESIGN.md §9 build order)"})
m = {
    "version": 1,
    "setup_cmd": src["setup_cmd"],
    "hooks": src["hooks"],
    "engines": src["engines"],
    "checks": checks,
    "notes": src["notes"],
    "not_applicable": na,
}
json.dump(m, open(os.path.join(root, "MANIFEST.json"), "w"), indent=1)
print("checks:", len(checks), "not_applicable:", len(na))
