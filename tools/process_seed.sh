#!/bin/bash
# tools/process_seed.sh <worktree> <Cxx> <crate> <demo-target> [more checks ...]
# confirm (suite passes with patch, demo fails with / passes without), then run the quick check of the
# property (and of any further checks named) against the worktree; compact output.
wt="$1"; prop="$2"; crate="$3"; demo="$4"; shift 4
echo "## confirm"; /verif/tools/confirm_seed.sh "$wt" "$crate" "$demo" 2>&1 | grep -E "pre-existing targets|test result" 
sc=/tmp/vh-$(basename "$wt")
for c in "$prop" "$@"; do
  out=$(/verif/tools/scratch_check.sh "$wt" "$sc" "$c" 2>&1)
  echo "## $c: $(echo "$out" | grep -E "^$c tier=|BUILD-FAILED|MACHINERY|ENGINE" | tail -1 | cut -c1-120)"
  ls "$sc/replays/$c" >/dev/null 2>&1 && grep -h '"what"' "$sc"/replays/"$c"/*.json | cut -c1-200 | sort | uniq -c | sort -rn | head -3
  rm -rf "$sc/replays"
done
