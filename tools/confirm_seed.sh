#!/bin/bash
# tools/confirm_seed.sh <seed-worktree> <crate> <demo-test-name>
# confirms: (1) full suite passes with the patch (pre-existing targets), (2) demo fails with it,
# (3) demo passes without it.  Leaves the patch applied.
set -u
wt="$1"; crate="$2"; demo="$3"
cd "$wt" || exit 2
export CARGO_TARGET_DIR="$wt/target"
# the tested state is exactly HEAD + SEED/patch.diff (+ the untracked demo files): tracked files are
# reset first, so that a stray edit in the worktree (e.g. another agent's `git stash pop` - the stash
# is shared by all worktrees of one repository) cannot take part in the confirmation
git checkout -q -- . || exit 2
git apply SEED/patch.diff || { echo "SEED/patch.diff does not apply to HEAD"; exit 2; }
echo "== suite with patch (demo target excluded from the count)"
cargo test --workspace --no-fail-fast --offline 2>&1 | grep -E "^(     Running|test result)" | paste - - | grep -v "$demo" | awk '{for(i=1;i<=NF;i++){if($i=="passed;")p+=$(i-1); if($i=="failed;")f+=$(i-1)}} END {print "   pre-existing targets: " p " passed, " f " failed"}'
echo "== demo with patch"
cargo test -p "$crate" --offline --test "$demo" 2>&1 | grep -E "^test result" 
git apply -R SEED/patch.diff || { echo "cannot revert patch"; exit 2; }
echo "== demo without patch"
cargo test -p "$crate" --offline --test "$demo" 2>&1 | grep -E "^test result"
git apply SEED/patch.diff
